//! Calibration cases for the R-panic tactics and the zone analysis (engine/zones.py).
//! `ok_*`: every panic-capable site must be discharged.  `bad_*`: at least one site must stay undischarged
//! (the function can panic for some argument).  Compiled with the same driver as rpgp; never executed.
#![allow(unused, clippy::all)]
use std::io::Read;

pub fn ok_index_after_len_guard(x: &[u8]) -> u8 { if x.len() < 3 { return 0; } x[2] }
pub fn bad_index_after_weak_guard(x: &[u8]) -> u8 { if x.len() < 2 { return 0; } x[2] }
pub fn bad_index_after_le_guard(x: &[u8], i: usize) -> u8 { if i <= x.len() { x[i] } else { 0 } }
pub fn ok_index_after_lt_guard(x: &[u8], i: usize) -> u8 { if i < x.len() { x[i] } else { 0 } }
pub fn ok_sub_guarded(n: usize) -> usize { if n >= 2 { n - 2 } else { 0 } }
pub fn bad_sub_unguarded(n: usize) -> usize { n - 2 }
pub fn bad_sub_weak_guard(n: usize) -> usize { if n >= 1 { n - 2 } else { 0 } }
pub fn bad_u8_add(a: u8) -> u8 { a + 1 }
pub fn ok_u8_add_guarded(a: u8) -> u8 { if a < 255 { a + 1 } else { a } }
pub fn ok_widened_add(a: u8, b: u16) -> usize { a as usize + b as usize + 3 }
pub fn bad_usize_add(a: usize, b: usize) -> usize { a + b }
pub fn ok_len_add(a: &[u8], b: &[u8]) -> usize { a.len() + b.len() + 5 }
pub fn ok_loop_lt(x: &[u8]) -> u32 { let mut i = 0; let mut s = 0u32; while i < x.len() { s ^= x[i] as u32; i += 1; } s }
pub fn bad_loop_le(x: &[u8]) -> u32 { let mut i = 0; let mut s = 0u32; while i <= x.len() { s ^= x[i] as u32; i += 1; } s }
pub fn ok_range_to_min(x: &[u8], n: usize) -> &[u8] { let m = n.min(x.len()); &x[..m] }
pub fn bad_range_to(x: &[u8], n: usize) -> &[u8] { &x[..n] }
pub fn ok_range_from_guard(x: &[u8], n: usize) -> &[u8] { if n > x.len() { return x; } &x[n..] }
pub fn bad_range_from_off_by_one(x: &[u8], n: usize) -> &[u8] { if n > x.len() + 1 { return x; } &x[n..] }
pub fn ok_range_pos_plus_n(x: &[u8], pos: usize, n: usize) -> &[u8] {
    if pos > x.len() { return x; }
    let left = x.len() - pos;
    let m = n.min(left);
    &x[pos..pos + m]
}
pub fn bad_range_pos_plus_n(x: &[u8], pos: usize, n: usize) -> &[u8] {
    if pos > x.len() { return x; }
    &x[pos..pos + n]
}
pub fn ok_copy_same_len(dst: &mut [u8], src: &[u8]) -> usize {
    let n = dst.len().min(src.len());
    dst[..n].copy_from_slice(&src[..n]);
    n
}
pub fn bad_copy_len_mismatch(dst: &mut [u8], src: &[u8]) -> usize {
    let n = dst.len().min(src.len());
    dst[..n].copy_from_slice(src);
    n
}
pub fn bad_clear_then_index(v: &mut Vec<u8>) -> u8 { if v.len() > 2 { v.clear(); v[0] } else { 0 } }
pub fn ok_push_then_index(v: &mut Vec<u8>) -> u8 { v.push(1); v[0] }
pub fn bad_truncate_then_index(v: &mut Vec<u8>) -> u8 { if v.len() > 4 { v.truncate(2); v[3] } else { 0 } }
pub fn ok_truncate_then_index(v: &mut Vec<u8>) -> u8 { if v.len() > 4 { v.truncate(4); v[3] } else { 0 } }
pub fn bad_unknown_mutation(v: &mut Vec<u8>, f: &dyn Fn(&mut Vec<u8>)) -> u8 { if v.len() > 2 { f(v); v[0] } else { 0 } }
pub fn ok_is_empty_guard(x: &[u8]) -> u8 { if x.is_empty() { 0 } else { x[0] } }
pub fn bad_is_empty_inverted(x: &[u8]) -> u8 { if x.is_empty() { x[0] } else { 0 } }
pub fn ok_split_at(x: &[u8]) -> (&[u8], &[u8]) { if x.len() >= 4 { x.split_at(4) } else { (x, x) } }
pub fn bad_split_at(x: &[u8]) -> (&[u8], &[u8]) { if x.len() >= 3 { x.split_at(4) } else { (x, x) } }
pub fn ok_div_guard(a: usize, b: usize) -> usize { if b == 0 { 0 } else { a / b } }
pub fn bad_div(a: usize, b: usize) -> usize { a / b }
pub fn ok_rem_index(x: &[u8; 16], i: usize) -> u8 { x[i % 16] }
pub fn bad_rem_index(x: &[u8; 16], i: usize) -> u8 { x[i % 17] }
pub fn ok_read_count<R: Read>(r: &mut R, buf: &mut [u8]) -> std::io::Result<u8> {
    let n = r.read(buf)?;
    if n == 0 { return Ok(0); }
    Ok(buf[n - 1])
}
pub fn bad_read_count<R: Read>(r: &mut R, buf: &mut [u8]) -> std::io::Result<u8> {
    let n = r.read(buf)?;
    Ok(buf[n])
}
pub struct Cur { buf: Vec<u8>, pos: usize }
impl Cur {
    pub fn bad_field_invariant(&self) -> &[u8] { &self.buf[self.pos..] }
    pub fn ok_field_guard(&self) -> &[u8] { if self.pos <= self.buf.len() { &self.buf[self.pos..] } else { &[] } }
    pub fn bad_field_guard_then_mutate(&mut self, f: &dyn Fn(&mut Cur)) -> u8 {
        if self.pos < self.buf.len() { f(self); self.buf[self.pos] } else { 0 }
    }
    pub fn bad_field_guard_then_store(&mut self, n: usize) -> u8 {
        if self.pos < self.buf.len() { self.pos = n; self.buf[self.pos] } else { 0 }
    }
    pub fn ok_field_guard_other_store(&mut self, n: usize) -> u8 {
        if self.pos < self.buf.len() { let p = self.pos; self.pos = n; self.buf[p] } else { 0 }
    }
}
pub fn bad_shift(a: u32, s: u32) -> u32 { a << s }
pub fn ok_shift_masked(a: u32, s: u32) -> u32 { a << (s & 31) }
pub fn ok_two_octet_len(o: u8, a: u8) -> usize { ((o as usize - 0) << 8) + a as usize + 192 }
pub fn bad_two_octet_len(o: u8, a: u8) -> usize { ((o as usize - 192) << 8) + a as usize + 192 }
pub fn ok_two_octet_len_guarded(o: u8, a: u8) -> usize { if o >= 192 { ((o as usize - 192) << 8) + a as usize + 192 } else { o as usize } }
pub fn ok_nested_guard(x: &[u8]) -> u16 { if x.len() >= 2 { if x[0] > 3 { return (x[1] as u16) << 8; } } 0 }
pub fn bad_reassigned_index(x: &[u8], mut i: usize) -> u8 { if i < x.len() { i += 1; x[i] } else { 0 } }
pub fn ok_match_len(x: &[u8]) -> u8 { match x.len() { 0 => 0, 1 => x[0], _ => x[1] } }
pub fn bad_match_len(x: &[u8]) -> u8 { match x.len() { 0 => 0, 1 => x[1], _ => x[1] } }
pub fn ok_last_index(x: &[u8]) -> u8 { let n = x.len(); if n == 0 { return 0; } x[n - 1] }
pub fn bad_last_index(x: &[u8]) -> u8 { let n = x.len(); x[n - 1] }
pub fn ok_ensure_eq_style(x: &[u8]) -> Result<u8, ()> { match (&x.len(), &2usize) { (l, r) => { if !(*l == *r) { return Err(()); } } } Ok(x[1]) }
pub fn bad_alias_two_slices(x: &[u8], y: &[u8]) -> u8 { if x.len() > 2 { y[2] } else { 0 } }
pub fn bad_swapped_operands(x: &[u8], i: usize) -> u8 { if x.len() < i { x[i] } else { 0 } }
pub fn ok_vec_with_len(n: u8) -> u8 { let v = vec![0u8; n as usize + 1]; v[0] }
pub fn bad_vec_with_len(n: u8) -> u8 { let v = vec![0u8; n as usize]; v[0] }
pub fn bad_wrapping(n: usize, x: &[u8]) -> u8 { let i = n.wrapping_sub(1); if n <= x.len() { x[i] } else { 0 } }
pub fn ok_chunked(x: &[u8]) -> u32 { let mut s = 0u32; let mut i = 0; while i + 4 <= x.len() { s ^= x[i + 3] as u32; i += 4; } s }
pub fn bad_chunked(x: &[u8]) -> u32 { let mut s = 0u32; let mut i = 0; while i + 3 <= x.len() { s ^= x[i + 3] as u32; i += 4; } s }

// ---- second batch: aliasing, reassignment, narrowing, signed values, mutation inside loops / closures / callees
pub fn bad_reslice(mut x: &[u8]) -> u8 { if x.len() > 2 { x = &x[2..]; x[2] } else { 0 } }
pub fn ok_reslice(mut x: &[u8]) -> u8 { if x.len() > 4 { x = &x[2..]; x[2] } else { 0 } }
pub fn bad_u16_mul(a: u16) -> u16 { a * 2 }
pub fn bad_cast_trunc_index(x: &[u8; 256], i: usize) -> u8 { if i < 300 { x[i] } else { 0 } }
pub fn ok_cast_u8_index(x: &[u8; 256], i: usize) -> u8 { x[(i as u8) as usize] }
pub fn bad_signed(i: i32, x: &[u8]) -> u8 { if i < x.len() as i32 { x[i as usize] } else { 0 } }
pub fn bad_loop_mutating_len(v: &mut Vec<u8>) -> u8 { let mut i = 0; let mut s = 0; while i < v.len() { v.pop(); s ^= v[i]; i += 1; } s }
pub fn bad_closure_mut(v: &mut Vec<u8>) -> u8 { if v.len() > 1 { let mut f = || v.clear(); f(); v[0] } else { 0 } }
pub fn bad_swap_mem(a: &mut Vec<u8>, b: &mut Vec<u8>) -> u8 { if a.len() > 3 { std::mem::swap(a, b); a[3] } else { 0 } }
pub fn bad_pop_then_index(v: &mut Vec<u8>) -> u8 { if v.len() == 1 { v.pop(); v[0] } else { 0 } }
pub fn bad_join_paths(x: &[u8], c: bool) -> u8 { let i = if c { 1 } else { 5 }; if x.len() > 3 { x[i] } else { 0 } }
pub fn ok_join_paths(x: &[u8], c: bool) -> u8 { let i = if c { 1 } else { 3 }; if x.len() > 3 { x[i] } else { 0 } }
pub fn bad_while_sub(mut n: usize) -> usize { let mut s = 0usize; while n != 1 { n -= 2; s += 1; } s }
pub fn ok_while_sub(mut n: usize) -> usize { let mut s = 0usize; while n >= 2 { n -= 2; s += 1; } s }
pub fn bad_other_object(a: &Cur, b: &Cur) -> u8 { if a.pos < a.buf.len() { b.buf[a.pos] } else { 0 } }
impl Cur {
    fn bump(&mut self) { self.pos = self.pos.wrapping_add(100); }
    pub fn bad_pos_after_method(&mut self) -> u8 { if self.pos < self.buf.len() { self.bump(); self.buf[self.pos] } else { 0 } }
    pub fn ok_pos_before_method(&mut self) -> u8 { if self.pos < self.buf.len() { let v = self.buf[self.pos]; self.bump(); v } else { 0 } }
}
pub fn bad_copy_to_shorter(dst: &mut [u8; 4], src: &[u8]) { if src.len() >= 4 { dst.copy_from_slice(src) } }
pub fn ok_copy_exact(dst: &mut [u8; 4], src: &[u8]) { if src.len() == 4 { dst.copy_from_slice(src) } }
pub fn bad_ne_guard(x: &[u8], i: usize) -> u8 { if i != x.len() { x[i] } else { 0 } }
pub fn bad_div_dividend_const(n: usize) -> usize { 8 / n }
pub fn bad_shadow_len(x: &[u8], y: &[u8]) -> u8 { let n = x.len(); let x = y; if n > 0 { x[0] } else { 0 } }
pub fn bad_guard_in_one_arm(x: &[u8], c: bool) -> u8 { if c { if x.len() < 2 { return 0; } } x[1] }
pub fn ok_guard_in_both_arms(x: &[u8], c: bool) -> u8 { if c { if x.len() < 2 { return 0; } } else if x.len() < 3 { return 1; } x[1] }
pub fn bad_index_via_ref(x: &[u8], i: &mut usize) -> u8 { if *i < x.len() { *i += 1; x[*i] } else { 0 } }
pub fn ok_index_via_ref(x: &[u8], i: &usize) -> u8 { if *i < x.len() { x[*i] } else { 0 } }
pub fn bad_extend_then_assume(v: &mut Vec<u8>, w: &[u8]) -> u8 { v.clear(); v.extend_from_slice(w); v[0] }
pub fn ok_extend_then_index(v: &mut Vec<u8>, w: &[u8]) -> u8 { if w.is_empty() { return 0; } v.clear(); v.extend_from_slice(w); v[0] }
pub fn bad_saturating(x: &[u8], n: usize) -> u8 { let i = x.len().saturating_sub(n); x[i] }
pub fn ok_saturating(x: &[u8], n: usize) -> u8 { if x.is_empty() || n == 0 { return 0; } let i = x.len().saturating_sub(n); if i < x.len() { x[i] } else { 0 } }
pub fn bad_u32_to_usize_sum(a: u32, b: u32) -> u32 { a + b }
pub fn ok_u32_widened_sum(a: u32, b: u32) -> u64 { a as u64 + b as u64 }

// ---- size accessors of the crate: pure functions of an object that is not mutated in between
pub struct Blob(Vec<u8>);
impl Blob {
    pub fn len(&self) -> usize { self.0.len() }
    pub fn as_ref(&self) -> &[u8] { &self.0 }
    pub fn grow(&mut self) { self.0.push(0); }
    pub fn shrink(&mut self) { self.0.pop(); }
}
pub fn ok_accessor_guard(b: &Blob) -> usize { if b.len() >= 8 { b.len() - 8 } else { 0 } }
pub fn bad_accessor_weak_guard(b: &Blob) -> usize { if b.len() >= 7 { b.len() - 8 } else { 0 } }
pub fn bad_accessor_mutated(b: &mut Blob) -> usize { if b.len() >= 8 { b.shrink(); b.len() - 8 } else { 0 } }
pub fn bad_accessor_other_object(a: &Blob, b: &Blob) -> usize { if a.len() >= 8 { b.len() - 8 } else { 0 } }
pub fn ok_reslice_from_pos(buf: &[u8], pos: usize) -> u8 { if pos < buf.len() { let b = &buf[pos..]; b[0] } else { 0 } }
pub fn bad_reslice_from_pos(buf: &[u8], pos: usize) -> u8 { if pos <= buf.len() { let b = &buf[pos..]; b[0] } else { 0 } }
pub fn ok_position(buf: &[u8]) -> u8 { match buf.iter().position(|c| *c == b'\n') { Some(p) => buf[p], None => 0 } }
pub fn bad_position_plus_one(buf: &[u8]) -> u8 { match buf.iter().position(|c| *c == b'\n') { Some(p) => buf[p + 1], None => 0 } }
pub fn bad_position_other(buf: &[u8], other: &[u8]) -> u8 { match buf.iter().position(|c| *c == b'\n') { Some(p) => other[p], None => 0 } }

// ---- accessor summaries: `len()` is the length of what the type's slice view returns only when both read the same field
pub struct Wrap(Vec<u8>);
impl Wrap { pub fn len(&self) -> usize { self.0.len() } }
impl AsRef<[u8]> for Wrap { fn as_ref(&self) -> &[u8] { &self.0 } }
pub fn ok_len_accessor_is_view_len(w: &Wrap) -> u8 { if w.len() == 33 { w.as_ref()[0] } else { 0 } }
pub fn bad_len_accessor_weak(w: &Wrap) -> u8 { if w.len() <= 33 { w.as_ref()[0] } else { 0 } }
pub struct Two { a: Vec<u8>, b: Vec<u8> }
impl Two { pub fn len(&self) -> usize { self.a.len() } pub fn new(a: Vec<u8>, b: Vec<u8>) -> Self { Two { a, b } } }
impl AsRef<[u8]> for Two { fn as_ref(&self) -> &[u8] { &self.b } }
pub fn bad_len_accessor_other_field(w: &Two) -> u8 { if w.len() == 33 { w.as_ref()[0] } else { 0 } }
pub struct Off(Vec<u8>);
impl Off { pub fn len(&self) -> usize { self.0.len() + 1 } }
impl AsRef<[u8]> for Off { fn as_ref(&self) -> &[u8] { &self.0 } }
pub fn bad_len_accessor_computed(w: &Off) -> u8 { if w.len() == 1 { w.as_ref()[0] } else { 0 } }
pub struct Tail(Vec<u8>);
impl Tail { pub fn len(&self) -> usize { self.0.len() } }
impl AsRef<[u8]> for Tail { fn as_ref(&self) -> &[u8] { &self.0[1..] } }
pub fn bad_len_accessor_view_is_part(w: &Tail) -> u8 { if w.len() == 1 { w.as_ref()[0] } else { 0 } }
