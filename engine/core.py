"""Engine core: CFG utilities, origin analysis, site selectors, must-pass-through (R-dom)."""
import re
from collections import deque, defaultdict
import pp

# ---------------------------------------------------------------------------------------------
# Body wrapper

class B:
    """Wrapper around a fact body with lazily computed CFG / origin info."""

    def __init__(self, rec):
        self.r = rec
        self.path = rec['path']
        self.blocks = rec['blocks']
        self.n = len(self.blocks)
        self._succ = None
        self._pred = None
        self._orig = None
        self._defs = None

    # -- CFG ------------------------------------------------------------------------------
    def succ(self, i):
        if self._succ is None:
            self._succ = [self._succ_of(j) for j in range(self.n)]
        return self._succ[i]

    def _succ_of(self, i):
        """Normal-flow successors as (target, label) pairs; unwind edges dropped."""
        blk = self.blocks[i]
        if blk['c']:
            return []
        t = blk['t']
        k = t['k']
        if k == 'goto':
            return [(t['t'], 'goto')]
        if k == 'switch':
            out = [(b, ('v', v)) for v, b in t['targets']]
            out.append((t['else'], ('else',)))
            return out
        if k in ('call', 'assert', 'drop'):
            return [(t['t'], 'ret')] if t['t'] is not None else []
        return []

    def preds(self):
        if self._pred is None:
            self._pred = [[] for _ in range(self.n)]
            for i in range(self.n):
                for (j, _) in self.succ(i):
                    self._pred[j].append(i)
        return self._pred

    def reach_from(self, starts, removed=frozenset(), removed_edges=frozenset()):
        """Blocks reachable from `starts` (inclusive), never entering `removed` blocks nor using removed (src,dst) edges."""
        seen = set()
        dq = deque(s for s in starts if s not in removed)
        seen.update(dq)
        while dq:
            i = dq.popleft()
            for (j, _) in self.succ(i):
                if j in removed or (i, j) in removed_edges or j in seen:
                    continue
                seen.add(j)
                dq.append(j)
        return seen

    def can_reach(self, targets, removed=frozenset(), removed_edges=frozenset()):
        """Blocks from which some block in `targets` is reachable (inclusive), not passing through removed."""
        seen = set(t for t in targets if t not in removed)
        dq = deque(seen)
        pr = self.preds()
        while dq:
            j = dq.popleft()
            for i in pr[j]:
                if i in removed or i in seen or (i, j) in removed_edges:
                    continue
                seen.add(i)
                dq.append(i)
        return seen

    def find_path(self, src, dst_set, removed=frozenset(), removed_edges=frozenset()):
        """Shortest block path from src to any block in dst_set, avoiding removed; None if none."""
        if src in removed:
            return None
        prev = {src: None}
        dq = deque([src])
        while dq:
            i = dq.popleft()
            if i in dst_set:
                out = []
                while i is not None:
                    out.append(i)
                    i = prev[i]
                return out[::-1]
            for (j, _) in self.succ(i):
                if j in removed or (i, j) in removed_edges or j in prev:
                    continue
                prev[j] = i
                dq.append(j)
        return None

    def dominators(self):
        """Immediate-dominator-free simple dominator sets (iterative). Returns list of sets."""
        reach = self.reach_from([0])
        order = sorted(reach)
        dom = {i: set(order) for i in order}
        dom[0] = {0}
        pr = self.preds()
        changed = True
        while changed:
            changed = False
            for i in order:
                if i == 0:
                    continue
                ps = [p for p in pr[i] if p in reach]
                if not ps:
                    continue
                new = set.intersection(*(dom[p] for p in ps)) | {i}
                if new != dom[i]:
                    dom[i] = new
                    changed = True
        return dom

    # -- sites ----------------------------------------------------------------------------
    def calls(self, pattern=None, pred=None):
        """Call terminators (block index, terminator) whose callee name matches the regex pattern.
        The regex is searched in the `fn` (generic path), `res` (resolved impl path) and `full` strings."""
        rx = re.compile(pattern) if pattern else None
        out = []
        for i, blk in enumerate(self.blocks):
            if blk['c']:
                continue
            t = blk['t']
            if t['k'] != 'call':
                continue
            f = t['f']
            if rx is not None:
                names = [f.get('fn', ''), f.get('res', ''), f.get('full', '')]
                if not any(rx.search(n) for n in names if n):
                    continue
            if pred is not None and not pred(i, t):
                continue
            out.append((i, t))
        return out

    def stmts(self, pred):
        out = []
        for i, blk in enumerate(self.blocks):
            if blk['c']:
                continue
            for k, s in enumerate(blk['s']):
                if pred(s):
                    out.append((i, k, s))
        return out

    def constructs(self, adt_rx, variant=None):
        rx = re.compile(adt_rx)
        def p(s):
            r = s['r']
            return r['k'] == 'agg' and r.get('ak') == 'adt' and rx.search(r['adt']) and (variant is None or r['v'] == variant)
        return self.stmts(p)

    def switches(self):
        out = []
        for i, blk in enumerate(self.blocks):
            if blk['c']:
                continue
            if blk['t']['k'] == 'switch':
                out.append((i, blk['t']))
        return out

    def returns(self):
        return [i for i, blk in enumerate(self.blocks) if not blk['c'] and blk['t']['k'] == 'return']

    # -- origins --------------------------------------------------------------------------
    def origins(self):
        """Flow-insensitive origin sets per local.

        Tokens:  param:<i>   field:<Adt[::Variant].field>   call:<callee fn path>   callres:<resolved path>
                 const:<v>:<ty>   len   cdef:<const path>   agg:<Adt::Variant>
        A local derives from everything the rvalues assigned to it (or to any projection of it)
        mention; a call result derives from the callee and from all arguments; a local whose `&mut`
        is passed to a call derives from that call as well (out-parameters)."""
        if self._orig is not None:
            return self._orig
        nl = len(self.r['locals'])
        base = [set() for _ in range(nl)]
        edges = [set() for _ in range(nl)]   # edges[d] = locals d derives from
        for i in range(1, self.r['nargs'] + 1):
            base[i].add('param:%d' % i)
        # closures: captured upvars are fields of _1; leave as field tokens (.N)

        # `&mut self`-like roots: &mut parameters and their pure reborrows.  Reading a *field* through such a root
        # yields the field token only (not everything that was ever written through the root): keeps the
        # flow-insensitive analysis field-sensitive for state machines with `&mut self` methods.
        mutroots = set(i for i in range(1, self.r['nargs'] + 1) if self.r['locals'][i]['ty'].startswith('&mut'))
        grew = True
        while grew:
            grew = False
            for blk in self.blocks:
                for s in blk['s']:
                    if s['d']['pr'] or s['d']['l'] in mutroots:
                        continue
                    r = s['r']
                    src = None
                    if r['k'] == 'ref' and r['m'] == 'mut' and r['p']['pr'] == ['*']:
                        src = r['p']['l']
                    elif r['k'] == 'use' and 'l' in r['o'][0] and not r['o'][0]['pr']:
                        src = r['o'][0]['l']
                    if src in mutroots and self.r['locals'][s['d']['l']]['ty'].startswith('&mut'):
                        mutroots.add(s['d']['l'])
                        grew = True
        self._mutroots = mutroots

        def place_tokens(p, acc_base, acc_edges):
            if not (p['l'] in mutroots and any(e.startswith('.') for e in p['pr'])):
                acc_edges.add(p['l'])
            for e in p['pr']:
                if e.startswith('.'):
                    acc_base.add('field:' + e[1:])
                elif e.startswith('[_'):
                    acc_edges.add(int(e[2:-1]))

        def op_tokens(o, acc_base, acc_edges):
            if 'k' in o:
                k = o['k']
                if 'v' in k:
                    acc_base.add('const:%s:%s' % (k['v'], k['ty']))
                if 'cdef' in k:
                    acc_base.add('cdef:' + k['cdef'])
                if 'prom' in k:
                    acc_base.update(self.promoted_tokens(k['prom']))
            elif 'fn' in o:
                acc_base.add('fnref:' + o['fn'])
            else:
                place_tokens(o, acc_base, acc_edges)

        refs = {}  # local -> local it is a &mut/& borrow of (single assignment heuristics)
        for bi, blk in enumerate(self.blocks):
            if blk['c']:
                continue
            for s in blk['s']:
                d = s['d']['l']
                r = s['r']
                k = r['k']
                ab, ae = base[d], edges[d]
                if d in mutroots and any(e.startswith('.') for e in s['d']['pr']):
                    # store into a field behind `&mut self`: field contents are not tracked through the root
                    ab, ae = set(), set()
                if k in ('use', 'cast', 'bin', 'un', 'repeat'):
                    for o in r['o']:
                        op_tokens(o, ab, ae)
                    if k == 'un' and r['op'] == 'PtrMetadata':
                        ab.add('len')
                    if k == 'bin':
                        ab.add('op:' + r['op'])
                elif k in ('ref', 'rawptr', 'copyderef', 'discr'):
                    place_tokens(r['p'], ab, ae)
                    if k == 'ref' and not s['d']['pr'] and not (r['p']['l'] in mutroots and any(e.startswith('.') for e in r['p']['pr'])):
                        refs.setdefault(d, set()).add(r['p']['l'])
                    if k == 'discr':
                        ab.add('discr')
                elif k == 'agg':
                    for o in r['o']:
                        op_tokens(o, ab, ae)
                    if r.get('ak') == 'adt':
                        ab.add('agg:%s::%s' % (r['adt'], r['v']))
                # a store through a deref of a reference local also taints what it points to
                if s['d']['pr'] and s['d']['pr'][0] == '*':
                    for tgt in refs.get(d, ()):  # d = &mut tgt ; (*d).x = ...
                        edges[tgt] |= ae
                        base[tgt] |= ab
            t = blk['t']
            if t['k'] == 'call':
                d = t['d']['l']
                ab, ae = base[d], edges[d]
                f = t['f']
                if 'fn' in f:
                    ab.add('call:' + f['fn'])
                    ab.add('cs:%s#%d' % (f['fn'], bi))   # call site (block index): lets a rule bind a guard to one particular call
                    if 'res' in f:
                        ab.add('callres:' + f['res'])
                    if 'selfty' in f:
                        ab.add('callty:%s@%s' % (f['fn'], f['selfty']))
                        if f['fn'].endswith(('PartialEq::eq', 'PartialEq::ne')):
                            # comparison call sites are distinguishable (to count independent checks feeding one guard)
                            ab.add('csite:%s@%s#%d' % (f['fn'], f['selfty'], bi))
                else:
                    op_tokens(f['ind'], ab, ae)
                arg_locals = []
                for a in t['args']:
                    op_tokens(a, ab, ae)
                    if 'l' in a:
                        arg_locals.append(a['l'])
                # out-parameters: any argument that is (a reborrow of) a &mut gets the call's origins
                for al in arg_locals:
                    ty = self.r['locals'][al]['ty']
                    if ty.startswith('&mut') or ty.startswith('&'):
                        for tgt in self._ref_targets(al, refs):
                            if self._is_mut_ref_chain(al):
                                edges[tgt] |= ae
                                base[tgt] |= ab
                                edges[tgt].add(d)
        self._refs = refs
        # implicit flow for boolean phi-of-constants (`matches!`, `&&`, `||` lowering): a local assigned a
        # constant bool in a block entered straight from a switch derives from that switch's operand
        pr = self.preds()
        for i, blk in enumerate(self.blocks):
            if blk['c']:
                continue
            for s in blk['s']:
                r = s['r']
                if r['k'] == 'use' and not s['d']['pr'] and 'k' in r['o'][0] and r['o'][0]['k'].get('ty') == 'bool':
                    d = s['d']['l']
                    for sw in self._controlling_switches(i, pr):
                        o = self.blocks[sw]['t']['o']
                        op_tokens(o, base[d], edges[d])
        # fixpoint (transitive closure over edges)
        orig = [set(b) for b in base]
        changed = True
        while changed:
            changed = False
            for d in range(nl):
                for s in list(edges[d]):
                    if s == d:
                        continue
                    before = len(orig[d])
                    orig[d] |= orig[s]
                    if len(orig[d]) != before:
                        changed = True
        self._orig = orig
        return orig

    def _controlling_switches(self, i, pr):
        """Switch blocks that reach block i through goto-only chains."""
        out = set()
        seen = set()
        st = [i]
        while st:
            x = st.pop()
            if x in seen:
                continue
            seen.add(x)
            for p_ in pr[x]:
                k = self.blocks[p_]['t']['k']
                if k == 'switch':
                    out.add(p_)
                elif k == 'goto' and not self.blocks[p_]['s']:
                    st.append(p_)
        return out

    def _ref_targets(self, l, refs, depth=0):
        out = set()
        seen = set()
        st = [l]
        while st:
            x = st.pop()
            if x in seen:
                continue
            seen.add(x)
            for y in refs.get(x, ()):
                out.add(y)
                st.append(y)
        return out

    def _is_mut_ref_chain(self, l):
        return self.r['locals'][l]['ty'].startswith('&mut')

    def promoted_tokens(self, idx):
        """Base tokens (constants, aggregates) of a promoted constant body."""
        out = set()
        proms = self.r.get('promoted') or []
        if idx >= len(proms):
            return out
        for blk in proms[idx]:
            for s in blk['s']:
                r = s['r']
                if r['k'] == 'agg' and r.get('ak') == 'adt':
                    out.add('agg:%s::%s' % (r['adt'], r['v']))
                for o in r.get('o', ()):
                    if 'k' in o and 'v' in o['k']:
                        out.add('const:%s:%s' % (o['k']['v'], o['k']['ty']))
        return out

    def operand_origins(self, o):
        """Origins of an operand (place or constant)."""
        orig = self.origins()
        out = set()
        if 'k' in o:
            k = o['k']
            if 'v' in k:
                out.add('const:%s:%s' % (k['v'], k['ty']))
            if 'cdef' in k:
                out.add('cdef:' + k['cdef'])
            if 'prom' in k:
                out |= self.promoted_tokens(k['prom'])
        elif 'fn' in o:
            out.add('fnref:' + o['fn'])
        else:
            if not (o['l'] in self._mutroots and any(e.startswith('.') for e in o['pr'])):
                out |= orig[o['l']]
            for e in o['pr']:
                if e.startswith('.'):
                    out.add('field:' + e[1:])
                elif e.startswith('[_'):
                    out |= orig[int(e[2:-1])]
        return out

    def switch_origins(self, i):
        t = self.blocks[i]['t']
        assert t['k'] == 'switch'
        return self.operand_origins(t['o'])

    def line(self, i):
        return self.blocks[i]['t']['ln']

    def loc(self, i=None):
        if i is None:
            return '%s:%d' % (self.r['file'], self.r['lo'])
        return '%s:%d' % (self.r['file'], self.line(i))


# ---------------------------------------------------------------------------------------------
# token matching

def has_origin(origs, spec):
    """spec: a regex string matched (search) against each token."""
    rx = re.compile(spec)
    return any(rx.search(t) for t in origs)


def guard_switches(b, sink_blocks, require, within=None, removed_edges=frozenset()):
    """Switch blocks that act as guards for the sink: their discriminant derives from *all* origin specs in
    `require` (list of regexes) and at least one successor cannot reach any sink block.
    Returns list of (block, rejecting successor list)."""
    can = b.can_reach(set(sink_blocks), removed_edges=removed_edges)
    out = []
    for i, t in b.switches():
        if within is not None and i not in within:
            continue
        if i not in can:
            continue
        succs = [j for (j, _) in b.succ(i)]
        rej = [j for j in succs if j not in can]
        if not rej:
            # loop-aware: an edge that can reach the sink only by coming back through this very branch
            can_i = b.can_reach(set(sink_blocks), removed=frozenset([i]), removed_edges=removed_edges)
            rej = [j for j in succs if j not in can_i]
        if not rej:
            continue
        # ignore `unreachable` arms as rejecting edges
        rej = [j for j in rej if b.blocks[j]['t']['k'] != 'unreachable' or b.blocks[j]['s']]
        if not rej:
            continue
        og = b.switch_origins(i)
        if all(has_origin(og, spec) for spec in require):
            out.append((i, rej))
    return out


def must_pass(b, sink_blocks, guard_blocks, start=0):
    """True iff every path start->sink passes through a guard block. Returns (ok, witness_path)."""
    p = b.find_path(start, set(sink_blocks), removed=frozenset(guard_blocks))
    return (p is None), p


def fmt_path(b, p):
    if p is None:
        return None
    return ' -> '.join('bb%d(L%d)' % (i, b.line(i)) for i in p)
