"""R-len: announced length (write_len) vs bytes written (to_writer) as guarded multisets of symbolic terms, from MIR.

Terms
  ('const', n)        n fixed octets (write_u8/u16/u32/u64, write_all of a fixed-size array; integer constants added to the sum)
  ('wl', T)           bytes written by <T as Serialize>::to_writer / announced by <T as Serialize>::write_len
  ('wlh', T)          ... with packet header (to_writer_with_header / write_len_with_header)
  ('len', F)          length of a byte container reached through fields F (write_all(x) / x.len())
  ('sum', ...)        a term inside a loop over a collection
  ('unk', what)       anything else that flows into the announced length / is written  -> never equal to the other side

Guards: the variant arm of `self` (outermost enum match on self), the signature of the non-error boolean conditions that
control the block, and whether the site is inside a loop.  Crate-local helpers whose name mentions to_writer / write_len are
inlined (depth 3).  A pair whose writer stages bytes in a local buffer is reported `unanalysed`, never as passing."""
import re
from collections import Counter
import core
from rules.common import arm_context, enum_switch_info, edge_variants, single_defs, resolve_value

FIXED = {'write_u8': 1, 'write_i8': 1, 'write_u16': 2, 'write_u32': 4, 'write_u64': 8, 'write_u128': 16}
LEN_FNS = re.compile(r'(Vec::<.*>|Vec::<T, A>|slice::<impl \[T\]>|\[T\]|Bytes|BytesMut|String|str::<impl str>|str|VecDeque<.*>)::len$|Buf::remaining$|ExactSizeIterator::len$')


def short_ty(t):
    """Type key for wl()/wlh() symbols: full def path without references and generic arguments."""
    t = re.sub(r"&('?\w+ )?(mut )?", '', t or '')
    t = re.sub(r'<.*>', '', t)
    return t.strip()


def elem_ty(t):
    """If t is Vec<X> / [X] / SmallVec<[X; N]> return X (short) else None."""
    t = re.sub(r"&('?\w+ )?(mut )?", '', t or '').strip()
    m = re.match(r'(?:std::vec::Vec|alloc::vec::Vec|Vec)<(.+)>$', t) or re.match(r'\[(.+?)(?:; \d+)?\]$', t) or re.match(r'smallvec::SmallVec<\[(.+); \d+\]>$', t)
    if m:
        return short_ty(m.group(1).split(',')[0])
    return None


def wl_term(kind, selfty, g):
    """('wl', Vec<X>) is the sum over elements of ('wl', X): normalise to an in-loop term."""
    e = elem_ty(selfty)
    if e is not None:
        return (g[0], g[1], True), (kind, e)
    return g, (kind, short_ty(selfty))


class Side:
    def __init__(self):
        self.terms = []      # (guard, term)
        self.unanalysed = [] # reasons

    def add(self, guard, term):
        self.terms.append((guard, term))


def self_rooted(b, place, defs):
    l = place['l']
    for _ in range(4):
        if l == 1:
            return True
        d = defs.get(l)
        if d is None or d[1].get('k') == 'call':
            return False
        r = d[1]['r']
        if r['k'] in ('use', 'copyderef', 'ref') :
            src = r['o'][0] if r['k'] == 'use' else r['p']
            if 'l' not in src:
                return False
            l = src['l']
            continue
        return False
    return False


def loop_blocks(b):
    """Blocks that are inside some cycle of the CFG."""
    out = set()
    for i in range(b.n):
        if b.blocks[i]['c']:
            continue
        succs = [j for j, _ in b.succ(i)]
        reach = b.reach_from(succs)
        if i in reach:
            out.add(i)
    return out


def guard_of(b, i, dom, defs, loops):
    """(self arm, condition signature, in-loop)"""
    arm = ()
    conds = []
    if i in dom:
        for j in sorted(dom[i]):
            if j == i:
                continue
            t = b.blocks[j]['t']
            if t['k'] != 'switch':
                continue
            info = enum_switch_info(b, j)
            succs = sorted(set(x for x, _ in b.succ(j)))
            through = [x for x in succs if x == i or i in b.reach_from([x], removed=frozenset([j]))]
            if not through or len(through) == len(succs):
                continue
            if info is not None:
                vs = []
                for x in through:
                    for v in edge_variants(b, j, x) or []:
                        if v not in vs:
                            vs.append(v)
                adt = info[0].split('::')[-1]
                if adt in ('ControlFlow', 'Result'):
                    continue
                if self_rooted(b, info[2], defs) and not info[2]['pr'][1:] and not arm:
                    arm = tuple(sorted(vs))
                elif adt == 'Option' and j in loops:
                    continue  # iterator protocol
                else:
                    conds.append('%s=%s' % (adt, '|'.join(sorted(vs))))
            else:
                og = b.switch_origins(j)
                if any(x == 'call:std::ops::Try::branch' for x in og):
                    continue
                if j in loops and any(x.endswith('Iterator::next') for x in og):
                    continue
                sig = sorted(x for x in og if x.startswith(('field:', 'agg:', 'const:')) and not x.startswith('const:0:bool') and not x.startswith('const:1:bool'))
                # which edge? value of the switch target
                val = None
                for v, bb in t['targets']:
                    if bb in through:
                        val = v
                if val is None:
                    val = 'else'
                conds.append('if[%s]=%s' % (','.join(s.split(':', 1)[1] for s in sig)[:120], val))
    return (arm, tuple(conds), i in loops)


SKIPCALL = re.compile(r'(Deref::deref|AsRef::as_ref|Try::branch|Borrow::borrow|as_bytes|as_slice|as_ref|Index::index|clone::Clone::clone|convert::Into::into|convert::From::from|to_vec|to_owned)$')


def field_sig(b, o, subst=None):
    og = b.operand_origins(o)
    fs = set(x[6:] for x in og if x.startswith('field:') and not x.startswith('field:ControlFlow') and not x.startswith('field:Option::Some') and not re.match(r'field:\d+$', x))
    if subst:
        for x in og:
            if x.startswith('param:') and int(x[6:]) in subst:
                fs |= set(subst[int(x[6:])])
    if not fs:
        # a computed value: identify it by the (non-adaptor) calls it comes from
        fs = set('c:' + '::'.join(x[5:].split('::')[-2:]) for x in og if x.startswith('call:') and not SKIPCALL.search(x))
    return tuple(sorted(fs))


def array_len_of(b, o, defs=None, depth=0):
    """If the operand is (a reference to) a fixed-size u8 array, its length (following unsizing casts / reborrows)."""
    if 'k' in o:
        ty = o['k'].get('ty', '')
    elif 'l' in o:
        ty = b.r['locals'][o['l']]['ty']
    else:
        return None
    m = re.match(r"&(?:'\w+ )?(?:mut )?\[u8; (\d+)\]$", ty) or re.match(r"\[u8; (\d+)\]$", ty)
    if m:
        return int(m.group(1))
    if defs is not None and 'l' in o and not o['pr'] and depth < 5:
        d = defs.get(o['l'])
        if d is not None and d[1].get('k') == 'call':
            t = d[1]
            # `&array[..]`: full-range index of a fixed-size array
            if t['f'].get('fn', '').endswith('ops::Index::index') and len(t['args']) == 2:
                ity = b.r['locals'][t['args'][1]['l']]['ty'] if 'l' in t['args'][1] else t['args'][1].get('k', {}).get('ty', '')
                m2 = re.match(r'\[u8; (\d+)\]$', t['f'].get('selfty', ''))
                if m2 and ity.endswith('ops::RangeFull'):
                    return int(m2.group(1))
            return None
        if d is not None and d[1].get('k') != 'call':
            r = d[1]['r']
            if r['k'] in ('cast', 'use') and 'l' in r['o'][0]:
                return array_len_of(b, r['o'][0], defs, depth + 1)
            if r['k'] == 'ref' and (not r['p']['pr'] or r['p']['pr'] == ['*']):
                return array_len_of(b, dict(l=r['p']['l'], pr=[]), defs, depth + 1)
    return None


def _args_subst(b, t, subst):
    """field signatures of the arguments of a call (1-based parameter index of the callee)."""
    out = {}
    for k, a in enumerate(t['args']):
        fs = field_sig(b, a, subst)
        fs = tuple(x for x in fs if not x.startswith('c:'))
        if fs:
            out[k + 1] = fs
    return out


def root_local(b, o, defs):
    """Local at the root of a chain of borrows / reborrows / deref adaptors."""
    cur = o
    for _ in range(8):
        if 'l' not in cur:
            return None
        d = defs.get(cur['l'])
        if d is None:
            return cur['l']
        x = d[1]
        if x.get('k') == 'call':
            if re.search(r'(Deref::deref|DerefMut::deref_mut|AsRef::as_ref|AsMut::as_mut|as_slice|as_mut_slice|Borrow::borrow|BorrowMut::borrow_mut|by_ref)$', x['f'].get('fn', '')) and x['args']:
                cur = x['args'][0]
                continue
            return cur['l']
        r = x['r']
        if r['k'] in ('ref', 'copyderef', 'rawptr'):
            if any(e.startswith('.') for e in r['p']['pr']):
                return r['p']['l']
            cur = dict(l=r['p']['l'], pr=[])
            continue
        if r['k'] in ('use', 'cast') and 'l' in r['o'][0]:
            cur = r['o'][0]
            continue
        return cur['l']
    return cur.get('l')


def analyse_writer(f, b, depth=0, seen=None, subst=None):
    side = Side()
    seen = seen or set()
    dom = b.dominators()
    defs = single_defs(b)
    loops = loop_blocks(b)
    # staging buffers: local (non-parameter) values used as the writer of write calls; writing such a buffer out later with
    # write_all() emits exactly the staged bytes, which are already accounted for term by term
    staged = set()
    for i, t in b.calls(r'WriteBytesExt::write_|io::Write::write_all$|ser::Serialize::to_writer$|to_writer'):
        fn = t['f'].get('fn', '')
        widx = 0 if ('WriteBytesExt' in fn or fn.endswith('io::Write::write_all')) else 1
        if len(t['args']) > widx:
            rl = root_local(b, t['args'][widx], defs)
            if rl is not None and rl > b.r['nargs'] and re.match(r'std::vec::Vec<u8>|bytes::BytesMut', b.r['locals'][rl]['ty']):
                staged.add(rl)
    for i, t in b.calls():
        fn = t['f'].get('fn', '')
        last = fn.split('::')[-1]
        if t.get('mac') and any(m in ('debug', 'warn', 'trace', 'info', 'log', '$crate::log', 'debug_assert', 'debug_assert_eq') for m in t['mac']):
            continue
        if fn.endswith('WriteBytesExt::' + last) and last in FIXED:
            side.add(guard_of(b, i, dom, defs, loops), ('const', FIXED[last]))
        elif fn.endswith('io::Write::write_all'):
            a = t['args'][1]
            if root_local(b, a, defs) in staged:
                continue
            n = array_len_of(b, a, defs)
            if n is not None:
                side.add(guard_of(b, i, dom, defs, loops), ('const', n))
            else:
                fs = field_sig(b, a, subst)
                if not fs:
                    side.unanalysed.append('write_all of an unidentified buffer at L%d' % b.line(i))
                    side.add(guard_of(b, i, dom, defs, loops), ('unk', 'write_all(?)'))
                else:
                    side.add(guard_of(b, i, dom, defs, loops), ('len', fs))
        elif fn.endswith('ser::Serialize::to_writer'):
            g, term = wl_term('wl', t['f'].get('selfty', '?'), guard_of(b, i, dom, defs, loops))
            side.add(g, term)
        elif fn.endswith('PacketTrait::to_writer_with_header'):
            g, term = wl_term('wlh', t['f'].get('selfty', '?'), guard_of(b, i, dom, defs, loops))
            side.add(g, term)
        elif re.search(r'to_writer|write_header|to_bytes', last) and f.body(fn) is not None and depth < 3 and fn not in seen:
            sub = analyse_writer(f, core.B(f.body(fn)), depth + 1, seen | {fn}, _args_subst(b, t, subst))
            g0 = guard_of(b, i, dom, defs, loops)
            for g, term in sub.terms:
                side.add((g0[0] or g[0], g0[1] + g[1], g0[2] or g[2]), term)
            side.unanalysed += sub.unanalysed
        elif re.search(r'to_writer|write_header', last):
            side.add(guard_of(b, i, dom, defs, loops), ('unk', 'call ' + '::'.join(fn.split('::')[-2:])))
    return side


def flows_to_return(b):
    """Locals that `_0` transitively derives from (def-use backward closure)."""
    edges = {}
    for blk in b.blocks:
        if blk['c']:
            continue
        for s in blk['s']:
            d = s['d']['l']
            r = s['r']
            srcs = [o['l'] for o in r.get('o', ()) if 'l' in o]
            if 'p' in r:
                srcs.append(r['p']['l'])
            edges.setdefault(d, set()).update(srcs)
        t = blk['t']
        if t['k'] == 'call':
            edges.setdefault(t['d']['l'], set()).update(a['l'] for a in t['args'] if 'l' in a)
    seen = {0}
    st = [0]
    while st:
        x = st.pop()
        for y in edges.get(x, ()):
            if y not in seen:
                seen.add(y)
                st.append(y)
    return seen


INTS = ('usize', 'u32', 'u64', 'u16', 'u8')
ADAPT = re.compile(r'(Deref::deref|AsRef::as_ref|convert::Into::into|convert::From::from|TryInto::try_into|TryFrom::try_from|Result::<.*>::(expect|unwrap|unwrap_or|unwrap_or_default)|'
                   r'Option::<.*>::(expect|unwrap|unwrap_or|unwrap_or_default|map)|IntoIterator::into_iter|Iterator::next|Try::branch|clone::Clone::clone|cmp::Ord::(min|max)|'
                   r'count_ones|trailing_zeros|leading_zeros)$')


def analyse_len(f, b, depth=0, seen=None, subst=None):
    side = Side()
    seen = seen or set()
    dom = b.dominators()
    defs = single_defs(b)
    loops = loop_blocks(b)
    flow = flows_to_return(b)
    for i, blk in enumerate(b.blocks):
        if blk['c']:
            continue
        for s in blk['s']:
            d = s['d']['l']
            if d not in flow or s['d']['pr']:
                continue
            r = s['r']
            if r['k'] == 'use' and 'k' in r['o'][0] and 'v' in r['o'][0]['k'] and r['o'][0]['k']['ty'] in INTS:
                if r['o'][0]['k']['v'] != 0:
                    side.add(guard_of(b, i, dom, defs, loops), ('const', r['o'][0]['k']['v']))
            elif r['k'] == 'bin' and r['op'] in ('Add', 'AddWithOverflow', 'AddUnchecked'):
                for o in r['o']:
                    if 'k' in o and 'v' in o['k'] and o['k']['v'] != 0:
                        side.add(guard_of(b, i, dom, defs, loops), ('const', o['k']['v']))
            elif r['k'] == 'bin' and r['op'] in ('Mul', 'MulWithOverflow', 'Sub', 'SubWithOverflow', 'Div', 'Shl', 'Shr', 'BitAnd', 'Rem'):
                side.add(guard_of(b, i, dom, defs, loops), ('unk', 'arith ' + r['op']))
        t = blk['t']
        if t['k'] != 'call' or t['d']['l'] not in flow:
            continue
        fn = t['f'].get('fn', '')
        last = fn.split('::')[-1]
        g = guard_of(b, i, dom, defs, loops)
        rty = t.get('rty', '')
        if fn.endswith('ser::Serialize::write_len'):
            g2, term = wl_term('wl', t['f'].get('selfty', '?'), g)
            side.add(g2, term)
        elif fn.endswith('PacketTrait::write_len_with_header'):
            g2, term = wl_term('wlh', t['f'].get('selfty', '?'), g)
            side.add(g2, term)
        elif LEN_FNS.search(fn) or (last == 'len' and rty == 'usize'):
            n = array_len_of(b, t['args'][0], defs)
            fs = field_sig(b, t['args'][0], subst)
            if n is not None:
                side.add(g, ('const', n))
            else:
                side.add(g, ('len', fs) if fs else ('unk', 'len of unidentified value'))
        elif re.search(r'write_len|header_len|writer_len', last) and f.body(fn) is not None and depth < 3 and fn not in seen:
            sub = analyse_len(f, core.B(f.body(fn)), depth + 1, seen | {fn}, _args_subst(b, t, subst))
            for g2, term in sub.terms:
                side.add((g[0] or g2[0], g[1] + g2[1], g[2] or g2[2]), term)
            side.unanalysed += sub.unanalysed
        elif fn.endswith(('AddAssign::add_assign', 'ops::Add::add')):
            for a in t['args']:
                if 'k' in a and 'v' in a['k'] and a['k']['v'] != 0:
                    side.add(g, ('const', a['k']['v']))
        elif ADAPT.search(fn):
            continue
        elif re.search(r'Iterator::map$', fn):
            continue  # the closure is accounted for at the consuming sum()/fold()
        elif re.search(r'Iterator::(sum|fold)$', fn):
            for c in f.closures_of(b.path):
                sub = analyse_len(f, core.B(c), depth + 1, seen, subst)
                for g2, term in sub.terms:
                    side.add((g[0], g[1] + g2[1], True), term)
        elif rty not in INTS:
            continue  # accessor returning a non-integer: what is done with it (len / write_len) is examined at that call
        elif fn.endswith('PacketLength::fixed_encoding_len'):
            # length of a new-format length field: a symbol of its own — the writer side only produces it through
            # to_writer_with_header (= wlh), so `fixed_encoding_len(n) + n` can never equal what is written (no tag octet)
            side.add(g, ('fixed_encoding_len', field_sig(b, t['args'][0], subst)))
        elif fn.endswith('Iterator::count'):
            # e.g. `s.chars().count()`: a character count is not a byte length
            side.add(g, ('count', field_sig(b, t['args'][0], subst)))
        else:
            side.add(g, ('unk', 'call ' + '::'.join(fn.split('::')[-2:])))
    return side


def normalise(side, const_types, adts):
    """Apply the checked length axioms: ('wl', T) with T a constant-size type -> ('const', N); ('len', (Adt.field,)) with a
    fixed-size array field -> ('const', N)."""
    out = []
    for g, term in side.terms:
        if term[0] == 'wl' and term[1] in const_types:
            term = ('const', const_types[term[1]])
        elif term[0] == 'len' and len(term[1]) >= 1:
            ns = set()
            for fsig in term[1]:
                n = adts.get(fsig)
                if n is not None:
                    ns.add(n)
            # the innermost fixed-size array on the access path determines the length; the other tokens are the
            # containers it was reached through
            if len(ns) == 1:
                term = ('const', ns.pop())
        out.append((g, term))
    side.terms = out


def array_fields(f):
    """{'Adt.field' or 'Adt::Variant.field': N} for fields of type [u8; N] / Box<[u8; N]>."""
    out = {}
    for path, a in f.adts.items():
        nm = path.split('::')[-1]
        for v in a['vars']:
            for fd in v['fields']:
                m = re.match(r'(?:std::boxed::Box<)?\[u8; (\d+)\]>?$', fd['ty'])
                n = int(m.group(1)) if m else None
                if n is None:
                    # newtype over a fixed-size array (e.g. KeyId([u8; 8]))
                    inner = f.adts.get(fd['ty'])
                    if inner and inner['kind'] == 'Struct' and len(inner['vars']) == 1 and len(inner['vars'][0]['fields']) == 1:
                        m2 = re.match(r'\[u8; (\d+)\]$', inner['vars'][0]['fields'][0]['ty'])
                        if m2:
                            n = int(m2.group(1))
                if n is not None:
                    key = ('%s::%s.%s' % (nm, v['n'], fd['n'])) if a['kind'] == 'Enum' else ('%s.%s' % (nm, fd['n']))
                    out[key] = n
    return out


def compare(w, l):
    """Compare the two sides variant by variant.
    Returns (definite mismatches, undecided) — a difference that involves value-dependent (conditional) terms is undecided."""
    def bool_conds(side):
        return set(c for (arm, conds, inloop), term in side.terms for c in conds if c.startswith('if['))
    shared = bool_conds(w) & bool_conds(l)

    def items_of(side):
        out = []
        for (arm, conds, inloop), term in side.terms:
            # enum-variant conditions (`Adt=Variant`) are structural guards that both sides spell the same way; a boolean
            # condition is structural too when the very same test (same operands' origins, same edge) occurs on both
            # sides (`if version == V6` in to_writer and in write_len); other boolean conditions are value-dependent
            econds = frozenset(c for c in conds if not c.startswith('if[') or c in shared)
            bconds = [c for c in conds if c.startswith('if[') and c not in shared]
            for v in (arm or ('',)):
                out.append((v, econds, len(bconds) > 0, inloop, term))
        return out
    iw, il = items_of(w), items_of(l)
    keys = set((v, e) for v, e, _, _, _ in iw + il) or {('', frozenset())}

    def covers(k_gen, k_spec):
        return (k_gen[0] in ('', k_spec[0])) and k_gen[1] <= k_spec[1]
    leaf = [k for k in keys if not any(k != k2 and covers(k, k2) for k2 in keys)]
    # both branches of a shared boolean guard are real: if only one edge of `if[X]` carries terms, the other branch is the
    # key without that condition (covered by the unconditional terms only)
    extra = []
    for k in leaf:
        for c in k[1]:
            if not c.startswith('if['):
                continue
            test = c.rsplit('=', 1)[0]
            if not any(c2 != c and c2.rsplit('=', 1)[0] == test for kk in keys for c2 in kk[1]):
                k2 = (k[0], frozenset(x for x in k[1] if x != c))
                if k2 not in leaf and k2 not in extra:
                    extra.append(k2)
    leaf = leaf + extra
    definite, undecided = [], []
    for key in sorted(leaf, key=lambda k: (k[0], sorted(k[1]))):
        a = [(cnd, lp, t) for v, e, cnd, lp, t in iw if covers((v, e), key)]
        c = [(cnd, lp, t) for v, e, cnd, lp, t in il if covers((v, e), key)]
        arm = (key[0] or '*') + (('[' + ','.join(sorted(key[1])) + ']') if key[1] else '')
        if any(t[0] == 'unk' for _, _, t in a + c):
            # this arm contains a term the analysis cannot express: the arm is unanalysed, the other arms are still compared
            undecided.append(dict(arm=arm, kind='unanalysed arm', writer=[str(t) for _, _, t in a if t[0] == 'unk'], announced=[str(t) for _, _, t in c if t[0] == 'unk']))
            continue

        def split(items):
            cu = sum(t[1] for cond, lp, t in items if t[0] == 'const' and not cond and not lp)
            cc = sum(t[1] for cond, lp, t in items if t[0] == 'const' and (cond or lp))
            terms = Counter((lp, t) for cond, lp, t in items if t[0] != 'const')
            condterms = Counter((lp, t) for cond, lp, t in items if t[0] != 'const' and cond)
            return cu, cc, terms, condterms
        wu, wc, wt, wct = split(a)
        lu, lc, lt, lct = split(c)
        left_w, left_l = wt - lt, lt - wt
        if left_w or left_l:
            allcond = all(k in wct for k in left_w) and all(k in lct for k in left_l)
            d = dict(arm=arm or '*', kind='terms', writer=sorted(map(str, left_w.elements())), announced=sorted(map(str, left_l.elements())))
            (undecided if allcond and (left_w or left_l) else definite).append(d)
        if wu + wc != lu + lc or (wu != lu and wc == 0 and lc == 0):
            d = dict(arm=arm or '*', kind='fixed octets', writer=dict(unconditional=wu, conditional=wc), announced=dict(unconditional=lu, conditional=lc))
            if wc == 0 and lc == 0:
                definite.append(d)
            else:
                # conditional constants are upper bounds: only a lower bound above the other side's upper bound is definite
                if wu > lu + lc or lu > wu + wc:
                    definite.append(d)
                else:
                    undecided.append(d)
    return definite, undecided


def has_unknown(side):
    return [term for g, term in side.terms if term[0] == 'unk']
