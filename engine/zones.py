"""Zone (difference-bound) abstract interpretation of one MIR body: for every block the set of constraints  t1 - t2 <= c
between integer terms that hold on EVERY path reaching it.  Used by R-panic to *prove* a panic-capable site safe (index below
length, subtraction does not wrap, divisor non-zero ...) instead of listing it as reviewed.

Terms:   Z                      the constant 0
         ('L', n)               integer local _n (for a checked-arithmetic pair `(uN, bool)`: its `.0` component)
         ('P', root, proj)      an integer stored in a place (field of self, `Ok.0` of a call result, field of a range aggregate)
         ('len', root, proj)    number of elements of the slice / Vec / Bytes / str denoted by a place

Forward dataflow with join = intersection keeping the weaker bound, widening after a block was joined WIDEN times, incremental
closure on every added constraint, infeasible states dropped (so a site behind a contradictory path condition is unreachable).
Nothing is executed; every transfer function is an axiom about a MIR statement or about a named std / bytes function.
Sound for the claim "the assert / precondition cannot fail" up to the axioms in CALL_AXIOMS (reviewed, listed in DESIGN.md)."""
import re

INT_BITS = {'u8': 8, 'u16': 16, 'u32': 32, 'u64': 64, 'usize': 64, 'u128': 128}
SINT_BITS = {'i8': 8, 'i16': 16, 'i32': 32, 'i64': 64, 'isize': 64, 'i128': 128}
PAIR = re.compile(r'^\((u8|u16|u32|u64|usize|u128|i8|i16|i32|i64|isize|i128), bool\)$')
ARRAY_TY = re.compile(r"^(?:&(?:'\w+ )?(?:mut )?)*\[[^;\]]+; (\d+)\]$")
SLICE_REF_TY = re.compile(r"^&(?:'\w+ )?(?:mut )?(\[[^;\]]+\]|str)$")
Z = 'Z'
LEN_MAX = 2 ** 63 - 1
WIDEN = 3

ADAPTERS = re.compile(r'(ops::Deref::deref|ops::DerefMut::deref_mut|AsRef::as_ref|AsMut::as_mut|::as_slice|::as_bytes|::as_mut_slice|Borrow::borrow|BorrowMut::borrow_mut|::as_ref|::as_mut|::as_str|'
                      r'::into_boxed_slice|::chunk|::as_mut_bytes)$')
SEQ_LEN = re.compile(r'(slice::<impl \[T\]>::len|\[T\]::len|Vec::<.*>::len|Vec<.*>::len|bytes::Bytes::len|bytes::BytesMut::len|BytesMut::len|Bytes::len|str::len|<impl str>::len|String::len|'
                     r'bytes::Buf::remaining|Buf::remaining|VecDeque::<.*>::len|SmallVec::<.*>::len|GenericArray::<.*>::len|ExactSizeIterator::len)$')
SEQ_EMPTY = re.compile(r'(slice::<impl \[T\]>::is_empty|\[T\]::is_empty|Vec::<.*>::is_empty|Bytes::is_empty|BytesMut::is_empty|str::is_empty|<impl str>::is_empty|String::is_empty|VecDeque::<.*>::is_empty)$')
PURE_SIZE = re.compile(r'::(len|size|key_size|block_size|nonce_size|tag_size|iv_size|digest_size|write_len|write_len_with_header|limit|bit_len|secret_key_length|salt_len|as_byte_size|'
                       r'fingerprint_len|param_len|buf_len|out_buffer_remaining)$')
HAS_REM = re.compile(r'Buf::has_remaining$')


def strip_refs(ty):
    ty = (ty or '').strip()
    while True:
        m = re.match(r"^&(?:'\w+ )?(?:mut )?", ty)
        if m and m.end() > 0:
            ty = ty[m.end():]
            continue
        if ty.startswith('std::boxed::Box<') and ty.endswith('>'):
            ty = ty[len('std::boxed::Box<'):-1]
            continue
        return ty


def split_top(s):
    out, depth, cur = [], 0, ''
    for ch in s:
        if ch in '<([':
            depth += 1
        elif ch in '>)]':
            depth -= 1
        if ch == ',' and depth == 0:
            out.append(cur.strip()); cur = ''
        else:
            cur += ch
    if cur.strip():
        out.append(cur.strip())
    return out


def split_generic(ty):
    i = ty.find('<')
    if i < 0 or not ty.endswith('>'):
        return ty, []
    return ty[:i], split_top(ty[i + 1:-1])


def field_table(f):
    """'<Struct>.<field>' / '<Enum>::<Variant>.<field>' (short names, as they appear in MIR projections) -> type string; names that
    are ambiguous between ADTs with different field types are dropped."""
    tab, bad = {}, set()
    for path, a in f.adts.items():
        short = path.split('::')[-1]
        for v in a['vars']:
            q = short if a['kind'] in ('Struct', 'Union') else '%s::%s' % (short, v['n'])
            for fld in v['fields']:
                k = '%s.%s' % (q, fld['n'])
                if k in tab and tab[k] != fld['ty']:
                    bad.add(k)
                tab[k] = fld['ty']
    for k in bad:
        del tab[k]
    # accessor summaries: a `len(&self)` of a crate type that returns the length of the very field its slice views
    # (`as_ref` / `deref` / `as_slice` / `as_bytes`) return - then `x.len()` IS the length of `x.as_ref()` ('#len-of-view:<fn>')
    def ret_field(r, want_len):
        """Field path of self whose length (want_len) / whose view (not want_len) the one-call body returns, or None."""
        if r.get('nargs') != 1 or r.get('kind') == 'Closure':
            return None
        blocks = [blk for blk in r['blocks'] if not blk['c']]
        calls = [blk['t'] for blk in blocks if blk['t']['k'] == 'call']
        if any(blk['t']['k'] not in ('call', 'return', 'goto') for blk in blocks) or len(calls) > 1:
            return None
        defs = {}
        for blk in blocks:
            for st in blk['s']:
                if st['d']['pr'] or st['d']['l'] in defs:
                    return None
                defs[st['d']['l']] = st['r']
        def root(o):
            l, pr = o['l'], [e for e in o['pr'] if e != '*']
            for _ in range(6):
                if l == 1:
                    return tuple(pr)
                rr = defs.get(l)
                if rr is None:
                    if calls and not calls[0]['d']['pr'] and calls[0]['d']['l'] == l and not want_len and ADAPTERS.search(calls[0]['f'].get('fn', '') or '') and calls[0]['args'] and 'l' in calls[0]['args'][0]:
                        q = calls[0]['args'][0]
                        l, pr = q['l'], [e for e in q['pr'] if e != '*'] + pr
                        continue
                    return None
                if rr['k'] in ('ref', 'copyderef'):
                    q = rr['p']
                elif rr['k'] == 'use' and 'l' in rr['o'][0]:
                    q = rr['o'][0]
                else:
                    return None
                l, pr = q['l'], [e for e in q['pr'] if e != '*'] + pr
            return None
        if want_len:
            if len(calls) != 1 or calls[0]['d']['pr'] or calls[0]['d']['l'] != 0 or not SEQ_LEN.search(calls[0]['f'].get('fn', '') or '') or not calls[0]['args'] or 'l' not in calls[0]['args'][0]:
                return None
            return root(calls[0]['args'][0])
        if 0 in defs:
            rr = defs[0]
            if rr['k'] in ('ref', 'copyderef'):
                return root(rr['p'])
            if rr['k'] == 'use' and 'l' in rr['o'][0]:
                return root(rr['o'][0])
            return None
        if calls and not calls[0]['d']['pr'] and calls[0]['d']['l'] == 0:
            return root(dict(l=0, pr=[]))
        return None
    views = {}
    for path, r in f.bodies.items():
        if r.get('name') in ('as_ref', 'deref', 'as_slice', 'as_bytes', 'borrow') and r.get('impl_self'):
            fp = ret_field(r, False)
            views.setdefault(r['impl_self'], set()).add(fp)
    for path, r in f.bodies.items():
        if r.get('name') == 'len' and r.get('impl_self') and not r.get('impl_trait'):
            fp = ret_field(r, True)
            vs = views.get(r['impl_self'])
            if fp and vs and vs == {fp}:
                tab['#len-of-view:' + path] = 'usize'
    return tab


class Zone:
    """Closed difference-bound matrix, sparse.  up[a][b] = c  means  a - b <= c."""
    __slots__ = ('up', 'bottom', 'sums')

    def __init__(self):
        self.up = {}
        self.bottom = False
        self.sums = {}        # total term -> ((term, off), (term, off)) :  total = x + y   (linear-equality memo beside the zone)

    def copy(self):
        z = Zone()
        z.up = {a: dict(d) for a, d in self.up.items()}
        z.bottom = self.bottom
        z.sums = dict(self.sums)
        return z

    def kill_sums(self, ds):
        """Terms in ds are about to be forgotten: rewrite remembered sums over an equal surviving term (d = r + c), else drop them."""
        if not self.sums:
            return
        def repl(d):
            for r, c in self.up.get(d, {}).items():
                if r == Z or r in ds:
                    continue
                back = self.up.get(r, {}).get(d)
                if back is not None and back == -c:
                    return r, c          # d = r + c
            return None
        out = {}
        for t, (x, y) in self.sums.items():
            ok = True
            if t in ds:
                rc = repl(t)
                if rc is None:
                    continue
                t, x = rc[0], (x[0], x[1] - rc[1])       # r + c = x + y  ->  r = (x - c) + y
            forms = []
            for f in (x, y):
                if f[0] in ds:
                    rc = repl(f[0])
                    if rc is None:
                        ok = False
                        break
                    f = (rc[0], f[1] + rc[1])
                forms.append(f)
            if not ok or t in (forms[0][0], forms[1][0]) or forms[0][0] == forms[1][0]:
                continue
            if t not in out:
                out[t] = (forms[0], forms[1])
        self.sums = out

    def get(self, a, b):
        if a == b:
            return 0
        d = self.up.get(a)
        return None if d is None else d.get(b)

    def terms(self):
        return set(self.up)

    def add(self, a, b, c):
        """a - b <= c, keeping the matrix closed."""
        if self.bottom:
            return
        if a == b:
            if c < 0:
                self.bottom = True
            return
        old = self.get(a, b)
        if old is not None and old <= c:
            return
        back = self.get(b, a)
        if back is not None and back + c < 0:
            self.bottom = True
            return
        up = self.up
        # x - a <= w1 for all x ; b - y <= w2 for all y  ==>  x - y <= w1 + c + w2
        xs = [(a, 0)] + [(x, d[a]) for x, d in up.items() if x != a and a in d]
        ys = [(b, 0)] + list(up.get(b, {}).items())
        for x, w1 in xs:
            dx = up.setdefault(x, {})
            for y, w2 in ys:
                if x == y:
                    if w1 + c + w2 < 0:
                        self.bottom = True
                        return
                    continue
                v = w1 + c + w2
                o = dx.get(y)
                if o is None or v < o:
                    dx[y] = v
        for t in (a, b):
            up.setdefault(t, {})

    def eq(self, a, b, off=0):
        """a = b + off"""
        self.add(a, b, off)
        self.add(b, a, -off)

    def kill(self, pred):
        """Forget every term t with pred(t)."""
        dead = [t for t in self.up if t != Z and pred(t)]
        if self.sums:
            more = set()
            for t, (x, y) in self.sums.items():
                for u in (t, x[0], y[0]):
                    if u != Z and pred(u):
                        more.add(u)
            if more:
                self.kill_sums(more)
        if not dead:
            return
        ds = set(dead)
        self.kill_sums(ds)
        for t in dead:
            del self.up[t]
        for a, d in self.up.items():
            for t in ds & set(d):
                del d[t]

    def kill_term(self, t):
        self.kill_sums({t})
        if t in self.up:
            del self.up[t]
            for d in self.up.values():
                d.pop(t, None)

    def ub(self, t):
        return 0 if t == Z else self.get(t, Z)

    def lb(self, t):
        if t == Z:
            return 0
        v = self.get(Z, t)
        return None if v is None else -v

    def join(self, other):
        """In place: keep constraints present in both with the weaker bound.  Returns True if something changed."""
        if other.bottom:
            return False
        if self.bottom:
            self.up = {a: dict(d) for a, d in other.up.items()}
            self.sums = dict(other.sums)
            self.bottom = False
            return True
        changed = False
        for t in [t for t, v in self.sums.items() if other.sums.get(t) != v]:
            del self.sums[t]
            changed = True
        for a in list(self.up):
            d = self.up[a]
            od = other.up.get(a)
            if od is None:
                if d:
                    changed = True
                del self.up[a]
                continue
            for b in list(d):
                ov = od.get(b)
                if ov is None:
                    del d[b]
                    changed = True
                elif ov > d[b]:
                    d[b] = ov
                    changed = True
        return changed

    def widen_from(self, old):
        """self := old widened by self-joined: every bound that is weaker than in `old` is dropped."""
        for a in list(self.up):
            d = self.up[a]
            od = old.up.get(a, {})
            for b in list(d):
                ov = od.get(b)
                if ov is None or d[b] > ov:
                    del d[b]

    def close(self):
        """Full shortest-path closure (used once after widening, which may leave derivable bounds out)."""
        ts = list(self.up)
        up = self.up
        for k in ts:
            dk = up.get(k, {})
            if not dk:
                continue
            for i in ts:
                di = up[i]
                w1 = di.get(k)
                if w1 is None or i == k:
                    continue
                for j, w2 in dk.items():
                    if j == i:
                        if w1 + w2 < 0:
                            self.bottom = True
                            return
                        continue
                    v = w1 + w2
                    o = di.get(j)
                    if o is None or v < o:
                        di[j] = v

    def same(self, other):
        return self.bottom == other.bottom and self.up == other.up and self.sums == other.sums


class Analysis:
    def __init__(self, b, defs, field_ty=None):
        self.b = b
        self.defs = defs            # single definitions: local -> (block, stmt | call terminator)
        self.locals = b.r['locals']
        self.nargs = b.r['nargs']
        self.entry = {}             # block -> Zone at entry
        self._live = None
        self.visits = {}
        self.steps = 0
        self.gave_up = False
        self._pbits = {}
        self._argonly = None
        self.field_ty = field_ty

    # ---- types ----------------------------------------------------------------------------------------
    def lty(self, l):
        return self.locals[l]['ty']

    def int_bits(self, ty):
        if ty in INT_BITS:
            return INT_BITS[ty], False
        if ty in SINT_BITS:
            return SINT_BITS[ty], True
        m = PAIR.match(ty or '')
        if m:
            return self.int_bits(m.group(1))
        return None

    def place_bits(self, root, pr):
        """Integer width of the place (root, projection) from the local's type string and the ADT field table, or None."""
        if pr == ('*',):
            return self.int_bits(strip_refs(self.lty(root)))
        key = (root, pr)
        c = self._pbits.get(key, 0)
        if c != 0:
            return c
        ty = self.lty(root)
        for e in pr:
            ty = self.proj_type(ty, e)
            if ty is None:
                break
        out = self.int_bits(strip_refs(ty)) if ty else None
        self._pbits[key] = out
        return out

    def proj_type(self, ty, e):
        ty = strip_refs(ty)
        if e.startswith('@') or e == '*':
            return ty
        if e.startswith('[_'):
            m = re.match(r'^\[(.*?)(; \d+)?\]$', ty)
            return m.group(1) if m else None
        if not e.startswith('.'):
            return None
        name = e[1:]
        head, ga = split_generic(ty)
        if re.fullmatch(r'\d+', name) and ty.startswith('('):
            parts = split_top(ty[1:-1])
            i = int(name)
            return parts[i] if i < len(parts) else None
        std = {'Result::Ok.0': 0, 'Result::Err.0': 1, 'Option::Some.0': 0, 'ControlFlow::Continue.0': 1, 'ControlFlow::Break.0': 0,
               'Range.start': 0, 'Range.end': 0, 'RangeTo.end': 0, 'RangeFrom.start': 0, 'RangeToInclusive.end': 0}
        if name in std:
            i = std[name]
            return ga[i] if i < len(ga) else None
        if self.field_ty is not None:
            return self.field_ty(name)
        return None

    def is_int_local(self, l):
        return self.int_bits(self.lty(l)) is not None

    # ---- places -----------------------------------------------------------------------------------------
    def canon(self, p, depth=0):
        """(root local, projection tuple without derefs), following single-definition reference / copy temporaries and
        length-preserving adapter calls."""
        l, pr = p['l'], [e for e in p['pr'] if e != '*']
        for _ in range(10):
            d = self.defs.get(l)
            if d is None or l <= self.nargs:
                break
            x = d[1]
            if x.get('k') == 'call':
                fn = x['f'].get('fn', '')
                if ADAPTERS.search(fn) and x['args'] and 'l' in x['args'][0] and not pr:
                    a0 = x['args'][0]
                    l, pr = a0['l'], [e for e in a0['pr'] if e != '*'] + pr
                    continue
                break
            r = x['r']
            if r['k'] in ('ref', 'copyderef', 'rawptr'):
                q = r['p']
                l, pr = q['l'], [e for e in q['pr'] if e != '*'] + pr
                continue
            if r['k'] == 'use' and 'l' in r['o'][0]:
                q = r['o'][0]
                l, pr = q['l'], [e for e in q['pr'] if e != '*'] + pr
                continue
            if r['k'] == 'agg' and r.get('ak') == 'tuple' and pr and re.fullmatch(r'\.\d+', pr[0]) and int(pr[0][1:]) < len(r['o']):
                q = r['o'][int(pr[0][1:])]
                if 'l' not in q:
                    break
                l, pr = q['l'], [e for e in q['pr'] if e != '*'] + pr[1:]
                continue
            if r['k'] == 'cast' and r.get('ck') in ('PointerCoercion', 'Transmute', 'PtrToPtr') and 'l' in r['o'][0]:
                q = r['o'][0]
                l, pr = q['l'], [e for e in q['pr'] if e != '*'] + pr
                continue
            break
        return l, tuple(pr)

    def len_term(self, p):
        """Linear form (term, offset) of the length of the sequence an operand/place denotes."""
        if 'l' not in p:
            return None
        root, pr = self.canon(p)
        if not pr:
            m = ARRAY_TY.match(self.lty(root) or '')
            if m:
                return (Z, int(m.group(1)))
        return (('len', root, pr), 0)

    # ---- values -----------------------------------------------------------------------------------------
    def val(self, o):
        """Linear form (term, offset) of an integer operand, or None."""
        if 'k' in o:
            v = o['k'].get('v')
            if isinstance(v, bool):
                return (Z, int(v))
            if isinstance(v, int):
                return (Z, v)
            return None
        if 'l' not in o:
            return None
        pr = o['pr']
        if not pr:
            if self.is_int_local(o['l']) and not PAIR.match(self.lty(o['l'])):
                return (('L', o['l']), 0)
            return None
        if pr == ['.0'] and PAIR.match(self.lty(o['l']) or ''):
            return (('L', o['l']), 0)
        root, cpr = self.canon(o)
        if any(e.startswith('[') for e in cpr):
            return None         # element of a sequence at a variable index: not a stable place
        if not cpr:
            if self.is_int_local(root):
                return (('L', root), 0)
            pv = self.promoted_int(root)
            if pv is not None:
                return (Z, pv)
            if self.int_bits(strip_refs(self.lty(root))) is not None and '*' in o['pr']:
                return (('P', root, ('*',)), 0)        # integer behind a reference local
            return None
        return (('P', root, cpr), 0)

    def promoted_int(self, l):
        """Value of `*l` when local l is a reference to a promoted integer constant (`&2usize`)."""
        d = self.defs.get(l)
        if d is None or d[1].get('k') == 'call':
            return None
        r = d[1]['r']
        if r['k'] != 'use' or 'k' not in r['o'][0] or 'prom' not in r['o'][0]['k']:
            return None
        proms = self.b.r.get('promoted') or []
        idx = r['o'][0]['k']['prom']
        if idx >= len(proms):
            return None
        vals = []
        nst = 0
        for blk in proms[idx]:
            for s_ in blk['s']:
                nst += 1
                rr = s_['r']
                if rr['k'] == 'use' and 'k' in rr['o'][0] and isinstance(rr['o'][0]['k'].get('v'), int) and not isinstance(rr['o'][0]['k'].get('v'), bool):
                    vals.append(rr['o'][0]['k']['v'])
        if len(vals) == 1 and nst == 2:
            return vals[0]
        return None

    def op_int_bits(self, o):
        if 'k' in o:
            return self.int_bits(o['k'].get('ty'))
        if 'l' in o and not o['pr']:
            return self.int_bits(self.lty(o['l']))
        if 'l' in o and o['pr'] == ['.0'] and PAIR.match(self.lty(o['l']) or ''):
            return self.int_bits(self.lty(o['l']))
        if 'l' in o and o['pr']:
            root, cpr = self.canon(o)
            if not cpr:
                return self.int_bits(self.lty(root))
            return self.place_bits(root, cpr)
        return None

    # ---- liveness ---------------------------------------------------------------------------------------
    def live_in(self):
        if self._live is not None:
            return self._live
        b = self.b
        n = b.n
        use = [set() for _ in range(n)]
        deff = [set() for _ in range(n)]

        def uses_of_operand(o, acc):
            if 'l' in o and 'k' not in o:
                acc.add(o['l'])
                for e in o['pr']:
                    if e.startswith('[_'):
                        acc.add(int(e[2:-1]))

        def walk(x, acc):
            if isinstance(x, dict):
                if 'l' in x and 'pr' in x:
                    uses_of_operand(x, acc)
                else:
                    for v in x.values():
                        walk(v, acc)
            elif isinstance(x, list):
                for v in x:
                    walk(v, acc)

        for i, blk in enumerate(b.blocks):
            if blk['c']:
                continue
            u, d = use[i], deff[i]
            for s in blk['s']:
                acc = set()
                walk(s['r'], acc)
                if s['d']['pr']:
                    acc.add(s['d']['l'])
                u |= (acc - d)
                if not s['d']['pr']:
                    d.add(s['d']['l'])
            t = blk['t']
            acc = set()
            for k in ('o', 'args', 'cond', 'p', 'f'):
                if k in t:
                    walk(t[k], acc)
            if t['k'] == 'call' and t['d']['pr']:
                acc.add(t['d']['l'])
            if t['k'] == 'return':
                acc.add(0)
            u |= (acc - d)
            if t['k'] == 'call' and not t['d']['pr']:
                d.add(t['d']['l'])
        live = [set() for _ in range(n)]
        changed = True
        while changed:
            changed = False
            for i in range(n - 1, -1, -1):
                if b.blocks[i]['c']:
                    continue
                out = set()
                for j, _ in b.succ(i):
                    out |= live[j]
                new = use[i] | (out - deff[i])
                if new != live[i]:
                    live[i] = new
                    changed = True
        # locals whose address is taken stay live wherever a reference temp derived from them is live: approximate by
        # keeping every local that is ever borrowed alive everywhere
        borrowed = set()
        for blk in b.blocks:
            if blk['c']:
                continue
            for s in blk['s']:
                if s['r']['k'] in ('ref', 'rawptr'):
                    borrowed.add(s['r']['p']['l'])
        self._borrowed = borrowed
        # a live alias keeps the local it canonicalises to alive (terms are keyed by the canonical root)
        root_of = {}
        for l in range(len(self.locals)):
            try:
                root_of[l] = self.canon({'l': l, 'pr': []})[0]
            except Exception:
                root_of[l] = l
        self._live = [lv | borrowed | set(range(1, self.nargs + 1)) | set(root_of[l] for l in lv) for lv in live]
        return self._live

    # ---- helpers ---------------------------------------------------------------------------------------
    def type_bounds(self, z, t, bits_signed):
        if bits_signed is None:
            return
        bits, signed = bits_signed
        if signed:
            return
        z.add(Z, t, 0)
        if bits < 64:
            z.add(t, Z, 2 ** bits - 1)

    def term_bounds(self, z, t):
        """Implicit bounds of a freshly mentioned term."""
        if t == Z:
            return
        if t[0] == 'len':
            z.add(Z, t, 0)
            z.add(t, Z, LEN_MAX)
        elif t[0] == 'L':
            if t[1] >= 0 and PAIR.match(self.lty(t[1]) or ''):
                return      # mathematical result of a checked operation: in range only after its overflow assert passed
            self.type_bounds(z, t, self.int_bits(self.lty(t[1])))
        elif t[0] == 'P':
            self.type_bounds(z, t, self.place_bits(t[1], t[2]))
        elif t[0].startswith('M:'):
            z.add(Z, t, 0)

    def mention(self, z, lf):
        if lf is None:
            return None
        t, off = lf
        if t != Z and t not in z.up:
            z.up[t] = {}
            self.term_bounds(z, t)
        return lf

    def assume_le(self, z, a, b, c=0):
        """a - b <= c for linear forms."""
        if a is None or b is None:
            return
        self.mention(z, a)
        self.mention(z, b)
        z.add(a[0], b[0], c - a[1] + b[1])

    def assume_eq(self, z, a, b):
        self.assume_le(z, a, b, 0)
        self.assume_le(z, b, a, 0)

    def entails_le(self, z, a, b, c=0):
        """Does z entail  a - b <= c  for linear forms?"""
        if z.bottom:
            return True
        if a is None or b is None:
            return False
        z = z  # no mutation: implicit bounds of unmentioned terms
        need = c - a[1] + b[1]
        if a[0] == b[0]:
            return 0 <= need
        v = z.get(a[0], b[0])
        if v is not None and v <= need:
            return True
        # through zero with implicit bounds
        ua = self.ub_of(z, a[0])
        lb = self.lb_of(z, b[0])
        if ua is not None and lb is not None and ua - lb <= need:
            return True
        return False

    def ub_of(self, z, t):
        if t == Z:
            return 0
        v = z.ub(t)
        if v is not None:
            return v
        if t[0] == 'len':
            return LEN_MAX
        if t[0] == 'L' and t[1] >= 0 and not PAIR.match(self.lty(t[1]) or ''):
            bs = self.int_bits(self.lty(t[1]))
            if bs and not bs[1]:
                return 2 ** bs[0] - 1
        return None

    def lb_of(self, z, t):
        if t == Z:
            return 0
        v = z.lb(t)
        if v is not None:
            return v
        if t[0] == 'len':
            return 0
        if t[0] == 'L' and t[1] >= 0 and not PAIR.match(self.lty(t[1]) or ''):
            bs = self.int_bits(self.lty(t[1]))
            if bs and not bs[1]:
                return 0
        return None

    def ub_lf(self, z, lf):
        if lf is None:
            return None
        u = self.ub_of(z, lf[0])
        return None if u is None else u + lf[1]

    def lb_lf(self, z, lf):
        if lf is None:
            return None
        u = self.lb_of(z, lf[0])
        return None if u is None else u + lf[1]

    # ---- kills ------------------------------------------------------------------------------------------
    @staticmethod
    def overlaps(t, root, pr):
        if t == Z or t[0] == 'L':
            return False
        if t[1] != root:
            return False
        tp = t[2]
        n = min(len(tp), len(pr))
        return tp[:n] == pr[:n]

    def kill_place(self, z, root, pr, contents_only=False):
        """Memory at (root, pr) may change.  contents_only: the place is a slice reference - element values change, the length
        of the slice itself does not."""
        def pred(t):
            if t[0] == 'L':
                return not pr and t[1] == root
            if not self.overlaps(t, root, pr):
                return False
            if contents_only and t[0] == 'len' and t[2] == tuple(pr):
                return False
            return True
        z.kill(pred)

    def stable_len_root(self, root, pr):
        """The length of this place cannot change through a `&mut` borrow of it (slices and arrays behind a local)."""
        if pr:
            return False
        ty = self.lty(root) or ''
        return bool(SLICE_REF_TY.match(ty) or ARRAY_TY.match(ty))

    def kill_borrow_mut(self, z, p):
        root, pr = self.canon(p)
        self.kill_place(z, root, pr, contents_only=self.stable_len_root(root, pr))
        # the place named in the statement itself (before alias resolution)
        if p['l'] != root:
            q = tuple(e for e in p['pr'] if e != '*')
            self.kill_place(z, p['l'], q, contents_only=self.stable_len_root(p['l'], q))

    def arg_only_refs(self):
        """Single-definition `&mut` temporaries whose only use is being moved into a call as a direct argument."""
        if self._argonly is not None:
            return self._argonly
        uses = {}
        def note(o, how):
            if isinstance(o, dict) and 'l' in o and 'k' not in o:
                uses.setdefault(o['l'], []).append(how if not o['pr'] else 'proj')
                for e in o['pr']:
                    if e.startswith('[_'):
                        uses.setdefault(int(e[2:-1]), []).append('idx')
        def walk(x, how):
            if isinstance(x, dict):
                if 'l' in x and 'pr' in x:
                    note(x, how)
                else:
                    for v in x.values():
                        walk(v, how)
            elif isinstance(x, list):
                for v in x:
                    walk(v, how)
        for blk in self.b.blocks:
            if blk['c']:
                continue
            for st in blk['s']:
                walk(st['r'], 'stmt')
                if st['d']['pr']:
                    note(st['d'], 'stmt')
            t = blk['t']
            if t['k'] == 'call':
                for a in t['args']:
                    note(a, 'arg')
                walk(t['f'], 'stmt')
                if t['d']['pr']:
                    note(t['d'], 'stmt')
            else:
                for k2 in ('o', 'cond', 'p'):
                    if k2 in t:
                        walk(t[k2], 'stmt')
        out = set()
        for l, d in self.defs.items():
            if l <= self.nargs or d[1].get('k') == 'call':
                continue
            r = d[1]['r']
            if r['k'] == 'ref' and r.get('m') == 'mut' and uses.get(l) == ['arg']:
                out.add(l)
        self._argonly = out
        return out

    # ---- statements -------------------------------------------------------------------------------------
    def assign(self, z, s):
        d, r = s['d'], s['r']
        k = r['k']
        if k in ('ref', 'rawptr') and r.get('m') == 'mut' or (k == 'rawptr'):
            # a `&mut` temporary that only ever becomes a call argument mutates at that call (which kills there, after having
            # looked at the state before it); every other mutable borrow kills here
            if not (k == 'ref' and not d['pr'] and d['l'] in self.arg_only_refs()):
                self.kill_borrow_mut(z, r['p'])
        if d['pr']:
            # store into memory
            root, pr = self.canon(d)
            new = None
            if k == 'use':
                new = self.val(r['o'][0])
            self.kill_place(z, root, pr)
            if d['l'] != root:
                self.kill_place(z, d['l'], tuple(e for e in d['pr'] if e != '*'))
            if new is not None and not pr and d['pr'] == ['*'] and self.int_bits(strip_refs(self.lty(root))) is not None and not self.is_int_local(root):
                pr = ('*',)
            if new is not None and pr and '[_' not in ''.join(pr):
                t = ('P', root, pr)
                if new[0] != t:
                    self.assume_eq(z, (t, 0), new)
            return
        l = d['l']
        # everything stored in / hanging off this local is overwritten
        tl = ('L', l)
        newrel = []       # constraints to add after the kill, computed from the state before it
        bits = self.int_bits(self.lty(l))
        if bits is not None:
            newrel = self.rvalue_relations(z, tl, r, bits)
        elif k == 'agg' and r.get('ak') == 'adt' and r.get('fields'):
            # range / struct aggregate: remember integer fields
            for fname, o in zip(r['fields'], r['o']):
                lf = self.val(o)
                if lf is not None:
                    newrel.append(('eq', ('P', l, ('.' + str(fname),)), lf))
        elif k == 'agg' and r.get('ak') == 'tuple':
            for idx, o in enumerate(r['o']):
                lf = self.val(o)
                if lf is not None:
                    newrel.append(('eq', ('P', l, ('.%d' % idx,)), lf))
        elif k in ('use', 'cast') and 'l' in r['o'][0]:
            # moving a sequence / aggregate: lengths and integer fields travel with it
            src = r['o'][0]
            sroot, spr = self.canon(src)
            if (sroot, spr) != (l, ()):
                for t in list(z.up):
                    if t != Z and t[0] in ('len', 'P') and t[1] == sroot and t[2][:len(spr)] == spr:
                        nt = (t[0], l, t[2][len(spr):])
                        if nt[0] == 'P' and not nt[2]:
                            continue
                        newrel.append(('eq', nt, (t, 0)))
        elif k == 'repeat':
            pass
        z.kill(lambda t: (t[0] == 'L' and t[1] == l) or (t[0] != 'L' and t[1] == l))
        for rel in newrel:
            if rel[0] == 'eq':
                _, t, lf = rel
                if lf[0] == t:
                    continue
                self.assume_eq(z, (t, 0), lf)
            elif rel[0] == 'le':      # t - lf <= c
                _, t, lf, c = rel
                if lf[0] == t:
                    continue
                self.assume_le(z, (t, 0), lf, c)
            elif rel[0] == 'ge':      # lf - t <= c
                _, t, lf, c = rel
                if lf[0] == t:
                    continue
                self.assume_le(z, lf, (t, 0), c)
        if bits is not None:
            self.mention(z, (tl, 0))
            if k == 'bin' and not bits[1]:
                self.record_sum(z, tl, r)

    def entails_eq(self, z, a, b):
        return self.entails_le(z, a, b, 0) and self.entails_le(z, b, a, 0)

    def record_sum(self, z, t, r):
        """Remember  t = a + c  (or, for t = a - c:  a = t + c)  when neither operand is a constant, and relate it to the sums already
        known that share an addend:  s1 = x + c, s2 = x + d  ==>  s1 - s2 = c - d."""
        op = r['op'].replace('WithOverflow', '').replace('Unchecked', '')
        if op not in ('Add', 'Sub'):
            return
        a, c = self.val(r['o'][0]), self.val(r['o'][1])
        if a is None or c is None or a[0] == Z or c[0] == Z or z.bottom:
            return
        if op == 'Add':
            total, x, y = (t, 0), a, c
        else:
            total, x, y = a, (t, 0), c
        tt = total[0]
        if tt in (x[0], y[0]) or x[0] == y[0]:
            return
        # normalise: tt = x + y - total_off
        x = (x[0], x[1] - total[1])
        new = (x, y)
        for ot, (ox, oy) in list(z.sums.items()):
            if ot == tt:
                continue
            for (p, q) in ((x, y), (y, x)):
                for (op_, oq) in ((ox, oy), (oy, ox)):
                    k0 = None
                    if p[0] == op_[0]:
                        k0 = p[1] - op_[1]
                    else:
                        v_, w_ = z.get(p[0], op_[0]), z.get(op_[0], p[0])
                        if v_ is not None and w_ is not None and v_ == -w_:
                            k0 = v_ + p[1] - op_[1]
                    if k0 is not None:
                        # tt = p + q ; ot = op_ + oq ; p = op_ + k0  ->  tt - ot = k0 + q - oq
                        v = z.get(q[0], oq[0]) if q[0] != oq[0] else 0
                        if v is not None:
                            z.add(tt, ot, k0 + q[1] - oq[1] + v)
                        v2 = z.get(oq[0], q[0]) if q[0] != oq[0] else 0
                        if v2 is not None:
                            z.add(ot, tt, -k0 + oq[1] - q[1] + v2)
        if tt not in z.sums:
            z.sums[tt] = new

    def diff_by_sum(self, z, e, s_):
        """Linear form of e - s_ when a remembered sum says  e = s_ + y."""
        for tt, (x, y) in z.sums.items():
            if self.entails_eq(z, e, (tt, 0)):
                if self.entails_eq(z, s_, x):
                    return y
                if self.entails_eq(z, s_, y):
                    return x
        return None

    def rvalue_relations(self, z, t, r, bits):
        """Relations between the destination term t and the operands of rvalue r, as ('eq'|'le'|'ge', t, linear form[, c])."""
        k = r['k']
        out = []
        signed = bits[1]
        if k == 'use':
            lf = self.val(r['o'][0])
            if lf is not None:
                out.append(('eq', t, lf))
        elif k == 'cast' and r.get('ck') == 'IntToInt':
            src = r['o'][0]
            lf = self.val(src)
            sb = self.op_int_bits(src)
            if lf is not None and sb is not None and not sb[1] and not signed:
                if bits[0] >= sb[0]:
                    out.append(('eq', t, lf))
                else:
                    ub = self.ub_lf(z, lf)
                    if ub is not None and ub <= 2 ** bits[0] - 1:
                        out.append(('eq', t, lf))
                    else:
                        pass    # truncation: only the type bound holds
        elif k == 'un' and r.get('op') == 'PtrMetadata':
            lf = self.len_term(r['o'][0])
            if lf is not None:
                out.append(('eq', t, lf))
        elif k == 'len':
            lf = self.len_term(r['p']) if 'p' in r else None
            if lf is not None:
                out.append(('eq', t, lf))
        elif k == 'bin' and not signed:
            op = r['op'].replace('WithOverflow', '').replace('Unchecked', '')
            a, c = self.val(r['o'][0]), self.val(r['o'][1])
            la, ua = self.lb_lf(z, a), self.ub_lf(z, a)
            lc, uc = self.lb_lf(z, c), self.ub_lf(z, c)
            if op in ('Add', 'Sub', 'Mul', 'Shl') and 'WithOverflow' not in r['op']:
                # wrapping semantics unless provably in range
                mx = 2 ** bits[0] - 1
                fits = False
                if op == 'Add':
                    fits = ua is not None and uc is not None and ua + uc <= mx
                elif op == 'Mul':
                    fits = ua is not None and uc is not None and ua * uc <= mx
                elif op == 'Sub':
                    fits = a is not None and c is not None and self.entails_le(z, c, a, 0)
                elif op == 'Shl':
                    fits = ua is not None and c is not None and c[0] == Z and 0 <= c[1] < 128 and (ua << c[1]) <= mx
                if not fits:
                    return out
            if op == 'Add':
                if a is not None and c is not None:
                    if c[0] == Z:
                        out.append(('eq', t, (a[0], a[1] + c[1])))
                    elif a[0] == Z:
                        out.append(('eq', t, (c[0], c[1] + a[1])))
                    else:
                        if uc is not None: out.append(('le', t, a, uc))
                        if lc is not None: out.append(('ge', t, a, -lc))
                        if ua is not None: out.append(('le', t, c, ua))
                        if la is not None: out.append(('ge', t, c, -la))
                elif a is not None:
                    out.append(('ge', t, a, 0))
                elif c is not None:
                    out.append(('ge', t, c, 0))
            elif op == 'Sub':
                if a is not None and c is not None:
                    if c[0] == Z:
                        out.append(('eq', t, (a[0], a[1] - c[1])))
                    else:
                        if lc is not None: out.append(('le', t, a, -lc))
                        if uc is not None: out.append(('ge', t, a, uc))
                        # t = a - c  <=  bound(a - c)
                        if a[0] != Z or True:
                            v = z.get(a[0], c[0]) if a[0] != c[0] else 0
                            if v is not None:
                                out.append(('le', t, (Z, 0), v + a[1] - c[1]))
                            v2 = z.get(c[0], a[0]) if a[0] != c[0] else 0
                            if v2 is not None:
                                out.append(('ge', t, (Z, 0), v2 + c[1] - a[1]))
                elif a is not None:
                    out.append(('le', t, a, 0))
            elif op == 'Mul':
                for x, y, lx, ux, ly, uy in ((a, c, la, ua, lc, uc), (c, a, lc, uc, la, ua)):
                    if x is not None and y is not None and y[0] == Z:
                        m = y[1]
                        if m >= 1:
                            out.append(('ge', t, x, 0))
                        if m == 1:
                            out.append(('eq', t, x))
                        if ux is not None:
                            out.append(('le', t, (Z, 0), ux * m))
                        if lx is not None:
                            out.append(('ge', t, (Z, 0), -lx * m))
                        break
                else:
                    if ua is not None and uc is not None:
                        out.append(('le', t, (Z, 0), ua * uc))
            elif op == 'Div':
                if a is not None:
                    out.append(('le', t, a, 0))
                    if c is not None and c[0] == Z and c[1] >= 1 and ua is not None:
                        out.append(('le', t, (Z, 0), ua // c[1]))
            elif op == 'Rem':
                if a is not None:
                    out.append(('le', t, a, 0))
                if c is not None:
                    out.append(('le', t, c, -1))
            elif op == 'BitAnd':
                if a is not None: out.append(('le', t, a, 0))
                if c is not None: out.append(('le', t, c, 0))
            elif op == 'Shr':
                if a is not None:
                    out.append(('le', t, a, 0))
                    if c is not None and c[0] == Z and ua is not None and 0 <= c[1] < 256:
                        out.append(('le', t, (Z, 0), ua >> c[1]))
            elif op == 'Shl':
                if a is not None and c is not None and c[0] == Z and ua is not None and 0 <= c[1] < 128:
                    out.append(('le', t, (Z, 0), ua << c[1]))
                    if la is not None:
                        out.append(('ge', t, (Z, 0), -(la << c[1])))
            elif op in ('BitOr', 'BitXor'):
                if ua is not None and uc is not None:
                    m = max(ua, uc)
                    out.append(('le', t, (Z, 0), (1 << m.bit_length()) - 1))
        return out

    # ---- calls ------------------------------------------------------------------------------------------
    def call(self, z, t, bi):
        f = t['f']
        fn = f.get('fn', '') or ''
        args = t['args']
        d = t['d']
        post = []     # relations to add after kills
        dl = d['l'] if not d['pr'] else None
        bits = self.int_bits(self.lty(dl)) if dl is not None else None
        dt = ('L', dl) if bits is not None else None

        def A(i):
            return args[i] if i < len(args) else None
        last = fn.split('::')[-1]
        # -- results that are plain integers
        if dt is not None:
            if SEQ_LEN.search(fn) and args and 'l' in args[0]:
                post.append(('eq', dt, self.len_term(args[0])))
            elif re.search(r'(cmp::Ord::min|cmp::min)$', fn) and len(args) == 2:
                for a in args:
                    lf = self.val(a)
                    if lf is not None:
                        post.append(('le', dt, lf, 0))
            elif re.search(r'(cmp::Ord::max|cmp::max)$', fn) and len(args) == 2:
                for a in args:
                    lf = self.val(a)
                    if lf is not None:
                        post.append(('ge', dt, lf, 0))
            elif last == 'saturating_sub' and len(args) == 2:
                lf = self.val(args[0])
                if lf is not None:
                    post.append(('le', dt, lf, 0))
            elif re.search(r'(convert::From<.*>>::from|convert::Into<.*>>::into|convert::From::from|convert::Into::into)$', fn) and len(args) == 1:
                sb = self.op_int_bits(args[0])
                lf = self.val(args[0])
                if sb is not None and lf is not None and not sb[1] and not bits[1] and bits[0] >= sb[0]:
                    post.append(('eq', dt, lf))
            elif re.search(r'(trailing_zeros|leading_zeros|count_ones|count_zeros)$', fn):
                sb = self.op_int_bits(args[0]) if args else None
                if sb:
                    post.append(('le', dt, (Z, 0), sb[0]))
            elif PURE_SIZE.search(fn) and len(args) == 1 and 'l' in args[0] and (self.lty(args[0]['l']) or '').startswith('&') \
                    and not (self.lty(args[0]['l']) or '').startswith('&mut') and not re.search(r"^&(?:'\w+ )?mut ", self.lty(args[0]['l']) or ''):
                # a size accessor of the crate called on a shared reference: a pure function of the object - two calls on an object
                # that was not mutated in between return the same value (axiom; the term dies when the object may change)
                root, pr = self.canon(args[0])
                post.append(('eq', dt, (('M:' + fn, root, pr), 0)))
                if self.field_ty is not None and self.field_ty('#len-of-view:' + (f.get('res') or fn)):
                    # accessor summary: this `len()` returns the length of what the type's slice views return
                    post.append(('eq', dt, self.len_term(args[0])))
        # -- results that carry a length
        if dl is not None and bits is None:
            dlen = ('len', dl, ())
            if re.search(r'ops::Index(Mut)?::index(_mut)?$', fn) and len(args) == 2 and 'l' in args[0]:
                rl = self.len_term(args[0])
                idx = args[1]
                rng = self.range_of(idx)
                if rng is not None and rl is not None:
                    kind, s_, e_ = rng
                    if kind == 'RangeFull':
                        post.append(('eq', dlen, rl))
                    elif kind == 'RangeTo':
                        post.append(('eq', dlen, e_)) if e_ else None
                    elif kind == 'RangeToInclusive':
                        post.append(('eq', dlen, (e_[0], e_[1] + 1))) if e_ else None
                    elif kind == 'RangeFrom' and s_ is not None:
                        if s_[0] == Z:
                            post.append(('eq', dlen, (rl[0], rl[1] - s_[1])))
                        else:
                            post.append(('le', dlen, rl, -(self.lb_lf(z, s_) or 0)))
                            u = self.ub_lf(z, s_)
                            if u is not None:
                                post.append(('ge', dlen, rl, u))
                            v = z.get(rl[0], s_[0]) if rl[0] != s_[0] else 0
                            if v is not None:
                                post.append(('le', dlen, (Z, 0), v + rl[1] - s_[1]))
                            v2 = z.get(s_[0], rl[0]) if rl[0] != s_[0] else 0
                            if v2 is not None:
                                post.append(('ge', dlen, (Z, 0), v2 + s_[1] - rl[1]))
                    elif kind in ('Range', 'RangeInclusive') and s_ is not None and e_ is not None:
                        e2 = e_ if kind == 'Range' else (e_[0], e_[1] + 1)
                        dsum = self.diff_by_sum(z, e2, s_) if s_[0] != Z else None
                        if s_[0] == Z:
                            post.append(('eq', dlen, (e2[0], e2[1] - s_[1])))
                        elif dsum is not None:
                            post.append(('eq', dlen, dsum))
                        else:
                            post.append(('le', dlen, e2, -(self.lb_lf(z, s_) or 0)))
                            u = self.ub_lf(z, s_)
                            if u is not None:
                                post.append(('ge', dlen, e2, u))
                            v = z.get(e2[0], s_[0]) if e2[0] != s_[0] else 0
                            if v is not None:
                                post.append(('le', dlen, (Z, 0), v + e2[1] - s_[1]))
                            v2 = z.get(s_[0], e2[0]) if e2[0] != s_[0] else 0
                            if v2 is not None:
                                post.append(('ge', dlen, (Z, 0), v2 + s_[1] - e2[1]))
            elif re.search(r'(Vec::<.*>::new|Vec::<.*>::with_capacity|BytesMut::new|BytesMut::with_capacity|String::new|String::with_capacity|Bytes::new)$', fn):
                post.append(('eq', dlen, (Z, 0)))
            elif re.search(r'(vec::from_elem|BytesMut::zeroed)$', fn) and args:
                lf = self.val(args[-1])
                if lf is not None:
                    post.append(('eq', dlen, lf))
            elif re.search(r'(slice::<impl \[T\]>::to_vec|\[T\]::to_vec|ToOwned::to_owned|Bytes::copy_from_slice|Clone::clone|Bytes::from_static|BytesMut::freeze|Vec::<.*>::into_boxed_slice|convert::From<.*>>::from|convert::Into<.*>>::into)$', fn) and len(args) == 1 and 'l' in args[0]:
                aty = self.lty(args[0]['l']) or ''
                if re.search(r'\[|Vec<|Bytes|str|String', aty) and re.search(r'\[|Vec<|Bytes|str|String', self.lty(dl) or ''):
                    post.append(('eq', dlen, self.len_term(args[0])))
            elif re.search(r'(Bytes|BytesMut)::(split_to|split_off)$', fn) and len(args) == 2:
                lf = self.val(args[1])
                rl = self.len_term(args[0])
                if lf is not None and rl is not None:
                    if last == 'split_to':
                        post.append(('eq', dlen, lf))
                        post.append(('sub', rl[0], rl, lf))
                    else:
                        post.append(('sub', dlen, rl, lf))
                        post.append(('eqafter', rl[0], lf))
            elif re.search(r'ops::Try::branch$', fn) and args and 'l' in args[0]:
                # Continue.0 carries Ok.0 / Some.0
                sroot, spr = self.canon(args[0])
                for tt in list(z.up):
                    if tt != Z and tt[0] in ('P', 'len') and tt[1] == sroot and tt[2][:len(spr)] == spr and len(tt[2]) > len(spr):
                        rest = tt[2][len(spr):]
                        if rest[0] in ('@Ok', '@Some'):
                            nt = (tt[0], dl, ('@Continue',) + tuple(re.sub(r'^\.(Result::Ok|Option::Some)\.', '.ControlFlow::Continue.', x) for x in rest[1:]))
                            post.append(('eq', nt, (tt, 0)))
            elif re.search(r'io::Read::read$', fn) and len(args) == 2 and 'l' in args[1]:
                bl = self.len_term(args[1])
                if bl is not None:
                    post.append(('postle', ('P', dl, ('@Ok', '.Result::Ok.0')), bl))
            elif re.search(r'(memchr::memchr|memchr::memchr2|memchr::memchr3|memchr::memrchr)$', fn) and args and 'l' in args[-1]:
                hl = self.len_term(args[-1])
                if hl is not None:
                    post.append(('postle', ('P', dl, ('@Some', '.Option::Some.0')), (hl[0], hl[1] - 1)))
            elif re.search(r'iter::Iterator::position$', fn) and args and 'l' in args[0]:
                # `slice.iter().position(..)`: an index below the length of the slice the iterator was made from
                it_root, it_pr = self.canon(args[0])
                dd = self.defs.get(it_root)
                if not it_pr and dd is not None and dd[1].get('k') == 'call' and dd[1]['args'] and 'l' in dd[1]['args'][0] \
                        and re.search(r'(\[T\]|slice::<impl \[T\]>|Vec::<.*>)::iter$', dd[1]['f'].get('fn', '') or ''):
                    hl = self.len_term(dd[1]['args'][0])
                    if hl is not None:
                        post.append(('postle', ('P', dl, ('@Some', '.Option::Some.0')), (hl[0], hl[1] - 1)))
            elif re.search(r'nom::Input::position$', fn) and args and 'l' in args[0] and re.search(r'\[u8\]|str', self.lty(args[0]['l']) or ''):
                hl = self.len_term(args[0])
                if hl is not None:
                    post.append(('postle', ('P', dl, ('@Some', '.Option::Some.0')), (hl[0], hl[1] - 1)))
            elif re.search(r'(Option::<.*>::unwrap_or|Option::<.*>::unwrap|Option::<.*>::expect|Result::<.*>::unwrap|Result::<.*>::expect)$', fn):
                pass
        # -- effects on the arguments
        kills = []
        for ai, a in enumerate(args):
            if 'l' not in a or 'k' in a:
                continue
            ty = self.lty(a['l']) or ''
            if a['pr']:
                continue
            if ty.startswith('&mut') or ty.startswith("&'") and ' mut ' in ty[:12]:
                root, pr = self.canon(a)
                stable = self.stable_len_root(root, pr) or (a['l'] != root and bool(SLICE_REF_TY.match(ty)))
                kills.append((root, pr, stable))
                if a['l'] != root:
                    kills.append((a['l'], (), bool(SLICE_REF_TY.match(ty))))
            elif ty.startswith('*mut'):
                root, pr = self.canon(a)
                kills.append((root, pr, False))
        # length effects of mutating sequence methods (computed before the kill)
        if args and 'l' in args[0] and kills:
            rl = self.len_term(args[0])
            if rl is not None and rl[0] != Z:
                if re.search(r'(Vec::<.*>::push|BytesMut::put_u8|BufMut::put_u8|String::push)$', fn):
                    post.append(('inc', rl[0], (Z, 1)))
                elif re.search(r'(Vec::<.*>::extend_from_slice|BytesMut::extend_from_slice|BufMut::put_slice|BytesMut::put_slice|String::push_str)$', fn) and len(args) == 2 and 'Vec' in (self.lty(self.canon(args[0])[0]) or '') + 'Vec':
                    sl = self.len_term(args[1]) if 'l' in args[1] else None
                    if sl is not None and re.search(r'Vec<|BytesMut|String', self.lty(self.canon(args[0])[0]) or ''):
                        post.append(('inc', rl[0], sl))
                elif re.search(r'(Vec::<.*>::clear|BytesMut::clear|String::clear|Bytes::clear)$', fn):
                    post.append(('eq', rl[0], (Z, 0)))
                elif re.search(r'(Vec::<.*>::resize|BytesMut::resize)$', fn) and len(args) == 3:
                    lf = self.val(args[1])
                    if lf is not None:
                        post.append(('eq', rl[0], lf))
                elif re.search(r'(Vec::<.*>::truncate|BytesMut::truncate|Bytes::truncate)$', fn) and len(args) == 2:
                    lf = self.val(args[1])
                    post.append(('keep_ub', rl[0]))
                    if lf is not None:
                        post.append(('le', rl[0], lf, 0))
                        lo_old, lo_n = self.lb_lf(z, rl), self.lb_lf(z, lf)
                        if lo_old is not None and lo_n is not None:
                            post.append(('lbv', rl[0], min(lo_old, lo_n)))
                elif re.search(r'(Buf::advance|Bytes::advance|BytesMut::advance)$', fn) and len(args) == 2:
                    lf = self.val(args[1])
                    if lf is not None:
                        post.append(('sub', rl[0], rl, lf))
                elif re.search(r'Buf::(get_u8|get_u16|get_u32|get_u64)$', fn):
                    n = {'get_u8': 1, 'get_u16': 2, 'get_u32': 4, 'get_u64': 8}[last]
                    post.append(('sub', rl[0], rl, (Z, n)))
        # evaluate relations that refer to the pre-state
        pre = []
        for rel in post:
            if rel[0] == 'sub':          # t = a - c, exact when c constant, else bounds
                _, tt, a, c = rel
                lc, uc = self.lb_lf(z, c), self.ub_lf(z, c)
                if c[0] == Z:
                    pre.append(('eqv', tt, a, -c[1]))
                else:
                    if lc is not None: pre.append(('lev', tt, a, -lc))
                    if uc is not None: pre.append(('gev', tt, a, uc))
                    v = z.get(a[0], c[0]) if a[0] != c[0] else 0
                    if v is not None: pre.append(('ubv', tt, v + a[1] - c[1]))
                    v2 = z.get(c[0], a[0]) if a[0] != c[0] else 0
                    if v2 is not None: pre.append(('lbv', tt, -(v2 + c[1] - a[1])))
            elif rel[0] == 'inc':
                _, tt, c = rel
                lc, uc = self.lb_lf(z, c), self.ub_lf(z, c)
                pre.append(('incv', tt, lc, uc))
            elif rel[0] == 'keep_ub':
                pre.append(('ubv', rel[1], self.ub_of(z, rel[1])))
            else:
                pre.append(rel)
        # snapshot old values of terms that are both killed and referenced:  t_new = t_old + k  is applied through a temporary
        TMP = ('L', -1)
        for rel in pre:
            if rel[0] in ('eqv', 'lev', 'gev') and rel[2][0] == rel[1]:
                # self-relative update: rename old to TMP
                pass
        selfrel = [rel for rel in pre if rel[0] in ('eqv', 'lev', 'gev', 'incv') and (rel[0] == 'incv' or rel[2][0] == rel[1])]
        olds = {}
        for n_, rel in enumerate(selfrel):
            tt = rel[1]
            self.mention(z, (tt, 0))
            if tt not in olds and tt in z.up:
                tmp = ('L', -1 - len(olds))
                z.eq(tmp, tt, 0)
                olds[tt] = tmp
        for root, pr, stable in kills:
            self.kill_place(z, root, pr, contents_only=stable)
        if dl is not None:
            z.kill(lambda t_: (t_[0] == 'L' and t_[1] == dl) or (t_[0] != 'L' and t_[1] == dl))
        elif d['pr']:
            root, pr = self.canon(d)
            self.kill_place(z, root, pr)
        for rel in pre:
            kind = rel[0]
            if kind == 'eq':
                _, tt, lf = rel
                if lf is not None and lf[0] != tt:
                    self.assume_eq(z, (tt, 0), lf)
            elif kind == 'le':
                _, tt, lf, c = rel
                if lf[0] != tt:
                    self.assume_le(z, (tt, 0), lf, c)
            elif kind == 'ge':
                _, tt, lf, c = rel
                if lf[0] != tt:
                    self.assume_le(z, lf, (tt, 0), c)
            elif kind == 'postle':
                _, tt, lf = rel
                self.mention(z, (tt, 0))
                z.add(Z, tt, 0)
                self.assume_le(z, (tt, 0), lf, 0)
            elif kind in ('eqv', 'lev', 'gev'):
                _, tt, a, c = rel
                base = a
                if a[0] == tt:
                    if tt not in olds:
                        continue
                    base = (olds[tt], a[1])
                self.mention(z, (tt, 0))
                if kind in ('eqv', 'lev'):
                    self.assume_le(z, (tt, 0), base, c)
                if kind in ('eqv', 'gev'):
                    self.assume_le(z, base, (tt, 0), -c)
            elif kind == 'ubv':
                if rel[2] is not None:
                    self.mention(z, (rel[1], 0))
                    z.add(rel[1], Z, rel[2])
            elif kind == 'lbv':
                if rel[2] is not None:
                    self.mention(z, (rel[1], 0))
                    z.add(Z, rel[1], -rel[2])
            elif kind == 'incv':
                _, tt, lc, uc = rel
                if tt in olds:
                    self.mention(z, (tt, 0))
                    if uc is not None:
                        z.add(tt, olds[tt], uc)
                    if lc is not None:
                        z.add(olds[tt], tt, -lc)
            elif kind == 'eqafter':
                _, tt, lf = rel
                self.assume_eq(z, (tt, 0), lf)
        for tmp in olds.values():
            z.kill_term(tmp)
        if dt is not None:
            self.mention(z, (dt, 0))

    def range_of(self, idx):
        """(kind, start linear form, end linear form) of a range operand built by a single-definition aggregate, reading the
        field terms stored at the aggregate; ('usize', lf, None) for a plain index."""
        if 'l' not in idx:
            lf = self.val(idx)
            return ('usize', lf, None) if lf is not None else None
        ty = self.lty(idx['l']) or ''
        if ty in INT_BITS and not idx['pr']:
            return ('usize', self.val(idx), None)
        m = re.match(r'^std::ops::(Range|RangeTo|RangeFrom|RangeInclusive|RangeToInclusive|RangeFull)(<usize>)?$', ty)
        if not m or idx['pr']:
            return None
        kind = m.group(1)
        l = idx['l']
        root, pr = self.canon(idx)
        s_ = (('P', root, pr + ('.start',)), 0)
        e_ = (('P', root, pr + ('.end',)), 0)
        if kind == 'RangeFull':
            return (kind, None, None)
        if kind == 'RangeTo' or kind == 'RangeToInclusive':
            return (kind, None, e_)
        if kind == 'RangeFrom':
            return (kind, s_, None)
        if kind == 'RangeInclusive':
            return None     # fields are private (start/end/exhausted): built by RangeInclusive::new, not handled
        return (kind, s_, e_)

    # ---- edges ------------------------------------------------------------------------------------------
    def cond_of(self, o, bi, depth=0):
        """Describe a bool operand: ('cmp', op, a, b) | ('not', x) | ('empty', place) | ('hasrem', place) | None, reading
        definitions that sit in the same block (so the operands still have the values they were compared with)."""
        if depth > 4 or 'l' not in o or o['pr']:
            return None
        l = o['l']
        blk = self.b.blocks[bi]
        for s in reversed(blk['s']):
            if s['d']['l'] == l and not s['d']['pr']:
                r = s['r']
                if r['k'] == 'bin' and r['op'] in ('Lt', 'Le', 'Gt', 'Ge', 'Eq', 'Ne'):
                    return ('cmp', r['op'], r['o'][0], r['o'][1])
                if r['k'] == 'un' and r['op'] == 'Not':
                    x = self.cond_of(r['o'][0], bi, depth + 1)
                    return ('not', x) if x else None
                if r['k'] == 'use':
                    return self.cond_of(r['o'][0], bi, depth + 1)
                return None
        # defined by the call that ends a predecessor block (single predecessor, goto-free)
        d = self.defs.get(l)
        if d is not None and d[1].get('k') == 'call' and d[1].get('t') == bi:
            t = d[1]
            fn = t['f'].get('fn', '') or ''
            if SEQ_EMPTY.search(fn) and t['args']:
                return ('empty', t['args'][0])
            if HAS_REM.search(fn) and t['args']:
                return ('not', ('empty', t['args'][0]))
            m = re.search(r'cmp::PartialOrd(?:<.*>)?::(lt|le|gt|ge)$', fn) or re.search(r'cmp::PartialEq(?:<.*>)?::(eq|ne)$', fn)
            if m and len(t['args']) == 2:
                a, c = t['args']
                da, dc = self.deref_operand(a), self.deref_operand(c)
                if da is not None and dc is not None:
                    return ('cmp', m.group(1).capitalize(), da, dc)
        return None

    def deref_operand(self, o):
        """For a reference operand `&x` (single definition) with integer x: the operand x."""
        if 'l' not in o or o['pr']:
            return None
        d = self.defs.get(o['l'])
        if d is None or d[1].get('k') == 'call':
            return None
        r = d[1]['r']
        if r['k'] == 'ref':
            p = r['p']
            q = dict(l=p['l'], pr=list(p['pr']))
            if self.val(q) is not None:
                return q
        if r['k'] == 'use' and 'k' in r['o'][0] and 'prom' in r['o'][0]['k']:
            return None
        return None

    def assume_cond(self, z, c, truth, bi):
        if c is None:
            return
        if c[0] == 'not':
            return self.assume_cond(z, c[1], not truth, bi)
        if c[0] == 'empty':
            lf = self.len_term(c[1]) if 'l' in c[1] else None
            if lf is None:
                return
            if truth:
                self.assume_le(z, lf, (Z, 0), 0)
            else:
                self.assume_le(z, (Z, 0), lf, -1)
            return
        _, op, oa, ob = c
        a, b_ = self.val(oa), self.val(ob)
        if a is None or b_ is None:
            return
        sa = self.op_int_bits(oa)
        if sa is not None and sa[1]:
            return      # signed comparison: not modelled
        if not truth:
            op = {'Lt': 'Ge', 'Le': 'Gt', 'Gt': 'Le', 'Ge': 'Lt', 'Eq': 'Ne', 'Ne': 'Eq'}[op]
        if op == 'Lt':
            self.assume_le(z, a, b_, -1)
        elif op == 'Le':
            self.assume_le(z, a, b_, 0)
        elif op == 'Gt':
            self.assume_le(z, b_, a, -1)
        elif op == 'Ge':
            self.assume_le(z, b_, a, 0)
        elif op == 'Eq':
            self.assume_eq(z, a, b_)
        elif op == 'Ne':
            # a != b: tighten when one side is pinned at the other's bound
            self.mention(z, a); self.mention(z, b_)
            for x, y in ((a, b_), (b_, a)):
                lx, ly, uy, ux = self.lb_lf(z, x), self.lb_lf(z, y), self.ub_lf(z, y), self.ub_lf(z, x)
                if ly is not None and uy is not None and ly == uy:
                    if lx is not None and lx == ly:
                        self.assume_le(z, y, x, -1)
                    if ux is not None and ux == uy:
                        self.assume_le(z, x, y, -1)

    def edge_state(self, z, bi, j, lab):
        """State on edge bi -> j (z is the state after the statements and the effect of the terminator of bi)."""
        t = self.b.blocks[bi]['t']
        k = t['k']
        if k == 'switch':
            z = z.copy()
            o = t['o']
            ty = t.get('ty')
            if ty == 'bool':
                c = self.cond_of(o, bi)
                if lab[0] == 'v':
                    truth = bool(lab[1])
                else:
                    vals = set(v for v, _ in t['targets'])
                    if vals == {0}:
                        truth = True
                    elif vals == {1}:
                        truth = False
                    else:
                        z.bottom = True
                        return z
                self.assume_cond(z, c, truth, bi)
            else:
                lf = self.val(o)
                if lf is not None and self.op_int_bits(o) is not None:
                    if lab[0] == 'v':
                        self.assume_eq(z, lf, (Z, lab[1]))
                    else:
                        vals = set(v for v, _ in t['targets'])
                        self.mention(z, lf)
                        for _ in range(len(vals) + 1):
                            lo = self.lb_lf(z, lf)
                            if lo is not None and lo in vals:
                                self.assume_le(z, (Z, lo + 1), lf, 0)
                            else:
                                break
                        for _ in range(len(vals) + 1):
                            hi = self.ub_lf(z, lf)
                            if hi is not None and hi in vals:
                                self.assume_le(z, lf, (Z, hi - 1), 0)
                            else:
                                break
            return z
        if k == 'assert':
            z = z.copy()
            ak = t['ak']
            if ak == 'BoundsCheck':
                ln, idx = t['o']
                self.assume_le(z, self.val(idx), self.val(ln), -1)
            else:
                c = self.cond_of(t['cond'], bi) if 'l' in t['cond'] else None
                if c is not None:
                    self.assume_cond(z, c, bool(t['exp']), bi)
                if ak == 'Overflow(Sub)':
                    a, c2 = t['o']
                    self.assume_le(z, self.val(c2), self.val(a), 0)
                if ak.startswith('Overflow(') and 'l' in t['cond'] and t['cond']['pr'] == ['.1'] and PAIR.match(self.lty(t['cond']['l']) or ''):
                    pt = ('L', t['cond']['l'])
                    self.mention(z, (pt, 0))
                    self.type_bounds(z, pt, self.int_bits(self.lty(t['cond']['l'])))
            return z
        return z

    # ---- driver -----------------------------------------------------------------------------------------
    def transfer_block(self, bi, z, upto_term=True):
        """State just before the terminator (upto_term=False) or after the terminator's own effect (calls)."""
        z = z.copy()
        blk = self.b.blocks[bi]
        for s in blk['s']:
            if z.bottom:
                break
            self.assign(z, s)
        if upto_term and not z.bottom and blk['t']['k'] == 'call':
            self.call(z, blk['t'], bi)
        if upto_term and not z.bottom and blk['t']['k'] == 'drop':
            pass
        return z

    def prune(self, z, bi):
        live = self.live_in()[bi]
        keep = set()
        for t, (x, y) in z.sums.items():
            keep.update((t, x[0], y[0]))
        z.kill(lambda t: t[1] not in live and t not in keep)

    def run(self, max_steps=4000):
        b = self.b
        z0 = Zone()
        z0.up[Z] = {}
        self.entry = {0: z0}
        work = [0]
        inq = {0}
        while work:
            self.steps += 1
            if self.steps > max_steps:
                self.gave_up = True
                break
            bi = work.pop(0)
            inq.discard(bi)
            zin = self.entry[bi]
            if zin.bottom:
                continue
            zout = self.transfer_block(bi, zin)
            if zout.bottom:
                continue
            for j, lab in b.succ(bi):
                ze = self.edge_state(zout, bi, j, lab)
                if ze.bottom:
                    continue
                ze = ze.copy() if ze is zout else ze
                self.prune(ze, j)
                cur = self.entry.get(j)
                if cur is None:
                    self.entry[j] = ze
                    changed = True
                else:
                    n = self.visits.get(j, 0)
                    old = cur.copy()
                    # a term one side never mentioned still has its implicit bounds (unsigned, length range) there
                    for tt in list(ze.up):
                        if tt != Z and tt not in cur.up:
                            self.mention(cur, (tt, 0))
                    for tt in list(cur.up):
                        if tt != Z and tt not in ze.up:
                            self.mention(ze, (tt, 0))
                    changed = cur.join(ze)
                    if changed and n >= WIDEN:
                        cur.widen_from(old)
                        cur.close()
                        cur_changed = not cur.same(old)
                        changed = cur_changed
                if changed:
                    self.visits[j] = self.visits.get(j, 0) + 1
                    if j not in inq:
                        work.append(j)
                        inq.add(j)
        return self

    def before_term(self, bi):
        zin = self.entry.get(bi)
        if zin is None:
            z = Zone(); z.bottom = True
            return z
        return self.transfer_block(bi, zin, upto_term=False)

    # ---- obligations -------------------------------------------------------------------------------------
    def prove_site(self, bi, kind, detail, t):
        """True if the panic-capable terminator of block bi cannot fail in any state reaching it; None if not modelled."""
        if self.gave_up:
            return None
        z = self.before_term(bi)
        if z.bottom:
            return True
        E = self.entails_le
        if kind == 'assert':
            if detail == 'BoundsCheck':
                ln, idx = t['o']
                return E(z, self.val(idx), self.val(ln), -1)
            if detail in ('DivisionByZero', 'RemainderByZero'):
                # the assert's operand is the dividend; the divisor is in the condition `Eq(divisor, 0)` expected false
                c = self.cond_of(t['cond'], bi) if 'l' in t['cond'] else None
                if c is None or c[0] != 'cmp' or c[1] != 'Eq' or bool(t['exp']):
                    return None
                dv = self.val(c[2])
                zero = self.val(c[3])
                if zero != (Z, 0):
                    dv, zero = zero, dv
                if zero != (Z, 0) or dv is None:
                    return None
                lo = self.lb_lf(z, dv)
                return lo is not None and lo >= 1
            if detail == 'Overflow(Sub)':
                a, c = t['o']
                sb = self.op_int_bits(a)
                if sb is None or sb[1]:
                    return None
                return E(z, self.val(c), self.val(a), 0)
            if detail in ('Overflow(Add)', 'Overflow(Mul)'):
                a, c = t['o']
                sb = self.op_int_bits(a) or self.op_int_bits(c)
                if sb is None or sb[1]:
                    return None
                ua, uc = self.ub_lf(z, self.val(a)), self.ub_lf(z, self.val(c))
                if ua is None or uc is None:
                    return False
                v = ua + uc if detail == 'Overflow(Add)' else ua * uc
                return v <= 2 ** sb[0] - 1
            if detail in ('Overflow(Shl)', 'Overflow(Shr)'):
                if len(t['o']) < 2:
                    return None
                sb = self.op_int_bits(t['o'][0])
                u = self.ub_lf(z, self.val(t['o'][1]))
                return sb is not None and u is not None and u < sb[0]
            return None
        fn = t['f'].get('fn', '') or ''
        args = t['args']
        if detail.startswith('index[') and len(args) == 2 and 'l' in args[0]:
            selfty = t['f'].get('selfty') or ''
            if not re.search(r'^\[|^Vec<|^std::vec::Vec<|Bytes|^str$|String|GenericArray|SmallVec', selfty):
                return None
            rl = self.len_term(args[0])
            rng = self.range_of(args[1])
            if rng is None or rl is None:
                return None
            kind_, s_, e_ = rng
            if kind_ == 'usize':
                return E(z, s_, rl, -1)
            if kind_ == 'RangeFull':
                return True
            if kind_ == 'RangeTo':
                return E(z, e_, rl, 0)
            if kind_ == 'RangeToInclusive':
                return E(z, e_, rl, -1)
            if kind_ == 'RangeFrom':
                return E(z, s_, rl, 0)
            if kind_ == 'Range':
                return E(z, s_, e_, 0) and E(z, e_, rl, 0)
            return None
        if detail in ('split_at', 'split_at_mut', 'split_to', 'split_off', 'advance') and len(args) == 2 and 'l' in args[0]:
            rl = self.len_term(args[0])
            return E(z, self.val(args[1]), rl, 0)
        if detail in ('copy_from_slice', 'clone_from_slice') and len(args) == 2 and 'l' in args[0] and 'l' in args[1]:
            a, c = self.len_term(args[0]), self.len_term(args[1])
            return E(z, a, c, 0) and E(z, c, a, 0)
        if detail == 'copy_to_slice' and len(args) == 2 and 'l' in args[0] and 'l' in args[1]:
            return E(z, self.len_term(args[1]), self.len_term(args[0]), 0)
        if detail in ('get_u8', 'get_u16', 'get_u32') and args and 'l' in args[0]:
            n = {'get_u8': 1, 'get_u16': 2, 'get_u32': 4}[detail]
            return E(z, (Z, n), self.len_term(args[0]), 0)
        if detail in ('remove', 'swap_remove') and len(args) == 2 and 'l' in args[0]:
            return E(z, self.val(args[1]), self.len_term(args[0]), -1)
        if detail == 'insert' and len(args) == 3 and 'l' in args[0]:
            return E(z, self.val(args[1]), self.len_term(args[0]), 0)
        return None


def analyse(b, defs, field_ty=None):
    a = Analysis(b, defs, field_ty)
    try:
        a.run()
    except RecursionError:
        a.gave_up = True
    return a
