"""Check runner: fact extraction (cached by source hash), rule evaluation, evidence, known findings."""
import os, sys, json, time, hashlib, subprocess, fcntl, glob, re, importlib, random, traceback

VERIF = os.path.dirname(os.path.dirname(os.path.abspath(__file__)))
REPO = os.environ.get('VERIF_REPO', '/repo')
CACHE = os.path.join(VERIF, '.cache')
DRIVER_DIR = os.path.join(VERIF, 'tools', 'mirfacts')
DRIVER = os.path.join(DRIVER_DIR, 'target', 'debug', 'mirfacts')

sys.path.insert(0, os.path.join(VERIF, 'engine'))
sys.path.insert(0, VERIF)
import facts as factsmod
import core

CONFIGS = {
    'default': [],
    'nodefault': ['--no-default-features'],
    'malformed': ['--features', 'malformed-artifact-compat'],
    'forwarding': ['--features', 'draft-wussler-openpgp-forwarding'],
    'largersa': ['--features', 'large-rsa'],
    'pqc': ['--features', 'draft-pqc'],
}


def sh(cmd, **kw):
    return subprocess.run(cmd, shell=isinstance(cmd, str), stdout=subprocess.PIPE, stderr=subprocess.STDOUT, text=True, **kw)


def nightly_sysroot():
    r = sh('rustc +nightly --print sysroot')
    return r.stdout.strip()


def ensure_driver():
    srcs = glob.glob(os.path.join(DRIVER_DIR, 'src', '*.rs')) + [os.path.join(DRIVER_DIR, 'Cargo.toml')]
    newest = max(os.path.getmtime(p) for p in srcs)
    if os.path.exists(DRIVER) and os.path.getmtime(DRIVER) >= newest:
        return
    env = dict(os.environ, CARGO_NET_OFFLINE='true')
    r = sh('cargo build --offline', cwd=DRIVER_DIR, env=env)
    if r.returncode != 0 or not os.path.exists(DRIVER):
        raise RuntimeError('cannot build mirfacts driver:\n' + r.stdout[-3000:])


def tree_hash(repo, config):
    h = hashlib.sha256()
    files = []
    for root, dirs, fs in os.walk(os.path.join(repo, 'src')):
        dirs.sort()
        for f in sorted(fs):
            files.append(os.path.join(root, f))
    files += [os.path.join(repo, 'Cargo.toml'), os.path.join(repo, 'Cargo.lock')]
    for p in files:
        if not os.path.exists(p):
            continue
        h.update(os.path.relpath(p, repo).encode())
        h.update(b'\0')
        with open(p, 'rb') as fh:
            h.update(fh.read())
        h.update(b'\0')
    h.update(config.encode())
    with open(DRIVER, 'rb') as fh:
        h.update(hashlib.sha256(fh.read()).digest())
    return h.hexdigest()[:24]


def extract(repo=REPO, config='default', target_dir=None):
    """Run the driver over `repo` (current working tree) and return the fact file path."""
    ensure_driver()
    os.makedirs(os.path.join(CACHE, 'facts'), exist_ok=True)
    key = tree_hash(repo, config)
    out = os.path.join(CACHE, 'facts', '%s-%s.jsonl' % (config, key))
    if os.path.exists(out) and os.path.getsize(out) > 0:
        return out
    tdir = target_dir or os.path.join(CACHE, 'target')
    os.makedirs(tdir, exist_ok=True)
    # one extraction at a time per cargo target directory (separate target directories extract in parallel)
    lock = open(os.path.join(tdir, '.verif-extract.lock'), 'w')
    fcntl.flock(lock, fcntl.LOCK_EX)
    try:
        if os.path.exists(out) and os.path.getsize(out) > 0:
            return out
        # defeat cargo's freshness cache for the analysed crate
        for fp in glob.glob(os.path.join(tdir, 'debug', '.fingerprint', 'pgp-*')):
            subprocess.run(['rm', '-rf', fp])
        import uuid
        tmp = out + '.tmp%d-%s' % (os.getpid(), uuid.uuid4().hex[:8])   # unique per extraction: parallel workers may analyse identical trees
        env = dict(os.environ)
        env.update({
            'LD_LIBRARY_PATH': nightly_sysroot() + '/lib',
            'RUSTFLAGS': '-Zmir-opt-level=0 -Awarnings',
            'RUSTC_WORKSPACE_WRAPPER': DRIVER,
            'MIRFACTS_OUT': tmp,
            'MIRFACTS_CRATE': 'pgp',
            'CARGO_TARGET_DIR': tdir,
            'CARGO_NET_OFFLINE': 'true',
        })
        cmd = ['cargo', '+nightly', 'check', '--offline', '--lib'] + CONFIGS[config]
        r = sh(cmd, cwd=repo, env=env)
        if r.returncode != 0:
            raise RuntimeError('cargo check (driver) failed on %s [%s]:\n%s' % (repo, config, r.stdout[-4000:]))
        if not os.path.exists(tmp) or os.path.getsize(tmp) == 0:
            raise RuntimeError('driver produced no fact file (cargo freshness cache?)\n' + r.stdout[-2000:])
        os.replace(tmp, out)
        # prune old fact files (keep the 12 newest)
        fs = sorted(glob.glob(os.path.join(CACHE, 'facts', '*.jsonl')), key=os.path.getmtime)
        for old in fs[:-int(os.environ.get('VERIF_FACT_KEEP', '60'))]:
            for p in (old, old + '.pickle'):
                try:
                    os.remove(p)
                except OSError:
                    pass
        return out
    finally:
        fcntl.flock(lock, fcntl.LOCK_UN)
        lock.close()


def extract_aux(crate_dir, crate_name):
    """Facts of a small auxiliary crate shipped with the framework (calibration cases), extracted with the same driver and flags."""
    ensure_driver()
    os.makedirs(os.path.join(CACHE, 'facts'), exist_ok=True)
    h = hashlib.sha256()
    for root, dirs, fs in os.walk(crate_dir):
        dirs[:] = sorted(d for d in dirs if d != 'target')
        for fn in sorted(fs):
            if fn.endswith(('.rs', '.toml')):
                h.update(fn.encode())
                with open(os.path.join(root, fn), 'rb') as fh:
                    h.update(fh.read())
    with open(DRIVER, 'rb') as fh:
        h.update(hashlib.sha256(fh.read()).digest())
    out = os.path.join(CACHE, 'facts', 'aux-%s-%s.jsonl' % (crate_name, h.hexdigest()[:24]))
    if os.path.exists(out) and os.path.getsize(out) > 0:
        return out
    tdir = os.path.join(CACHE, 'target-aux-' + crate_name)
    os.makedirs(tdir, exist_ok=True)
    lock = open(os.path.join(tdir, '.verif-extract.lock'), 'w')
    fcntl.flock(lock, fcntl.LOCK_EX)
    try:
        if os.path.exists(out) and os.path.getsize(out) > 0:
            return out
        for fp in glob.glob(os.path.join(tdir, 'debug', '.fingerprint', crate_name + '-*')):
            subprocess.run(['rm', '-rf', fp])
        import uuid
        tmp = out + '.tmp%d-%s' % (os.getpid(), uuid.uuid4().hex[:8])
        env = dict(os.environ)
        env.update({'LD_LIBRARY_PATH': nightly_sysroot() + '/lib', 'RUSTFLAGS': '-Zmir-opt-level=0 -Awarnings', 'RUSTC_WORKSPACE_WRAPPER': DRIVER,
                    'MIRFACTS_OUT': tmp, 'MIRFACTS_CRATE': crate_name, 'CARGO_TARGET_DIR': tdir, 'CARGO_NET_OFFLINE': 'true'})
        r = sh(['cargo', '+nightly', 'check', '--offline', '--lib'], cwd=crate_dir, env=env)
        if r.returncode != 0:
            raise RuntimeError('cargo check (driver) failed on %s:\n%s' % (crate_dir, r.stdout[-4000:]))
        if not os.path.exists(tmp) or os.path.getsize(tmp) == 0:
            raise RuntimeError('driver produced no fact file for %s\n%s' % (crate_dir, r.stdout[-2000:]))
        os.replace(tmp, out)
        return out
    finally:
        fcntl.flock(lock, fcntl.LOCK_UN)
        lock.close()


# ---------------------------------------------------------------------------------------------

class Ctx:
    """Collects obligations of one property run."""

    def __init__(self, prop, facts, tier, seed, config='default'):
        self.prop = prop
        self.f = facts
        self.tier = tier
        self.seed = seed
        self.config = config
        self.obs = []          # dicts
        self._bcache = {}
        self.notes = []
        self.functions = set()
        self.trusted = set()

    # body access (fail closed)
    def body(self, path, key=None):
        r = self.f.body(path)
        if r is None:
            self.missing(key or ('anchor:' + path), 'anchor function `%s` not found in the analysed crate' % path)
            return None
        self.functions.add(path)
        b = self._bcache.get(path)
        if b is None:
            b = core.B(r)
            self._bcache[path] = b
        return b

    def wrap(self, rec):
        b = self._bcache.get(rec['path'])
        if b is None:
            b = core.B(rec)
            self._bcache[rec['path']] = b
        self.functions.add(rec['path'])
        return b

    def ok(self, key, rule, desc, **detail):
        self.obs.append(dict(key=key, rule=rule, desc=desc, status='ok', detail=detail))

    def violation(self, key, rule, desc, **detail):
        self.obs.append(dict(key=key, rule=rule, desc=desc, status='violation', detail=detail))

    def missing(self, key, desc, **detail):
        self.obs.append(dict(key=key, rule='anchor', desc=desc, status='violation', detail=dict(detail, fail_closed=True)))

    def check(self, key, rule, desc, cond, **detail):
        (self.ok if cond else self.violation)(key, rule, desc, **detail)
        return cond

    def note(self, s):
        self.notes.append(s)

    def trust(self, s):
        self.trusted.add(s)

    def floor(self, key, what, count, minimum):
        """Fail closed if a selector matched fewer sites than confirmed by hand."""
        self.check(key, 'floor', '%s: matched %d, floor %d' % (what, count, minimum), count >= minimum, count=count, floor=minimum)


def load_known():
    p = os.path.join(VERIF, 'known_findings.jsonl')
    known, fixed = {}, []
    if os.path.exists(p):
        for line in open(p):
            line = line.strip()
            if not line or line.startswith('#'):
                continue
            r = json.loads(line)
            if 'fixed' in r:
                fixed.append(r)
            else:
                known[(r['property'], r['key'])] = r
    return known, fixed


def sanitize(key):
    return re.sub(r'[^A-Za-z0-9_.-]+', '_', key)[:150]


def run_property(prop, tier='quick', seed=0, replay=None):
    t0 = time.time()
    mod = importlib.import_module('rules.%s' % prop.lower())
    configs = ['default']
    if tier == 'thorough':
        configs = getattr(mod, 'THOROUGH_CONFIGS', ['default', 'nodefault', 'malformed', 'forwarding', 'largersa', 'pqc'])
    all_obs = []
    meta = dict(configs=[], functions=set(), notes=[], trusted=set(), extra={})
    fatal = None
    for cfg in configs:
        try:
            fp = extract(REPO, cfg)
            f = factsmod.load(fp)
        except Exception as e:
            fatal = 'fact extraction failed for config %s: %s' % (cfg, e)
            all_obs.append(dict(key='extract:%s' % cfg, rule='extract', desc=fatal, status='violation', detail=dict(fail_closed=True), config=cfg))
            continue
        ctx = Ctx(prop, f, tier, seed, cfg)
        try:
            mod.run(ctx)
        except Exception as e:
            tb = traceback.format_exc()
            ctx.violation('engine-error', 'engine', 'rule engine raised %r (fail closed)' % (e,), traceback=tb)
        for o in ctx.obs:
            o['config'] = cfg
        # obligations seen in several configs are keyed once (same key) unless their status differs
        all_obs.extend(ctx.obs)
        meta['configs'].append(dict(config=cfg, bodies=len(f.bodies), fact_file=os.path.basename(fp)))
        meta['functions'] |= ctx.functions
        meta['notes'] += [n for n in ctx.notes if n not in meta['notes']]
        meta['trusted'] |= ctx.trusted
        meta['extra'].update(getattr(ctx, 'extra', {}))
    # thorough extras (self-tests etc.) are run by the module if it defines them
    selftests = []
    if tier == 'thorough' and not replay and not os.environ.get('VERIF_NO_SELFTEST'):
        try:
            import selftest
            selftests = selftest.run_for(prop, seed, REPO)
        except Exception as e:
            selftests = [dict(name='selftest', ok=False, detail=traceback.format_exc())]
        for st in selftests:
            if not st.get('ok'):
                all_obs.append(dict(key='selftest:' + st['name'], rule='selftest', desc='checker self-test failed: ' + st['name'], status='violation', detail=st, config='selftest'))

    known, fixed = load_known()
    # de-duplicate by key (worst status wins)
    bykey = {}
    for o in all_obs:
        k = o['key']
        if k not in bykey or (o['status'] == 'violation' and bykey[k]['status'] != 'violation'):
            bykey[k] = o
    obs = list(bykey.values())
    if replay:
        want = json.load(open(replay)).get('key')
        obs = [o for o in obs if o['key'] == want]
        for o in obs:
            print(json.dumps(o, indent=1, default=list))
    viol = [o for o in obs if o['status'] == 'violation']
    unknown = []
    rep_dir = os.path.join(VERIF, 'reports', prop)
    os.makedirs(rep_dir, exist_ok=True)
    for o in viol:
        kf = known.get((prop, o['key']))
        if kf is not None:
            print('KNOWN-FINDING: property=%s %s [%s]' % (prop, kf.get('what', o['desc']), o['key']))
            o['known'] = True
        else:
            unknown.append(o)
    for o in unknown:
        rp = os.path.join(rep_dir, sanitize(o['key']) + '.json')
        with open(rp, 'w') as fh:
            json.dump(dict(property=prop, key=o['key'], rule=o['rule'], desc=o['desc'], detail=o['detail'], config=o.get('config')), fh, indent=1, default=list)
        print('  %s: %s' % (o['key'], o['desc']))
        d = o['detail']
        for kk in ('function', 'site', 'witness', 'missing'):
            if kk in d:
                print('      %s: %s' % (kk, d[kk]))
        print('VIOLATION property=%s replay=%s' % (prop, rp))

    # evidence
    rnd = random.Random(seed)
    oks = [o for o in obs if o['status'] == 'ok']
    samples_src = list(obs)
    rnd.shuffle(samples_src)
    samples = []
    for o in samples_src[:12]:
        samples.append(dict(key=o['key'], rule=o['rule'], desc=o['desc'], status=o['status'],
                            detail={k: v for k, v in o['detail'].items() if k in ('function', 'site', 'guards', 'sinks', 'count', 'floor', 'table', 'witness', 'missing', 'feature')}))
    nontrivial = len(set(o['key'] for o in obs if o['rule'] not in ('floor',)))
    ev = dict(
        property_id=prop,
        tier=tier,
        seed=seed,
        level='other',
        coverage=dict(
            explanation=getattr(mod, 'EXPLANATION', ''),
            obligations=len(obs),
            discharged=len(oks),
            evaluations=len(all_obs),
            distinct_nontrivial=nontrivial,
            rule='one obligation per rule instance (function x sink x guard, table cell set, sibling feature); distinct = distinct instance keys, non-trivial = not a mere count floor',
            samples=samples,
            exhaustive=True,
            functions_analysed=sorted(meta['functions']),
            n_functions_analysed=len(meta['functions']),
            configs=meta['configs'],
            known_findings=[o['key'] for o in viol if o.get('known')],
            notes=meta['notes'],
            trusted_base=sorted(meta['trusted']),
            self_tests=selftests,
            checker_cmd='./check %s --tier %s' % (prop, tier),
            **meta['extra'],
        ),
        assumptions=getattr(mod, 'ASSUMPTIONS', []),
        wall_s=round(time.time() - t0, 2),
        violations=len(unknown),
    )
    os.makedirs(os.path.join(VERIF, 'evidence'), exist_ok=True)
    evp = os.path.join(VERIF, 'evidence', '%s.json' % prop)
    with open(evp + '.tmp', 'w') as fh:
        json.dump(ev, fh, indent=1, default=list)
    os.replace(evp + '.tmp', evp)
    print('%s: %d obligations, %d discharged, %d known findings, %d violations (%.1fs, tier %s)' % (
        prop, len(obs), len(oks), len(viol) - len(unknown), len(unknown), time.time() - t0, tier))
    return 1 if unknown else 0


def main(argv):
    import argparse
    ap = argparse.ArgumentParser()
    ap.add_argument('prop')
    ap.add_argument('--tier', default=os.environ.get('VERIF_TIER', 'quick'))
    ap.add_argument('--replay', default=None)
    a = ap.parse_args(argv)
    seed = int(os.environ.get('VERIF_SEED', '0') or 0)
    tier = a.tier if a.tier in ('quick', 'thorough') else 'quick'
    return run_property(a.prop.upper(), tier, seed, a.replay)


if __name__ == '__main__':
    sys.exit(main(sys.argv[1:]))
