"""Call graph over the crate's bodies with class-hierarchy expansion of unresolved trait calls; Tarjan SCCs."""
import re
import sys


def build(f):
    bodies = f.bodies
    impl_index = {}
    for p, r in bodies.items():
        tr, nm = r.get('impl_trait'), r.get('name')
        if tr and nm:
            impl_index.setdefault((tr, nm), []).append(p)
    edges = {p: set() for p in bodies}
    for p, r in bodies.items():
        if r.get('parent') and r['parent'] in bodies:
            edges[r['parent']].add(p)
        for blk in r['blocks']:
            if blk['c']:
                continue
            t = blk['t']
            if t['k'] != 'call' or 'fn' not in t['f']:
                continue
            fn = t['f']
            if fn.get('res') in bodies:
                edges[p].add(fn['res'])
            elif fn['fn'] in bodies:
                edges[p].add(fn['fn'])
            elif fn.get('trait'):
                nm = fn['fn'].split('::')[-1]
                for q in impl_index.get((fn['trait'], nm), ()):
                    edges[p].add(q)
    return edges


def sccs(edges):
    sys.setrecursionlimit(20000)
    index = {}
    low = {}
    stack = []
    on = set()
    out = []
    counter = [0]

    def strong(v):
        # iterative Tarjan
        work = [(v, iter(edges.get(v, ())))]
        index[v] = low[v] = counter[0]; counter[0] += 1
        stack.append(v); on.add(v)
        while work:
            node, it = work[-1]
            adv = False
            for w in it:
                if w not in index:
                    index[w] = low[w] = counter[0]; counter[0] += 1
                    stack.append(w); on.add(w)
                    work.append((w, iter(edges.get(w, ()))))
                    adv = True
                    break
                elif w in on:
                    low[node] = min(low[node], index[w])
            if adv:
                continue
            work.pop()
            if work:
                low[work[-1][0]] = min(low[work[-1][0]], low[node])
            if low[node] == index[node]:
                comp = []
                while True:
                    w = stack.pop(); on.discard(w); comp.append(w)
                    if w == node:
                        break
                out.append(comp)
    for v in edges:
        if v not in index:
            strong(v)
    return out


def recursive_components(f):
    e = build(f)
    res = []
    for comp in sccs(e):
        if len(comp) > 1 or comp[0] in e.get(comp[0], ()):
            res.append(sorted(comp))
    return sorted(res)
