"""Pretty printer for fact bodies (debugging / reports)."""
import sys

def place(p):
    s = '_%d' % p['l']
    for e in p['pr']:
        if e == '*':
            s = '(*%s)' % s
        else:
            s = s + e
    return s

def operand(o):
    if 'k' in o:
        k = o['k']
        if 'v' in k:
            return 'const %s_%s' % (k['v'], k['ty'])
        if 'cdef' in k:
            return 'const %s' % k['cdef']
        return 'const<%s %s>' % (k.get('ty'), k.get('s', ''))
    if 'fn' in o:
        return 'fn %s' % o['full']
    return ('move ' if o.get('mv') else 'copy ') + place(o)

def rvalue(r):
    k = r['k']
    if k == 'use': return operand(r['o'][0])
    if k == 'ref': return '&%s %s' % (r['m'], place(r['p']))
    if k == 'rawptr': return '&raw %s' % place(r['p'])
    if k == 'cast': return '%s as %s (%s)' % (operand(r['o'][0]), r['ty'], r['ck'])
    if k == 'bin': return '%s(%s, %s)' % (r['op'], operand(r['o'][0]), operand(r['o'][1]))
    if k == 'un': return '%s(%s)' % (r['op'], operand(r['o'][0]))
    if k == 'discr': return 'discriminant(%s)' % place(r['p'])
    if k == 'agg':
        if r['ak'] == 'adt':
            return '%s::%s{%s}' % (r['adt'], r['v'], ', '.join('%s: %s' % (f, operand(o)) for f, o in zip(r['fields'], r['o'])))
        return '%s(%s)' % (r['ak'], ', '.join(operand(o) for o in r['o']))
    if k == 'copyderef': return 'copyderef %s' % place(r['p'])
    if k == 'setdiscr': return 'setdiscr %s' % r['v']
    if k == 'repeat': return '[%s; _]' % operand(r['o'][0])
    return k

def callee(f):
    if 'ind' in f: return 'indirect(%s)' % operand(f['ind'])
    s = f['full']
    if 'res' in f: s += '  => ' + f['res']
    return s

def term(t):
    k = t['k']
    if k == 'goto': return 'goto bb%d' % t['t']
    if k == 'switch':
        return 'switch(%s) [%s, else bb%d]' % (operand(t['o']), ', '.join('%d: bb%d' % (v, b) for v, b in t['targets']), t['else'])
    if k == 'call':
        return '%s = %s(%s) -> %s [uw %s]%s' % (place(t['d']), callee(t['f']), ', '.join(operand(a) for a in t['args']),
                                              'bb%d' % t['t'] if t['t'] is not None else '!', t['uw'], ' mac=%s' % t['mac'] if 'mac' in t else '')
    if k == 'assert':
        return 'assert(%s == %s, %s(%s)) -> bb%d' % (operand(t['cond']), t['exp'], t['ak'], ', '.join(operand(o) for o in t['o']), t['t'])
    if k == 'drop': return 'drop(%s) -> bb%d' % (place(t['p']), t['t'])
    return k

def body(b, out=sys.stdout, cleanup=False):
    out.write('fn %s  [%s %s:%d-%d] nargs=%d\n' % (b['path'], b['kind'], b['file'], b['lo'], b['hi'], b['nargs']))
    for i, l in enumerate(b['locals']):
        out.write('  let _%d: %s%s\n' % (i, l['ty'], '  // %s' % l['n'] if 'n' in l else ''))
    for i, blk in enumerate(b['blocks']):
        if blk['c'] and not cleanup: continue
        out.write(' bb%d%s:\n' % (i, ' (cleanup)' if blk['c'] else ''))
        for s in blk['s']:
            out.write('    %s = %s   // L%d\n' % (place(s['d']), rvalue(s['r']), s['ln']))
        out.write('    %s   // L%d\n' % (term(blk['t']), blk['t']['ln']))

if __name__ == '__main__':
    import facts, re
    f = facts.load(sys.argv[1])
    for b in f.find(sys.argv[2]):
        body(b)
        print()
