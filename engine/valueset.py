"""Value-set / interval-partition propagation for functions that branch on ONE integer input by comparing it with
constants (decoders `match octet {..}`, encoders `if len < 192 {..}`).

The input domain is partitioned by the constants the function compares the input against; one representative per
class (plus the boundary points) is propagated through the CFG following only the edges consistent with it.  Because
the function only compares the input with constants, all members of a class take the same path, so the result is
exact for the whole domain (abstract interpretation over a finite partition; nothing is executed)."""
from rules.common import single_defs, resolve_value

CMP = {
    'Lt': lambda a, b: a < b, 'Le': lambda a, b: a <= b, 'Gt': lambda a, b: a > b, 'Ge': lambda a, b: a >= b,
    'Eq': lambda a, b: a == b, 'Ne': lambda a, b: a != b,
}


class VS:
    def __init__(self, b, root_pred, domain_max):
        """root_pred(operand) -> True if the operand denotes the tracked input (e.g. param local, or a field place)."""
        self.b = b
        self.root_pred = root_pred
        self.defs = single_defs(b)
        self.domain_max = domain_max
        self._alias_cache = {}

    # -- symbolic resolution of operands: ('in', (mul, add, mask, shr))? keep simple: input or const ------------
    def is_input(self, o, depth=0):
        """Is operand the tracked input (through copies / int casts)?"""
        if depth > 8:
            return False
        if 'k' in o:
            return False
        if 'l' in o and self.root_pred(o):
            return True
        if 'l' in o and o['pr'] == ['*']:
            # deref of a single-definition reference to the root place (pattern bindings `Fixed(len)` => `*len`)
            d = self.defs.get(o['l'])
            if d is not None and d[1].get('k') != 'call':
                r = d[1]['r']
                if r['k'] == 'ref' and self.root_pred(r['p']):
                    return True
                if r['k'] == 'use' and 'l' in r['o'][0]:
                    return self.is_input(dict(r['o'][0], pr=r['o'][0]['pr'] + ['*']) if not r['o'][0]['pr'] else r['o'][0], depth + 1)
            return False
        if 'l' not in o or o['pr']:
            return False
        d = self.defs.get(o['l'])
        if d is None:
            return False
        x = d[1]
        if x.get('k') == 'call':
            # Into/From conversions between integer types keep the value
            fn = x['f'].get('fn', '')
            if fn.endswith('convert::Into::into') or fn.endswith('convert::From::from'):
                rty = x.get('rty', '')
                if rty in ('u8', 'u16', 'u32', 'u64', 'usize', 'i32', 'i64') and len(x['args']) == 1:
                    return self.is_input(x['args'][0], depth + 1)
            return False
        r = x['r']
        if r['k'] == 'use':
            return self.is_input(r['o'][0], depth + 1)
        if r['k'] == 'cast' and r['ck'] == 'IntToInt':
            return self.is_input(r['o'][0], depth + 1)
        if r['k'] == 'copyderef' or r['k'] == 'ref':
            return False
        return False

    def const_of(self, o):
        k, v = resolve_value(self.b, o, self.defs)
        if k == 'const':
            return v
        return None

    def constants(self):
        """All constants the input is compared with (switch values and comparison operands)."""
        cs = set()
        for i, t in self.b.switches():
            if self.is_input(t['o']):
                cs.update(v for v, _ in t['targets'])
            else:
                p = self.predicate(t['o'])
                if p:
                    cs.update(p[2])
        return cs

    def predicate(self, o, depth=0):
        """If bool operand o is cmp(input, const) (possibly negated, or a range-contains) return (fn, desc, consts)."""
        if depth > 6 or 'l' not in o or o['pr']:
            return None
        d = self.defs.get(o['l'])
        if d is None:
            return None
        x = d[1]
        if x.get('k') == 'call':
            return None
        r = x['r']
        if r['k'] == 'use':
            return self.predicate(r['o'][0], depth + 1)
        if r['k'] == 'un' and r['op'] == 'Not':
            p = self.predicate(r['o'][0], depth + 1)
            if p:
                f = p[0]
                return (lambda v, f=f: not f(v), 'not ' + p[1], p[2])
            return None
        if r['k'] == 'bin' and r['op'] in CMP:
            a, c = r['o']
            op = CMP[r['op']]
            if self.is_input(a):
                cv = self.const_of(c)
                if cv is not None:
                    return (lambda v, op=op, cv=cv: op(v, cv), '%s in,%d' % (r['op'], cv), {cv})
            if self.is_input(c):
                av = self.const_of(a)
                if av is not None:
                    return (lambda v, op=op, av=av: op(av, v), '%s %d,in' % (r['op'], av), {av})
        return None

    def representatives(self):
        cs = sorted(self.constants())
        reps = set([0, self.domain_max])
        for c in cs:
            for v in (c - 1, c, c + 1):
                if 0 <= v <= self.domain_max:
                    reps.add(v)
        # midpoints
        s = sorted(reps)
        for a, c in zip(s, s[1:]):
            if c - a > 1:
                reps.add((a + c) // 2)
        return sorted(reps)

    def trace(self, v, start=0):
        """Blocks visited for input value v (all consistent paths; non-input branches fan out)."""
        seen = set()
        st = [start]
        while st:
            i = st.pop()
            if i in seen:
                continue
            seen.add(i)
            blk = self.b.blocks[i]
            t = blk['t']
            succ = [j for j, _ in self.b.succ(i)]
            if t['k'] == 'switch':
                if self.is_input(t['o']):
                    tgt = None
                    for val, bb in t['targets']:
                        if val == v:
                            tgt = bb
                    succ = [tgt if tgt is not None else t['else']]
                else:
                    p = self.predicate(t['o'])
                    if p:
                        res = 1 if p[0](v) else 0
                        tgt = None
                        for val, bb in t['targets']:
                            if val == res:
                                tgt = bb
                        succ = [tgt if tgt is not None else t['else']]
            st.extend(succ)
        return seen

    def classify(self, outcome):
        """Map every representative to outcome(trace) and merge consecutive equal outcomes into intervals.
        Returns list of (lo, hi, outcome) covering [0, domain_max]."""
        reps = self.representatives()
        res = [(v, outcome(self.trace(v), v)) for v in reps]
        out = []
        for v, o in res:
            if out and out[-1][2] == o:
                out[-1] = (out[-1][0], v, o)
            else:
                out.append((v, v, o))
        # extend intervals to be contiguous (classes between representatives are uniform by construction)
        fixed = []
        for k, (lo, hi, o) in enumerate(out):
            nlo = lo if k == 0 else fixed[-1][1] + 1
            fixed.append((nlo, hi, o))
        if fixed:
            fixed[-1] = (fixed[-1][0], self.domain_max, fixed[-1][2])
        return fixed


def param_root(n):
    def pred(o):
        return o.get('l') == n and not o['pr']
    return pred


def field_root(suffix):
    def pred(o):
        return bool(o.get('pr')) and o['pr'][-1].endswith(suffix)
    return pred
