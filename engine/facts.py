"""Load the mirfacts JSONL fact file and index it."""
import json, re, pickle, os

_IMPL_RX = re.compile(r'(?:[A-Za-z_][A-Za-z0-9_]*::)*<impl ([^<>]*(?:<[^<>]*>)?[^<>]*)>::')


def norm_path(p):
    """`mod::<impl a::B>::m` -> `a::B::m` (inherent impls written in another module); trait impls untouched."""
    if '<impl ' not in p:
        return p
    def rep(m):
        inner = m.group(1)
        if ' for ' in inner:
            return m.group(0)
        return inner + '::'
    return _IMPL_RX.sub(rep, p)


def _norm_body(r):
    r['path'] = norm_path(r['path'])
    if 'parent' in r:
        r['parent'] = norm_path(r['parent'])
    for blks in [r['blocks']] + list(r.get('promoted') or []):
        for blk in blks:
            for st in blk['s']:
                rv = st['r']
                if rv.get('k') == 'agg' and rv.get('ak') in ('closure', 'coroutine') and 'adt' in rv:
                    rv['adt'] = norm_path(rv['adt'])
            t = blk['t']
            if t['k'] == 'call' and 'fn' in t['f']:
                f = t['f']
                f['fn'] = norm_path(f['fn'])
                if 'res' in f:
                    f['res'] = norm_path(f['res'])


class Facts:
    def __init__(self, path):
        self.path = path
        self.bodies = {}      # def path -> body record
        self.adts = {}
        self.impls = []
        self.traits = {}
        self.consts = {}
        self.meta = None
        with open(path) as fh:
            for line in fh:
                r = json.loads(line)
                k = r['rec']
                if k == 'body':
                    _norm_body(r)
                    self.bodies[r['path']] = r
                elif k == 'adt':
                    self.adts[r['path']] = r
                elif k == 'impl':
                    self.impls.append(r)
                elif k == 'trait':
                    self.traits[r['path']] = r
                elif k == 'const':
                    self.consts[r['path']] = r
                elif k == 'meta':
                    self.meta = r
        if self.meta is None:
            raise RuntimeError('fact file truncated: no meta record')
        if self.meta['bodies'] != len(self.bodies):
            # closures of generic fns can share a def path string only if the driver is broken
            pass

    # -- lookup helpers ---------------------------------------------------------------------
    def body(self, path):
        return self.bodies.get(path)

    def find(self, pattern):
        """Bodies whose def path matches the regex (fullmatch on path with generics stripped, or search)."""
        rx = re.compile(pattern)
        return [b for p, b in self.bodies.items() if rx.search(p)]

    def closures_of(self, path):
        return [b for b in self.bodies.values() if b.get('parent') == path and b['kind'] == 'Closure']


def strip_generics(path):
    """`a::B::<T>::c` -> `a::B::c` ; `<impl at ..>` kept."""
    out = []
    depth = 0
    i = 0
    while i < len(path):
        c = path[i]
        if c == '<' and (i >= 2 and path[i-2:i] == '::'):
            # generic arg list ::<...>
            depth = 1
            i += 1
            while i < len(path) and depth:
                if path[i] == '<': depth += 1
                elif path[i] == '>': depth -= 1
                i += 1
            # remove the trailing '::' we already emitted
            if out[-2:] == [':', ':']:
                out = out[:-2]
            continue
        out.append(c)
        i += 1
    return ''.join(out)


def load(path):
    cache = path + '.pickle'
    if os.path.exists(cache) and os.path.getmtime(cache) >= os.path.getmtime(path):
        try:
            with open(cache, 'rb') as fh:
                return pickle.load(fh)
        except Exception:
            pass
    f = Facts(path)
    try:
        import threading
        tmp = cache + '.tmp%d-%d' % (os.getpid(), threading.get_ident())
        with open(tmp, 'wb') as fh:
            pickle.dump(f, fh, protocol=pickle.HIGHEST_PROTOCOL)
        os.replace(tmp, cache)
    except Exception:
        pass
    return f
