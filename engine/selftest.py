"""Checker self-tests for the thorough tier: every repaired defect is re-introduced (reverse patch of the `fix:` commit) and
every seeded change that a property is expected to catch is applied, each on a scratch copy of /repo outside /repo and
/verif; the property's rules must then report the expected instance.  A self-test that cannot be set up (patch no longer
applies) is recorded as skipped, never as passed."""
import os, json, shutil, subprocess, tempfile, importlib, glob

VERIF = os.path.dirname(os.path.dirname(os.path.abspath(__file__)))
EXPECT = os.path.join(VERIF, 'selftest', 'expected.json')


def sh(cmd, **kw):
    return subprocess.run(cmd, shell=isinstance(cmd, str), stdout=subprocess.PIPE, stderr=subprocess.STDOUT, text=True, **kw)


def scratch_copy(repo):
    base = os.environ.get('VERIF_SCRATCH', '/var/tmp')
    d = tempfile.mkdtemp(prefix='verif-scratch-', dir=base)
    r = sh(['rsync', '-a', '--exclude', 'target', '--exclude', '.git', repo.rstrip('/') + '/', d + '/'])
    if r.returncode != 0:
        shutil.rmtree(d, ignore_errors=True)
        raise RuntimeError('rsync failed: ' + r.stdout[-500:])
    return d


def violations_on(prop, repo_dir, config='default', target_dir=None):
    import run, facts as factsmod
    mod = importlib.import_module('rules.%s' % prop.lower())
    fp = run.extract(repo_dir, config, target_dir=target_dir)
    f = factsmod.load(fp)
    ctx = run.Ctx(prop, f, 'thorough', 0, config)
    mod.run(ctx)
    # the scratch fact file (keyed by content hash, of no further use) is removed by the caller once all workers are done:
    # two self-tests may produce identical trees and then share it
    _SCRATCH_FACTS.add(fp)
    return [o['key'] for o in ctx.obs if o['status'] == 'violation']


_SCRATCH_FACTS = set()


def _one(prop, t, repo, target_dir):
    name = t['name']
    d = None
    try:
        d = scratch_copy(repo)
        if t['kind'] == 'revert-fix':
            # a repair may consist of several commits (newest first, comma separated): reverse them in that order
            p = None
            for commit in t['commit'].split(','):
                # `<hash>:<path>` reverses only the part of the repair that touches <path> (the rest was reshaped by a later repair)
                commit, _, only = commit.partition(':')
                diff = sh(['git', '-C', repo, 'show', '--format=', commit, '--', only or 'src'])
                if diff.returncode != 0 or not diff.stdout.strip():
                    return dict(name=name, ok=True, skipped=True, detail='fix commit %s not found in %s' % (commit, repo))
                p = subprocess.run(['patch', '-R', '-p1', '--no-backup-if-mismatch', '-s'], input=diff.stdout, text=True, cwd=d, stdout=subprocess.PIPE, stderr=subprocess.STDOUT)
                if p.returncode != 0:
                    break
        else:
            diff = open(t['patch'] if t['kind'] == 'benign' else os.path.join(VERIF, 'seeded', t['seed'], 'patch.diff')).read()
            p = subprocess.run(['patch', '-p1', '--no-backup-if-mismatch', '-s'], input=diff, text=True, cwd=d, stdout=subprocess.PIPE, stderr=subprocess.STDOUT)
        if p.returncode != 0:
            return dict(name=name, ok=True, skipped=True, detail='patch does not apply on the current tree: ' + p.stdout[-200:])
        keys = violations_on(prop, d, target_dir=target_dir)
        import run
        known, _ = run.load_known()
        keys = [k for k in keys if (prop, k) not in known]
        if t['kind'] == 'benign':
            return dict(name=name, ok=not keys, kind='benign', expected=[], reported=keys[:3],
                        detail='silent on a behaviour-preserving variant' if not keys else 'FALSE ALARM on a behaviour-preserving variant')
        want = t['expect'][prop]
        hit = [k for k in keys if any(w == '*' or w in k for w in want)]
        return dict(name=name, ok=bool(hit), kind=t['kind'], expected=want, reported=hit[:3] or keys[:3],
                    detail='checker fires on the re-introduced defect' if hit else 'checker did NOT report the expected instance')
    except Exception as e:
        import traceback
        return dict(name=name, ok=False, detail='self-test error: %r' % (e,), trace=traceback.format_exc()[-1200:])
    finally:
        if d:
            shutil.rmtree(d, ignore_errors=True)


def run_for(prop, seed=0, repo='/repo', jobs=None):
    """Self-tests of one property, run on `jobs` workers; every worker has its own cargo target directory (a copy of the
    warm one under .cache) outside /repo and /verif, removed at the end."""
    try:
        exp = json.load(open(EXPECT))
    except Exception as e:
        return [dict(name='expected.json', ok=False, detail='cannot read %s: %s' % (EXPECT, e))]
    tests = [t for t in exp['tests'] if prop in t['expect']]
    # behaviour-preserving variants (selftest/benign/*.diff): the property's rules must stay silent on each of them
    for bp in sorted(glob.glob(os.path.join(VERIF, 'selftest', 'benign', '*.diff'))):
        tests.append(dict(name='benign:' + os.path.basename(bp)[:-5], kind='benign', patch=bp, expect={prop: []}))
    if not tests:
        return []
    import queue, threading
    from concurrent.futures import ThreadPoolExecutor
    jobs = jobs or int(os.environ.get('VERIF_SELFTEST_JOBS', '5'))
    jobs = max(1, min(jobs, len(tests)))
    base = os.environ.get('VERIF_SCRATCH', '/var/tmp')
    warm = os.path.join(VERIF, '.cache', 'target')
    tdirs = queue.Queue()
    made = []
    for w in range(jobs):
        td = os.path.join(base, 'verif-selftest-target-%d-%d' % (os.getpid(), w))
        if os.path.isdir(warm):
            subprocess.run(['cp', '-a', warm, td])
        else:
            os.makedirs(td, exist_ok=True)
        made.append(td)
        tdirs.put(td)

    def work(t):
        td = tdirs.get()
        try:
            return _one(prop, t, repo, td)
        finally:
            tdirs.put(td)
    try:
        with ThreadPoolExecutor(max_workers=jobs) as ex:
            out = list(ex.map(work, tests))
        # an infrastructure error (not a verdict) is retried once, sequentially
        for k, (t, r) in enumerate(zip(tests, out)):
            if not r.get('ok') and str(r.get('detail', '')).startswith('self-test error'):
                r2 = work(t)
                r2['retried_after'] = r.get('detail')
                out[k] = r2
    finally:
        for td in made:
            shutil.rmtree(td, ignore_errors=True)
        # (a sweep over all properties may keep them: the same mutated trees are analysed again for the next property)
        for fp in ([] if os.environ.get('VERIF_KEEP_SCRATCH_FACTS') else list(_SCRATCH_FACTS)):
            for p in (fp, fp + '.pickle'):
                try:
                    os.remove(p)
                except OSError:
                    pass
        _SCRATCH_FACTS.clear()
    return out
