"""Checker self-tests for the thorough tier: every repaired defect is re-introduced (reverse patch of the `fix:` commit) and
every seeded change that a property is expected to catch is applied, each on a scratch copy of /repo outside /repo and
/verif; the property's rules must then report the expected instance.  A self-test that cannot be set up (patch no longer
applies) is recorded as skipped, never as passed."""
import os, json, shutil, subprocess, tempfile, importlib, glob

VERIF = os.path.dirname(os.path.dirname(os.path.abspath(__file__)))
EXPECT = os.path.join(VERIF, 'selftest', 'expected.json')


def sh(cmd, **kw):
    return subprocess.run(cmd, shell=isinstance(cmd, str), stdout=subprocess.PIPE, stderr=subprocess.STDOUT, text=True, **kw)


def scratch_copy(repo):
    base = os.environ.get('VERIF_SCRATCH', '/var/tmp')
    d = tempfile.mkdtemp(prefix='verif-scratch-', dir=base)
    r = sh(['rsync', '-a', '--exclude', 'target', '--exclude', '.git', repo.rstrip('/') + '/', d + '/'])
    if r.returncode != 0:
        shutil.rmtree(d, ignore_errors=True)
        raise RuntimeError('rsync failed: ' + r.stdout[-500:])
    return d


def violations_on(prop, repo_dir, config='default'):
    import run, facts as factsmod
    mod = importlib.import_module('rules.%s' % prop.lower())
    fp = run.extract(repo_dir, config)
    f = factsmod.load(fp)
    ctx = run.Ctx(prop, f, 'thorough', 0, config)
    mod.run(ctx)
    # remove the scratch fact file again (it is keyed by content hash and of no further use)
    for p in (fp, fp + '.pickle'):
        try:
            os.remove(p)
        except OSError:
            pass
    return [o['key'] for o in ctx.obs if o['status'] == 'violation']


def run_for(prop, seed=0, repo='/repo'):
    try:
        exp = json.load(open(EXPECT))
    except Exception as e:
        return [dict(name='expected.json', ok=False, detail='cannot read %s: %s' % (EXPECT, e))]
    tests = [t for t in exp['tests'] if prop in t['expect']]
    out = []
    for t in tests:
        name = t['name']
        d = None
        try:
            d = scratch_copy(repo)
            if t['kind'] == 'revert-fix':
                diff = sh(['git', '-C', repo, 'show', '--format=', t['commit'], '--', 'src'])
                if diff.returncode != 0 or not diff.stdout.strip():
                    out.append(dict(name=name, ok=True, skipped=True, detail='fix commit %s not found in %s' % (t['commit'], repo)))
                    continue
                p = subprocess.run(['patch', '-R', '-p1', '--no-backup-if-mismatch', '-s'], input=diff.stdout, text=True, cwd=d, stdout=subprocess.PIPE, stderr=subprocess.STDOUT)
            else:
                diff = open(os.path.join(VERIF, 'seeded', t['seed'], 'patch.diff')).read()
                p = subprocess.run(['patch', '-p1', '--no-backup-if-mismatch', '-s'], input=diff, text=True, cwd=d, stdout=subprocess.PIPE, stderr=subprocess.STDOUT)
            if p.returncode != 0:
                out.append(dict(name=name, ok=True, skipped=True, detail='patch does not apply on the current tree: ' + p.stdout[-200:]))
                continue
            keys = violations_on(prop, d)
            import run
            known, _ = run.load_known()
            keys = [k for k in keys if (prop, k) not in known]
            want = t['expect'][prop]
            hit = [k for k in keys if any(w == '*' or w in k for w in want)]
            out.append(dict(name=name, ok=bool(hit), kind=t['kind'], expected=want, reported=hit[:3] or keys[:3],
                            detail='checker fires on the re-introduced defect' if hit else 'checker did NOT report the expected instance'))
        except Exception as e:
            out.append(dict(name=name, ok=False, detail='self-test error: %r' % (e,)))
        finally:
            if d:
                shutil.rmtree(d, ignore_errors=True)
    return out
