#!/usr/bin/env python3
"""Development probe: how many R-panic sites does the zone analysis prove?  zone_probe.py [regex] [-v]"""
import sys, time, glob, collections, re
sys.path.insert(0, '/verif/engine'); sys.path.insert(0, '/verif')
import run, facts, core, zones
from rules import panics
from rules.common import single_defs
f = facts.load(run.extract(run.REPO, 'default'))
rx = re.compile(sys.argv[1]) if len(sys.argv) > 1 and not sys.argv[1].startswith('-') else None
verbose = '-v' in sys.argv
ft = zones.field_table(f)
base = panics.load_baseline()
t0 = time.time()
tot = collections.Counter()
bykind = collections.Counter()
slow = []
for p, r in sorted(f.bodies.items()):
    if panics.skip_body(p, r) or (rx and not rx.search(p)):
        continue
    b = core.B(r)
    ks = panics.keyed_sites(b)
    if not ks:
        continue
    defs = single_defs(b); cmps = panics.all_cmps(b, defs); dom = b.dominators()
    todo = [(key, i, kind, detail, t) for key, i, kind, detail, t in ks if not panics.discharge(b, i, kind, detail, t, defs, cmps, dom)]
    tot['sites'] += len(ks); tot['tactic'] += len(ks) - len(todo)
    if not todo:
        continue
    t1 = time.time()
    a = zones.analyse(b, defs, ft.get)
    dt = time.time() - t1
    if dt > 0.5: slow.append((round(dt, 2), p, a.steps, b.n))
    if a.gave_up: tot['gave_up_fns'] += 1
    for key, i, kind, detail, t in todo:
        try:
            v = a.prove_site(i, kind, detail, t)
        except Exception as e:
            v = None; tot['exc'] += 1
            if verbose: print('EXC', key, repr(e))
        tot['todo'] += 1
        if v is True:
            tot['proved'] += 1; bykind[detail] += 1
            if verbose: print('PROVED', key)
        elif v is False:
            tot['unproved'] += 1
            if verbose: print('  open ', key)
        else:
            tot["n/a"] += 1; bykind["NA:"+detail] += 1
print(dict(tot), 'time %.1fs' % (time.time() - t0))
print(bykind.most_common())
print(sorted(slow)[-8:])
