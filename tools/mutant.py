#!/usr/bin/env python3
"""Ad-hoc mutant check on a SCRATCH copy of /repo: mutant.py <relative file> <old> <new> [PROP ...]  (exact, unique string replace)."""
import sys, os, json, importlib, shutil, subprocess
sys.path.insert(0, '/verif/engine'); sys.path.insert(0, '/verif')
import run, facts, selftest
rel, old, new = sys.argv[1:4]
props = sys.argv[4:] or [c['property_id'] for c in json.load(open('/verif/MANIFEST.json'))['checks']]
d = selftest.scratch_copy('/repo')
td = '/var/tmp/verif-mutant-target'
if not os.path.isdir(td):
    subprocess.run(['cp', '-a', '/verif/.cache/target', td])
try:
    p = os.path.join(d, rel)
    s = open(p).read()
    assert s.count(old) == 1, 'pattern occurs %d times' % s.count(old)
    open(p, 'w').write(s.replace(old, new))
    try:
        fp = run.extract(d, 'default', target_dir=td)
    except Exception as e:
        print('BUILD FAILED', str(e)[-500:]); sys.exit(2)
    f = facts.load(fp)
    known, _ = run.load_known()
    any_ = False
    for pr in props:
        mod = importlib.import_module('rules.%s' % pr.lower())
        ctx = run.Ctx(pr, f, 'quick', 0)
        mod.run(ctx)
        v = [o['key'] for o in ctx.obs if o['status'] == 'violation' and (pr, o['key']) not in known]
        if v:
            any_ = True
            print(pr, [k[:100] for k in v[:4]])
    print('CAUGHT' if any_ else 'silent')
    for x in (fp, fp + '.pickle'):
        try: os.remove(x)
        except OSError: pass
finally:
    shutil.rmtree(d, ignore_errors=True)
