#!/usr/bin/env python3
"""try_patch.py <patch.diff> ...: apply each patch to a scratch copy of /repo and print which rule instances fire beyond the unchanged tree."""
import sys, os, json, shutil, subprocess, importlib
sys.path.insert(0, '/verif/engine'); sys.path.insert(0, '/verif')
import run, facts, selftest
props = [c['property_id'] for c in json.load(open('/verif/MANIFEST.json'))['checks']]
known, _ = run.load_known()
def keys(repo, td):
    f = facts.load(run.extract(repo, 'default', target_dir=td))
    out = {}
    for p in props:
        mod = importlib.import_module('rules.%s' % p.lower())
        ctx = run.Ctx(p, f, 'quick', 0)
        try:
            mod.run(ctx)
        except Exception as e:
            out[p] = ['ENGINE-ERROR %r' % (e,)]; continue
        out[p] = sorted(o['key'] for o in ctx.obs if o['status'] == 'violation' and (p, o['key']) not in known)
    return out
td = '/var/tmp/verif-try-target'
if not os.path.isdir(td):
    subprocess.run(['cp', '-a', '/verif/.cache/target', td])
base = keys('/repo', '/verif/.cache/target')
for patch in sys.argv[1:]:
    d = selftest.scratch_copy('/repo')
    try:
        p = subprocess.run(['patch', '-p1', '-s', '--no-backup-if-mismatch'], input=open(patch).read(), text=True, cwd=d, stdout=subprocess.PIPE, stderr=subprocess.STDOUT)
        if p.returncode:
            print(patch, 'PATCH-FAILS', p.stdout[-150:]); continue
        try:
            k = keys(d, td)
        except Exception as e:
            print(patch, 'BUILD-FAILS', str(e)[-300:]); continue
        fired = {pp: [x for x in ks if x not in base.get(pp, [])] for pp, ks in k.items()}
        fired = {pp: ks for pp, ks in fired.items() if ks}
        print(patch.replace('/tmp/seedwork/', ''), 'CAUGHT' if fired else 'missed', json.dumps({pp: [x[:100] for x in ks[:3]] for pp, ks in fired.items()}))
    finally:
        shutil.rmtree(d, ignore_errors=True)
