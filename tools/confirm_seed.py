#!/usr/bin/env python3
"""Confirm a seeded change delivered by a sub-agent, in a scratch worktree of /repo (never /repo itself):
   the patched tree builds, the unedited suite passes with it, the demonstration fails with it and passes without it.
   On success the seed is stored as /verif/seeded/<name>/{patch.diff,demo.rs,meta.json,confirm.json}.
   Usage: confirm_seed.py <name> <patch.diff> <demo.rs> <meta.json> [--jobs N]"""
import json, os, shutil, subprocess, sys, tempfile, re

V = '/verif'


def sh(cmd, cwd, env=None, timeout=3600):
    e = dict(os.environ); e.update(env or {})
    p = subprocess.run(cmd, shell=True, cwd=cwd, env=e, stdout=subprocess.PIPE, stderr=subprocess.STDOUT, text=True, timeout=timeout)
    return p.returncode, p.stdout


def main():
    name, patch, demo, meta = sys.argv[1:5]
    jobs = '6'
    if '--jobs' in sys.argv:
        jobs = sys.argv[sys.argv.index('--jobs') + 1]
    base = subprocess.check_output(['git', '-C', '/repo', 'rev-parse', 'HEAD'], text=True).strip()
    wt = tempfile.mkdtemp(prefix='verif-confirm-%s-' % name, dir='/var/tmp')
    os.rmdir(wt)
    subprocess.run(['git', '-C', '/repo', 'worktree', 'add', '--detach', wt, 'HEAD'], check=True, capture_output=True)
    env = {'CARGO_NET_OFFLINE': 'true', 'CARGO_TARGET_DIR': wt + '/target'}
    res = {'name': name, 'base': base}
    try:
        tname = 'seed_demo_%s' % re.sub(r'\W', '_', name.lower())
        shutil.copy(demo, '%s/tests/%s.rs' % (wt, tname))
        demo_cmd = 'cargo test --offline -j %s --test %s -- --test-threads 2' % (jobs, tname)
        rc0, out0 = sh(demo_cmd, wt, env)
        res['demo_exit_without_patch'] = rc0
        rc, out = sh('git apply --whitespace=nowarn %s' % os.path.abspath(patch), wt)
        if rc != 0:
            res['error'] = 'patch does not apply: ' + out[-300:]
            res['confirmed'] = False
            print(json.dumps(res, indent=1)); return 1
        rc1, out1 = sh(demo_cmd, wt, env)
        res['demo_exit_with_patch'] = rc1
        res['demo_tail_with_patch'] = out1[-600:]
        os.remove('%s/tests/%s.rs' % (wt, tname))
        rc2, out2 = sh('cargo nextest run --workspace --no-fail-fast --offline --test-threads %s 2>&1 | tail -40' % jobs, wt, env, timeout=5400)
        summ = [l for l in out2.splitlines() if 'Summary' in l]
        res['suite_with_patch'] = summ[-1].strip() if summ else out2[-300:]
        ok_suite = bool(summ) and ' failed' not in summ[-1] and 'passed' in summ[-1]
        res['confirmed'] = (rc0 == 0 and rc1 != 0 and ok_suite)
        if rc0 != 0:
            res['demo_tail_without_patch'] = out0[-600:]
    finally:
        subprocess.run(['git', '-C', '/repo', 'worktree', 'remove', '--force', wt], capture_output=True)
        shutil.rmtree(wt, ignore_errors=True)
    if res['confirmed']:
        d = '%s/seeded/%s' % (V, name)
        os.makedirs(d, exist_ok=True)
        shutil.copy(patch, d + '/patch.diff'); shutil.copy(demo, d + '/demo.rs'); shutil.copy(meta, d + '/meta.json')
        res.pop('demo_tail_with_patch', None)
        json.dump(res, open(d + '/confirm.json', 'w'), indent=1)
    print(json.dumps(res, indent=1))
    return 0 if res['confirmed'] else 1


if __name__ == '__main__':
    sys.exit(main())
