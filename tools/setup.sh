#!/bin/sh
# Build the framework offline from files on disk: the mirfacts driver, and warm the dependency artefacts
# of /repo (nightly check) so that per-property checks only re-analyse crate `pgp`.
set -e
cd "$(dirname "$0")/.."
export CARGO_NET_OFFLINE=true
(cd tools/mirfacts && cargo build --offline 2>&1 | tail -3)
if [ -d tools/serlen ]; then (cd tools/serlen && cargo build --offline --release 2>&1 | tail -3); fi
/usr/bin/python3 - <<'PY'
import sys
sys.path.insert(0, 'engine')
import run
p = run.extract(run.REPO, 'default')
print('facts:', p)
PY
