#!/usr/bin/env python3
"""Apply every seeded patch to /repo in turn, run all claimed checks, revert; print which checks fire (beyond the unchanged-tree baseline)."""
import json, os, subprocess, sys, glob
V = '/verif'
m = json.load(open(V + '/MANIFEST.json'))
props = [c['property_id'] for c in m['checks']]
seeds = sorted(glob.glob(V + '/seeded/*/patch.diff'))
only = sys.argv[1:]
def run(p):
    r = subprocess.run([V + '/check', p], capture_output=True, text=True)
    return sorted(set(l.split('replay=')[1].split('/')[-1].replace('.json', '') for l in r.stdout.splitlines() if l.startswith('VIOLATION')))
assert not subprocess.run(['git', '-C', '/repo', 'status', '--short', '--untracked-files=no'], capture_output=True, text=True).stdout.strip(), '/repo dirty'
base = {p: run(p) for p in props}
res = {}
for s in seeds:
    name = s.split('/')[-2]
    if only and name not in only:
        continue
    a = subprocess.run(['git', '-C', '/repo', 'apply', '--3way', s], capture_output=True, text=True)
    if a.returncode != 0:
        a = subprocess.run(['git', '-C', '/repo', 'apply', s], capture_output=True, text=True)
    if a.returncode != 0:
        res[name] = 'PATCH-FAILS'
        subprocess.run(['git', '-C', '/repo', 'checkout', '--', '.'])
        subprocess.run(['git', '-C', '/repo', 'reset', '-q'])
        print(name, 'PATCH-FAILS', a.stderr[:200])
        continue
    fired = {}
    for p in props:
        v = [x for x in run(p) if x not in base[p]]
        if v:
            fired[p] = v
    subprocess.run(['git', '-C', '/repo', 'reset', '-q'])
    subprocess.run(['git', '-C', '/repo', 'checkout', '--', '.'])
    res[name] = fired
    print(name, 'CAUGHT' if fired else 'missed', json.dumps(fired))
try:
    old = json.load(open(V + '/seeded/matrix.json'))
except Exception:
    old = {}
old.update(res)
json.dump(old, open(V + '/seeded/matrix.json', 'w'), indent=1, sort_keys=True)
