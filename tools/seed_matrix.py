#!/usr/bin/env python3
"""Apply every seeded patch to a SCRATCH copy of /repo (never /repo itself), run all claimed property rules on it and record
which rules fire beyond the unchanged-tree result.  Usage: seed_matrix.py [-j N] [seed ...]"""
import json, os, subprocess, sys, glob, shutil, tempfile
from concurrent.futures import ProcessPoolExecutor
V = '/verif'
sys.path.insert(0, V + '/engine'); sys.path.insert(0, V)


def props():
    return [c['property_id'] for c in json.load(open(V + '/MANIFEST.json'))['checks']]


def keys_on(repo_dir, target_dir):
    import run, facts as factsmod, importlib
    fp = run.extract(repo_dir, 'default', target_dir=target_dir)
    f = factsmod.load(fp)
    known, _ = run.load_known()
    out = {}
    for p in props():
        mod = importlib.import_module('rules.%s' % p.lower())
        ctx = run.Ctx(p, f, 'quick', 0)
        try:
            mod.run(ctx)
        except Exception as e:
            out[p] = ['ENGINE-ERROR %r' % (e,)]
            continue
        out[p] = sorted(o['key'] for o in ctx.obs if o['status'] == 'violation' and (p, o['key']) not in known)
    if repo_dir != '/repo':
        for x in (fp, fp + '.pickle'):
            try:
                os.remove(x)
            except OSError:
                pass
    return out


def one(args):
    name, worker = args
    import selftest
    tdir = '/var/tmp/verif-matrix-target-%d' % worker
    if not os.path.isdir(tdir):
        subprocess.run(['cp', '-a', V + '/.cache/target', tdir])
    d = selftest.scratch_copy('/repo')
    try:
        diff = open('%s/seeded/%s/patch.diff' % (V, name)).read()
        p = subprocess.run(['patch', '-p1', '--no-backup-if-mismatch', '-s'], input=diff, text=True, cwd=d, stdout=subprocess.PIPE, stderr=subprocess.STDOUT)
        if p.returncode != 0:
            return name, 'PATCH-FAILS: ' + p.stdout[-150:]
        return name, keys_on(d, tdir)
    except Exception as e:
        return name, 'ERROR %r' % (e,)
    finally:
        shutil.rmtree(d, ignore_errors=True)


def main():
    argv = sys.argv[1:]
    jobs = 6
    if argv[:1] == ['-j']:
        jobs = int(argv[1]); argv = argv[2:]
    seeds = sorted(os.path.basename(os.path.dirname(p)) for p in glob.glob(V + '/seeded/*/patch.diff'))
    if argv:
        seeds = [s for s in seeds if s in argv]
    base = keys_on('/repo', V + '/.cache/target')
    res = {}
    with ProcessPoolExecutor(max_workers=jobs) as ex:
        for name, r in ex.map(one, [(s, i % jobs) for i, s in enumerate(seeds)]):
            if isinstance(r, str):
                res[name] = r
                print(name, r)
                continue
            fired = {p: [k for k in ks if k not in base.get(p, [])] for p, ks in r.items()}
            fired = {p: ks for p, ks in fired.items() if ks}
            res[name] = fired
            print(name, 'CAUGHT' if fired else 'missed', json.dumps({p: [k[:90] for k in ks[:2]] for p, ks in fired.items()}))
    try:
        old = json.load(open(V + '/seeded/matrix.json'))
    except Exception:
        old = {}
    old.update(res)
    json.dump(old, open(V + '/seeded/matrix.json', 'w'), indent=1, sort_keys=True)
    for w in range(jobs):
        shutil.rmtree('/var/tmp/verif-matrix-target-%d' % w, ignore_errors=True)


if __name__ == '__main__':
    main()
