#!/usr/bin/env python3
"""Generate selftest/expected.json: revert-fix self-tests (hand-maintained table below) + seeded changes the matrix says are caught."""
import json, os
V = '/verif'
REVERTS = [
    ('F5-usage255', 'f59daae', {'C08': ['S05-4:usage-to-params'], 'C05': ['S05-4:usage-to-params']}),
    ('F9-backsig-secret-subkey', '18e3c00', {'C15': ['S02-6:backsig:composed::signed_key::secret'], 'C02': ['S02-6:backsig:composed::signed_key::secret']}),
    ('F7-armor-finish', '980e727', {'C09': ['S09-2:finish:'], 'C10': ['S09-2:finish:']}),
    ('F17-aes-kw-underflow', '1588266', {'C04': ['panic:crypto::aes_kw::unwrap|assert|Overflow(Sub)']}),
    ('F1-pkesk-empty-session-key', 'f309399', {'C04': ['panic:types::params::plain_secret::PlainSecretParams::decrypt|call|index[usize]']}),
    ('F3-skesk-empty-session-key', 'e24863b', {'C04': ['panic:packet::sym_key_encrypted_session_key::SymKeyEncryptedSessionKey::decrypt|assert|BoundsCheck']}),
    ('F2-unsupported-aead-before-setup', 'b841b86', {'C04': ['focus:aead-setup-after-support-check']}),
    ('F6-stale-header-length', 'b5844dc', {'C05': ['S05-2:header-derived']}),
    ('F4-composite-write-len', '94509fc', {'C05': ['S05-1:R-len:composed::signed_key']}),
    ('F16-pkesk-other-double-version', 'd549517', {'C05': ['S05-6:opaque:PublicKeyEncryptedSessionKey']}),
    ('F15-keyserver-char-count', 'b957521', {'C05': ['S05-1:R-len:packet::signature::subpacket::SubpacketData']}),
    ('F11-cleartext-sign-form', '5ffc284', {'C16': ['S16-1:sign-form']}),
    ('F19-v3-fingerprint', '277db3f', {'C13': ['S13-2:v3-no-mpi-length-prefix']}),
    ('F20-image-header-len', '3f404f0', {'C05': ['S05-1:R-len:packet::user_attribute::ImageHeader']}),
    ('F14-checksum-underflow', 'b79af45', {'C04': ['panic:types::params::encrypted_secret::EncryptedSecretParams::checksum']}),
    ('F21-embedded-signature-depth', '0507a06', {'C04': ['rec:embedded-signature-depth-guard']}),
    ('F22-revocation-key-len', '6c1fb08', {'C05': ['S05-1:R-len:packet::signature::subpacket::SubpacketData']}),
    ('F24-stale-header-after-locking', 'f2ccf73', {'C05': ['S05-9:header-fresh:packet::key::secret']}),
    ('F25-builder-default-version', 'e95cd5e', {'C07': ['builder:version-default-consistent']}),
    ('F26-streaming-hasher-trailing-cr', 'c51f93b', {'C14': ['hasher:done-emits-nothing'], 'C06': ['hasher:done-emits-nothing']}),
    ('F27-cfb-encryptor-early-eof', '84e200d', {'C09': ['S09-6:zero-means-end:crypto::sym::encryptor']}),
    ('F28-cleartext-trailing-cr', '4a22773', {'C16': ['S16-3:body-terminator-unambiguous']}),
    ('F29-zero-length-read', '53a7565', {'C09': ['trailing:read:not-on-empty-request'], 'C03': ['trailing:read:not-on-empty-request']}),
    ('F30-fill-buffer-interrupted', 'c218117', {'C09': ['S09-5:fill-retries-interrupted']}),
    ('F31-dearmor-partial-header', '177d538', {'C09': ['S09-7:partial-buffer-verdict'], 'C10': ['S09-7:partial-buffer-verdict']}),
    ('F32-lock-accepts-what-unlock-refuses', '7b8a27e', {'C08': ['lock-unlock:']}),
    ('F33-armor-header-key-line-bounded', '9ce8d9a,1a40f05', {'C10': ['S10-6:header-key-line-bounded']}),
    ('F34-notation-flags', '5dece79', {'C05': ['S05-8:no-octet-collapsed-to-bool'], 'C02': ['S05-8:no-octet-collapsed-to-bool']}),
    ('F35-curve25519-legacy-padding', '771a89f', {'C05': ['S05-11:pad-before-reverse']}),
    ('F36-has-rest-stale-buffer', 'f8049aa', {'C16': ['S16-3:trailing-scan-only-read-octets']}),
    ('F37-legacy-header-type-bits', 'a77db8e', {'C17': ['S17-7:legacy-header-type-from-value']}),
    ('F38-legacy-header-tag-range', '8805874', {'C17': ['S17-7:legacy-writer-rejects-tag-ge-16']}),
    ('F39-packet-sum-double-header', 'a58094b', {'C05': ['S05-2:sum-type-header-once'], 'C17': ['S05-2:sum-type-header-once']}),
    ('F40-critical-experimental-subpacket', '70b60a0', {'C15': ['S15-6:critical-unknown-covers-opaque-types']}),
    ('F41-inline-hash-strength', 'dc56f4e', {'C15': ['S15-8:hash-strength:composed::message::types::Message']}),
    ('F42-ring-cross-group', 'aa891ad,1f13ec7', {'C18': ['ring:cross-group-consistency']}),
    ('F43-signed-many-slot-misalignment', '01487b1', {'C02': ['S02-9:slots-pushed-in-pairs'], 'C06': ['S02-9:slots-pushed-in-pairs']}),
    ('F44-v3-signature-subpacket-push', '1db2fe1', {'C05': ['S05-13:adjusts-only-what-is-written:packet::signature::types::Signature::unhashed_subpacket_insert:unhashed_subpackets']}),
    ('F45-mpi-bit-count-truncated', 'e3d856e,e4348ba', {'C05': ['cast:<types::mpi::Mpi as ser::Serialize>::to_writer:u16#1']}),
    ('F47-read-again-after-error-panics', 'fc88375', {'C04': ['poison:returns-error:<armor::reader::Dearmor<R> as std::io::Read>::read:Part::Temp#1', 'poison:returns-error:composed::message::reader::literal::LiteralDataReader::<R>::fill_inner:via:is_done#1']}),
    ('F48-aead-decryptor-no-error-latch', 'a114df8', {'C03': ['v2:sticky-error'], 'C09': ['v2:sticky-error']}),
    ('F49-trailing-padding-buffered', '68e0845', {'C19': ["S19-5:buffer-read-is-used:composed::message::types::MessageReader::<'_>::check_trailing_data::check_next_packet#1"]}),
    ('F50-composed', '1dbc79f', {'C09': ['eof-helper-mapped:composed::message::reader::packet_body::PacketBodyReader::<R>::fill_inner#1'], 'C04': ['eof-helper-mapped:composed::message::reader::packet_body::PacketBodyReader::<R>::fill_inner#1'], 'C03': ['eof-helper-mapped:composed::message::reader::packet_body::PacketBodyReader::<R>::fill_inner#1']}),
    ('F51-pub-entry', '1a8909b', {'C04': ["poison:pub-entry:composed::message::types::Message::<'a>::verify_nested_explicit:via:hash#1"]}),
    ('F52-no-expect-on-option-parameter', '0eb51d9', {'C04': ['focus:no-expect-on-option-parameter:packet::sym_encrypted_protected_data::SymEncryptedProtectedData::decrypt']}),
    ('F53-gnupg-constructor-checks-key-l', '1e043d0', {'C04': ['focus:gnupg-constructor-checks-key-length']}),
    ('F54-rsa-secret-primes-invertible', '7586156', {'C04': ['focus:rsa-secret-primes-invertible']}),
    ('F55-<crypto', '857e232', {'C04': ['narrow-sum:<crypto::checksum::SimpleChecksum as std::hash::Hasher>::write#1']}),
    ('F56-nesting-depth-bounded', 'bd98062,cb753fd', {'C04': ['focus:nesting-depth-bounded']}),
    ('F57-output-index-guarded', '6b579e5', {'C09': ['read:output-index-guarded:<base64::reader::Base64Reader<R> as std::io::Read>::read']}),
    ('F58-image-header-unknown-version', 'd1a0ebc', {'C05': ['S05-14:image-header-length-formula']}),
    ('F59-cleartext-cr-blank-lf', 'f959d6a', {'C16': ['S16-1:trimmed-cr-kept-as-content']}),
    ('F23-boolean-subpackets', '1b5ba7a', {'C05': ['S05-8:lossless-bool'], 'C02': ['S05-8:lossless-bool']}),
    ('F60-key-flags-reserved-bits', '28af7ff', {'C05': ['S05-8:bitfield:parse-keeps-every-bit'], 'C02': ['S05-8:bitfield:parse-keeps-every-bit']}),
    ('F61-key-flags-set-on-empty', '895ddd8', {'C05': ['S05-15:gate-set-by-mutators:KeyFlags']}),
    ('F62-inline-signature-type', '631e2fe', {'C02': ['S02-3:inline-type'], 'C11': ['S02-3:inline-type']}),
    ('F65-v6-unsupported-curve-overread', '7bdcc4b', {'C05': ['S05-16:total-minus-prefix:types::params::public::ecdsa']}),
    ('F66-jpeg-header-length', 'a5c47b1', {'C05': ['S05-14:constant-length-variant-checked']}),
    ('F69-message-parser-drains', 'c57b8f3', {'C17': ['S17-4:message-parser-drains']}),
    ('F70-key-framing-by-signature-version', '900764d', {'C11': ['key-frame:selected-by-signature-version']}),
    ('F72-iterator-stops-after-refused-framing', '836fe37', {'C17': ['S17-2:illegal-framing-stops-parser']}),
    ('F73-curve25519-legacy-leading-zero', 'cedd9d8', {'C05': ['S05-11:raw-mpi-only-from-parsed-data'], 'C07': ['S05-11:raw-mpi-only-from-parsed-data']}),
    ('F74-encryptor-buffer-after-failed-fill', 'a2ea9ec', {'C09': ['S09-10:grown-stage-emptied-on-failed-fill'], 'C01': ['S09-10:grown-stage-emptied-on-failed-fill']}),
    ('F75-cleartext-body-quadratic', '75aee54', {'C19': ['S19-4:no-rescan-of-accumulator:composed::cleartext::read_cleartext_body']}),
    ('F76-v6-salt-length-at-sign', '4e11c98', {'C06': ['S06-9:salt-length-checked']}),
    ('F77-ecdh-point-prefix', 'd079c9f', {'C05': ['S05-17:dropped-prefix-compared']}),
    ('F78-v2-secret-checksum', 'b4f643c', {'C05': ['S05-18:v2-as-v3']}),
    ('F79-unhashed-issuer-fingerprint-version', '00f6cb9', {'C15': ['S15-6:issuer-fp-version-every-area']}),
    ('F80-armor-dash-line-blanks', '6823cca', {'C10': ['S10-8:dash-line-trailing-blanks']}),
    ('F81-partial-chunk-size-bound', '12682c3', {'C17': ['S17-6:partial-chunk-size-at-most-2^30']}),
    ('F82-nesting-depth-every-layer', 'bd98062', {'C04': ['focus:nesting-depth-counts-every-layer']}),
    ('F83-fixed-generator-held-to-length', '238b44b', {'C17': ['S17-7:fixed-generator-held-to-length']}),
    ('F84-session-key-forms', 'aa891ad', {'C18': ['ring:cross-group-compares-key-octets']}),
    ('F85-ecdh-compressed-point', 'c85f598', {'C05': ['S05-19:sec1-point-length']}),
    ('F86-v6-public-key-surplus', 'f25860c', {'C05': ['S05-20:declared-key-material-consumed']}),
    ('F87-mpi-writer-bound', 'e3d856e', {'C05': ['S05-21:mpi-writer-bound']}),
    ('F88-mpi-from-zero-biguint', '59f3208', {'C05': ['S05-22:mpi-normalised']}),
    ('F89-image-header-lower-bound', '4a32573', {'C05': ['S05-14:image-header-lower-bound']}),
    ('F67-ecdh-zero-padding', '5930fe1', {'C12': ['ecdh:unpad-lower-bound']}),
    ('F68-armor-leading-dashes', 'cfc42e1', {'C10': ['S10-7:leading-text-skipped-to-full-opener']}),
]
tests = [dict(name='revert:' + n, kind='revert-fix', commit=c, expect=e) for n, c, e in REVERTS]
try:
    m = json.load(open(V + '/seeded/matrix.json'))
except Exception:
    m = {}
for seed, fired in sorted(m.items()):
    if isinstance(fired, dict) and fired:
        exp = {}
        for prop, keys in fired.items():
            # report file names -> key fragments: keep the rule part before the function path where possible
            exp[prop] = [k.split('_', 1)[1][:40] if False else k for k in keys]
        tests.append(dict(name='seed:' + seed, kind='seed', seed=seed, expect={p: ['*'] for p in fired}, reports=fired))
json.dump(dict(tests=tests), open(V + '/selftest/expected.json', 'w'), indent=1)
print(len(tests), 'self-tests')
