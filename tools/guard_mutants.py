#!/usr/bin/env python3
"""Mutation sweep for the zone analysis (engine/zones.py) on the real tree.

For every integer comparison (`<`, `<=`, `>`, `>=`) that dominates a panic-capable site which the zone analysis PROVES, the
comparison is made one step weaker *towards that site* in a scratch copy of /repo (never /repo itself), facts are re-extracted
and the site is looked at again.  A weakened guard must un-prove at least one site of the function (the proof really depended on
the operator); a weakened guard that leaves every proof standing is printed for review: either the guard had slack (another
guard or a type bound also covers the site) or a proof is unsound.

Usage: guard_mutants.py [-j N] [--limit K] [regex on function path]        (development / thorough-tier aid; result in
selftest/guard_mutants.json)"""
import sys, os, re, json, shutil, subprocess, collections
from concurrent.futures import ProcessPoolExecutor
V = '/verif'
sys.path.insert(0, V + '/engine'); sys.path.insert(0, V)
import run, facts, core, zones, selftest
from rules import panics
from rules.common import single_defs

SWAP = {'<': '<=', '<=': '<', '>': '>=', '>=': '>'}
OPN = {'Lt': '<', 'Le': '<=', 'Gt': '>', 'Ge': '>='}


def verdicts(f, only=None):
    """{function: {site key: discharge name or None}}"""
    fty = panics.field_types(f)
    out = {}
    for p, r in f.bodies.items():
        if panics.skip_body(p, r) or (only and p not in only):
            continue
        b = core.B(r)
        ks = panics.keyed_sites(b)
        if not ks:
            continue
        defs = single_defs(b); cmps = panics.all_cmps(b, defs); dom = b.dominators()
        out[p] = {key: panics.discharge(b, i, kind, detail, t, defs, cmps, dom, fty) for key, i, kind, detail, t in ks}
    return out


def candidates(f, rx=None):
    """[(function, file, line, source operator, weaker operator, [site keys])]"""
    fty = panics.field_types(f)
    cands = []
    for p, r in sorted(f.bodies.items()):
        if panics.skip_body(p, r) or (rx and not rx.search(p)) or r.get('from_expansion'):
            continue
        b = core.B(r)
        ks = panics.keyed_sites(b)
        if not ks:
            continue
        defs = single_defs(b); cmps = panics.all_cmps(b, defs); dom = b.dominators()
        zsites = [(key, i) for key, i, kind, detail, t in ks if panics.discharge(b, i, kind, detail, t, defs, cmps, dom, fty) == 'Z-zone']
        if not zsites:
            continue
        for g, t in b.switches():
            if t.get('ty') != 'bool' or 'l' not in t['o']:
                continue
            cond = None
            negated = False
            want = t['o']['l']
            for s in reversed(b.blocks[g]['s']):
                if s['d']['l'] == want and not s['d']['pr']:
                    if s['r']['k'] == 'bin' and s['r']['op'] in OPN:
                        cond = s
                        break
                    if s['r']['k'] == 'un' and s['r']['op'] == 'Not' and 'l' in s['r']['o'][0]:
                        negated = not negated
                        want = s['r']['o'][0]['l']
                        continue
                    if s['r']['k'] == 'use' and 'l' in s['r']['o'][0] and not s['r']['o'][0]['pr']:
                        want = s['r']['o'][0]['l']
                        continue
                    break
            if cond is None:
                continue
            prot = [key for key, i in zsites if g in dom.get(i, ()) and g != i]
            if not prot:
                continue
            # which truth value of the comparison leads to the protected sites
            site_blocks = {i for key, i in zsites if key in prot}
            truth_edges = {}
            for j, lab in b.succ(g):
                tv = bool(lab[1]) if lab[0] == 'v' else (0 in [v for v, _ in t['targets']])
                truth_edges[tv != negated] = j      # truth value of the COMPARISON on this edge
            reach_true = bool(b.reach_from([truth_edges.get(True)], removed=frozenset([g])) & site_blocks) if True in truth_edges else False
            reach_false = bool(b.reach_from([truth_edges.get(False)], removed=frozenset([g])) & site_blocks) if False in truth_edges else False
            if reach_true == reach_false:
                continue
            op = OPN[cond['r']['op']]
            # the set of values flowing towards the sites grows when:  true-edge & strict -> non-strict ; false-edge & non-strict -> strict
            strict = op in ('<', '>')
            weaker = SWAP[op] if (reach_true and strict) or (reach_false and not strict) else None
            if weaker is None:
                continue
            cands.append((p, r['file'], cond['ln'], op, weaker, prot))
    return cands


def mutate_line(line, op, new):
    """Replace the single occurrence of the binary operator ` op ` in the line; None if ambiguous."""
    pat = re.compile(r'(?<=[\w\)\]])\s%s\s(?=[\w\(\*\-&])' % re.escape(op))
    ms = list(pat.finditer(line))
    if len(ms) != 1:
        return None
    m = ms[0]
    return line[:m.start()] + ' %s ' % new + line[m.end():]


def one(args):
    idx, (p, file, ln, op, new, prot), worker = args
    td = '/var/tmp/verif-gm-target-%d' % worker
    if not os.path.isdir(td):
        subprocess.run(['cp', '-a', V + '/.cache/target', td])
    d = selftest.scratch_copy('/repo')
    try:
        path = os.path.join(d, file)
        lines = open(path).read().split('\n')
        m = mutate_line(lines[ln - 1], op, new)
        if m is None:
            return idx, 'skip: operator not unique on the line'
        lines[ln - 1] = m
        open(path, 'w').write('\n'.join(lines))
        try:
            fp = run.extract(d, 'default', target_dir=td)
        except Exception as e:
            return idx, 'skip: mutant does not build'
        f = facts.load(fp)
        v = verdicts(f, only={p})
        for x in (fp, fp + '.pickle'):
            try:
                os.remove(x)
            except OSError:
                pass
        got = v.get(p, {})
        lost = [k for k in prot if got.get(k) is None]
        newsites = [k for k, dch in got.items() if dch is None]
        return idx, dict(unproved=lost, undischarged_now=len(newsites))
    finally:
        shutil.rmtree(d, ignore_errors=True)


def main():
    argv = sys.argv[1:]
    jobs, limit, rx = 6, None, None
    while argv:
        a = argv.pop(0)
        if a == '-j':
            jobs = int(argv.pop(0))
        elif a == '--limit':
            limit = int(argv.pop(0))
        else:
            rx = re.compile(a)
    f = facts.load(run.extract(run.REPO, 'default'))
    base = verdicts(f)
    cands = candidates(f, rx)
    # one mutant per source line
    seen, uniq = set(), []
    for c in cands:
        k = (c[1], c[2])
        if k not in seen:
            seen.add(k)
            uniq.append(c)
    if limit:
        uniq = uniq[:limit]
    print('%d comparisons dominate a zone-proved site; %d distinct source lines' % (len(cands), len(uniq)))
    res = {}
    with ProcessPoolExecutor(max_workers=jobs) as ex:
        for idx, r in ex.map(one, [(i, c, i % jobs) for i, c in enumerate(uniq)]):
            c = uniq[idx]
            tag = '%s:%d  %s -> %s  [%s]' % (c[1], c[2], c[3], c[4], c[0].split('::')[-1])
            if isinstance(r, str):
                print('  ', tag, r)
                res[tag] = r
                continue
            # sites undischarged in the function before the mutation
            before = sum(1 for k, dch in base.get(c[0], {}).items() if dch is None)
            caught = bool(r['unproved']) or r['undischarged_now'] > before
            print('  ', 'CAUGHT' if caught else 'SILENT', tag, r['unproved'][:2])
            res[tag] = dict(caught=caught, unproved=r['unproved'], protected=c[5])
    for w in range(jobs):
        shutil.rmtree('/var/tmp/verif-gm-target-%d' % w, ignore_errors=True)
    n = sum(1 for v in res.values() if isinstance(v, dict))
    k = sum(1 for v in res.values() if isinstance(v, dict) and v['caught'])
    print('%d mutants built, %d un-prove a site, %d silent' % (n, k, n - k))
    json.dump(res, open(V + '/selftest/guard_mutants.json', 'w'), indent=1, sort_keys=True)


if __name__ == '__main__':
    main()
