#!/bin/bash
# usage: try_seed.sh <seed-name>...   evaluate seeded patches on scratch copies of /repo (never modifies /repo; see seed_matrix.py)
exec python3 /verif/tools/seed_matrix.py -j 2 "$@"
