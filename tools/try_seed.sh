#!/bin/bash
# usage: try_seed.sh <seed-name> <PROP>...   apply seeded patch to /repo, run checks, revert
S=/verif/seeded/$1; shift
git -C /repo status --short | grep -q . && { echo "/repo dirty"; exit 2; }
git -C /repo apply $S/patch.diff || { echo "patch failed"; exit 2; }
for p in "$@"; do /verif/check $p 2>&1 | grep -E "VIOLATION|KNOWN|obligations" ; done
git -C /repo checkout -- .
