#!/usr/bin/env python3
"""zone_dbg.py <fn regex> [block ...]: print the zone state before the terminator of the given blocks (default: every site)."""
import sys, re
sys.path.insert(0, '/verif/engine'); sys.path.insert(0, '/verif')
import run, facts, core, zones, pp
from rules import panics
from rules.common import single_defs
f = facts.load(run.extract(run.REPO, 'default'))
ft = zones.field_table(f)
def fmt(t):
    if t == 'Z': return '0'
    if t[0] == 'L': return '_%d' % t[1]
    return '%s(_%d%s)' % (t[0], t[1], ''.join(t[2]))
for r in f.find(sys.argv[1]):
    b = core.B(r)
    defs = single_defs(b)
    a = zones.analyse(b, defs, ft.get)
    print(r['path'], 'steps', a.steps, 'gave_up', a.gave_up)
    want = [int(x) for x in sys.argv[2:]]
    for key, i, kind, detail, t in panics.keyed_sites(b):
        if want and i not in want: continue
        z = a.before_term(i)
        print('--- bb%d %s L%d  prove=%s' % (i, key.split('|', 1)[1], t['ln'], a.prove_site(i, kind, detail, t)))
        print('   ', pp.term(t))
        if z.bottom: print('    BOTTOM'); continue
        for x in sorted(z.up, key=str):
            for y, c in sorted(z.up[x].items(), key=str):
                print('      %s - %s <= %d' % (fmt(x), fmt(y), c))
        for tt, (x, y) in z.sums.items():
            print('      SUM %s = %s%+d + %s%+d' % (fmt(tt), fmt(x[0]), x[1], fmt(y[0]), y[1]))
