#!/opt/veriftools/pyvenv/bin/python
import json, jsonschema, glob, sys
m = json.load(open('/verif/MANIFEST.json')); jsonschema.validate(m, json.load(open('/root/.vp/MANIFEST.schema.json'))); print('manifest ok', len(m['checks']), 'checks')
s = json.load(open('/root/.vp/EVIDENCE.schema.json'))
for p in sorted(glob.glob('/verif/evidence/*.json')):
    jsonschema.validate(json.load(open(p)), s); print('evidence ok', p)
