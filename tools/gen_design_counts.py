#!/usr/bin/env python3
"""Refresh the obligation counts in the DESIGN.md §11.2 table from the evidence files of the last quick run."""
import json, re
V = '/verif'
s = open(V + '/DESIGN.md').read()
start = s.index('### 11.2 Per property')
end = s.index('### 11.3')
sec = s[start:end]
def repl(m):
    p = m.group(1)
    try:
        n = json.load(open('%s/evidence/%s.json' % (V, p)))['coverage']['obligations']
    except Exception:
        return m.group(0)
    tail = m.group(3)
    return '| %s | %d%s |' % (p, n, tail)
sec2 = re.sub(r'\| (C\d\d) \| (\d+)( \(\+[^|]*\))? \|', lambda m: '| %s | %d%s |' % (m.group(1), json.load(open('%s/evidence/%s.json' % (V, m.group(1))))['coverage']['obligations'], m.group(3) or ''), sec)
open(V + '/DESIGN.md', 'w').write(s[:start] + sec2 + s[end:])
print('updated')
