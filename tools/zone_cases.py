#!/usr/bin/env python3
"""Development: verdict of tactics + zone analysis on the calibration crate selftest/zonecases."""
import sys
sys.path.insert(0, '/verif/engine'); sys.path.insert(0, '/verif')
import run, facts, core, zones
from rules import panics
from rules.common import single_defs
f = facts.load(run.extract_aux('/verif/selftest/zonecases', 'zonecases'))
ft = zones.field_table(f)
bad = 0
for p, r in sorted(f.bodies.items()):
    name = p.split('::')[-1]
    if not name.startswith(('ok_', 'bad_')):
        continue
    b = core.B(r)
    defs = single_defs(b); cmps = panics.all_cmps(b, defs); dom = b.dominators()
    a = zones.analyse(b, defs, ft.get)
    res = []
    for key, i, kind, detail, t in panics.keyed_sites(b):
        tac = panics.discharge(b, i, kind, detail, t, defs, cmps, dom)
        z = a.prove_site(i, kind, detail, t)
        res.append((detail, tac, z))
    allok = all(tac or z for _, tac, z in res)
    want = name.startswith('ok_')
    flag = 'OK ' if allok == want else 'WRONG'
    if allok != want: bad += 1
    print(flag, name, [(d, t or '-', 'Z' if z else ('z?' if z is None else 'z-')) for d, t, z in res])
print('wrong verdicts:', bad)
