#!/usr/bin/env python3
"""Print the markdown table of seeded changes (seeded/*/meta.json + seeded/matrix.json + confirm.json) for DESIGN.md §11.6."""
import json, glob, os, re
V = '/verif'
m = json.load(open(V + '/seeded/matrix.json'))
rows = []
caught = 0
for d in sorted(glob.glob(V + '/seeded/C*/')):
    n = os.path.basename(d.rstrip('/'))
    try:
        meta = json.load(open(d + 'meta.json'))
    except Exception:
        meta = {}
    summ = (meta.get('summary') or meta.get('what') or meta.get('description') or '')
    summ = re.sub(r'\s+', ' ', str(summ))[:170].replace('|', '/')
    conf = ''
    try:
        c = json.load(open(d + 'confirm.json'))
        conf = 'yes' if c.get('confirmed') else 'NO'
    except Exception:
        conf = '-'
    r = m.get(n)
    if isinstance(r, dict) and r:
        caught += 1
        res = '**caught** — ' + '; '.join('%s: %s' % (p, ', '.join(sorted(set(':'.join(k.split(':')[1:3]) for k in ks)))[:90]) for p, ks in sorted(r.items()))
    elif isinstance(r, dict):
        res = 'missed'
    else:
        res = str(r)
    rows.append('| %s | %s | %s | %s |' % (n, summ, conf, res))
print('| Seed | Change (abridged from the author\'s meta.json) | Confirmed | Result |')
print('|------|-----------------------------------------------|-----------|--------|')
print('\n'.join(rows))
print('\n%d of %d caught' % (caught, len(rows)))
