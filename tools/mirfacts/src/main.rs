//! mirfacts: rustc_private driver that dumps MIR/ADT/impl facts of one crate as JSON lines.
//!
//! Used as RUSTC_WORKSPACE_WRAPPER under `cargo +nightly check`. Environment:
//!   MIRFACTS_OUT    path of the fact file (JSONL) to write (required for the target crate)
//!   MIRFACTS_CRATE  crate name to dump (default "pgp")
//! For every other crate it behaves exactly like rustc.
#![feature(rustc_private)]
#![allow(clippy::all)]

extern crate rustc_abi;
extern crate rustc_data_structures;
extern crate rustc_driver;
extern crate rustc_hir;
extern crate rustc_index;
extern crate rustc_interface;
extern crate rustc_middle;
extern crate rustc_session;
extern crate rustc_span;

use std::fmt::Write as _;

use rustc_driver::{Callbacks, Compilation};
use rustc_hir::def::DefKind;
use rustc_hir::def_id::{DefId, LocalDefId};
use rustc_middle::mir::{
    self, AggregateKind, AssertKind, BasicBlock, BinOp, Body, BorrowKind, Const, Operand, Place,
    ProjectionElem, Rvalue, StatementKind, TerminatorKind, UnwindAction,
};
use rustc_middle::ty::{self, Instance, Ty, TyCtxt, TypingEnv};
use rustc_span::Span;

mod json;
use json::J;

struct Cb;

impl Callbacks for Cb {
    fn after_analysis<'tcx>(
        &mut self,
        _compiler: &rustc_interface::interface::Compiler,
        tcx: TyCtxt<'tcx>,
    ) -> Compilation {
        let want = std::env::var("MIRFACTS_CRATE").unwrap_or_else(|_| "pgp".to_string());
        let name = tcx.crate_name(rustc_hir::def_id::LOCAL_CRATE).to_string();
        if name == want {
            if let Ok(out) = std::env::var("MIRFACTS_OUT") {
                let text = dump(tcx);
                // one write per process
                std::fs::write(&out, text).expect("mirfacts: cannot write fact file");
            }
        }
        Compilation::Continue
    }
}

fn main() {
    let mut args: Vec<String> = std::env::args().collect();
    // RUSTC_WORKSPACE_WRAPPER passes the real rustc path as argv[1]
    if args.len() > 1 && (args[1].ends_with("rustc") || args[1].contains("/rustc")) {
        args.remove(1);
    }
    let code = rustc_driver::catch_with_exit_code(move || {
        rustc_driver::run_compiler(&args, &mut Cb);
    });
    std::process::exit(if code == std::process::ExitCode::SUCCESS { 0 } else { 1 });
}

// ------------------------------------------------------------------------------------------------

fn span_info(tcx: TyCtxt<'_>, sp: Span) -> (String, usize, usize) {
    let sm = tcx.sess.source_map();
    let sp = sp.source_callsite();
    let lo = sm.lookup_char_pos(sp.lo());
    let hi = sm.lookup_char_pos(sp.hi());
    let file = match &lo.file.name {
        rustc_span::FileName::Real(r) => match r.local_path() {
            Some(p) => p.display().to_string(),
            None => format!("{:?}", lo.file.name),
        },
        other => format!("{:?}", other),
    };
    (file, lo.line, hi.line)
}

fn macro_chain(sp: Span) -> Vec<String> {
    let mut v = Vec::new();
    if sp.from_expansion() {
        for e in sp.macro_backtrace() {
            match e.kind {
                rustc_span::ExpnKind::Macro(_, name) => v.push(name.to_string()),
                rustc_span::ExpnKind::Desugaring(d) => v.push(format!("desugar:{:?}", d)),
                rustc_span::ExpnKind::AstPass(_) => v.push("astpass".to_string()),
                rustc_span::ExpnKind::Root => {}
            }
        }
    }
    v
}

fn line_of(tcx: TyCtxt<'_>, sp: Span) -> usize {
    let sm = tcx.sess.source_map();
    sm.lookup_char_pos(sp.source_callsite().lo()).line
}

struct Cx<'a, 'tcx> {
    tcx: TyCtxt<'tcx>,
    body: &'a Body<'tcx>,
    env: TypingEnv<'tcx>,
}

impl<'a, 'tcx> Cx<'a, 'tcx> {
    fn place(&self, p: &Place<'tcx>) -> J {
        let mut proj: Vec<J> = Vec::new();
        for (base, elem) in p.iter_projections() {
            let s = match elem {
                ProjectionElem::Deref => "*".to_string(),
                ProjectionElem::Field(idx, _) => {
                    let pty = base.ty(&self.body.local_decls, self.tcx);
                    match pty.ty.kind() {
                        ty::Adt(adt, _) => {
                            let vidx = pty.variant_index.unwrap_or(rustc_abi::FIRST_VARIANT);
                            let v = adt.variant(vidx);
                            let fname = v.fields[idx].name.to_string();
                            let aname = self.tcx.item_name(adt.did()).to_string();
                            if adt.is_enum() {
                                format!(".{}::{}.{}", aname, v.name, fname)
                            } else {
                                format!(".{}.{}", aname, fname)
                            }
                        }
                        _ => format!(".{}", idx.as_usize()),
                    }
                }
                ProjectionElem::Index(l) => format!("[_{}]", l.as_usize()),
                ProjectionElem::ConstantIndex { offset, from_end, .. } => {
                    if from_end {
                        format!("[-c{}]", offset)
                    } else {
                        format!("[c{}]", offset)
                    }
                }
                ProjectionElem::Subslice { from, to, from_end } => {
                    if from_end {
                        format!("[{}..-{}]", from, to)
                    } else {
                        format!("[{}..{}]", from, to)
                    }
                }
                ProjectionElem::Downcast(name, vidx) => match name {
                    Some(n) => format!("@{}", n),
                    None => format!("@#{}", vidx.as_usize()),
                },
                _ => "?".to_string(),
            };
            proj.push(J::s(s));
        }
        J::obj(vec![("l", J::n(p.local.as_usize() as i128)), ("pr", J::Arr(proj))])
    }

    fn konst(&self, c: &mir::ConstOperand<'tcx>) -> J {
        let ty = c.const_.ty();
        match ty.kind() {
            ty::FnDef(def_id, args) => {
                return self.fn_ref(*def_id, args);
            }
            _ => {}
        }
        let mut fields = vec![("ty", J::s(ty.to_string()))];
        let mut done = false;
        if ty.is_integral() || ty.is_bool() || ty.is_char() {
            if let Some(si) = c.const_.try_eval_scalar_int(self.tcx, self.env) {
                let size = si.size();
                let v: i128 = if ty.is_signed() {
                    si.to_int(size)
                } else {
                    si.to_uint(size) as i128
                };
                fields.push(("v", J::n(v)));
                done = true;
            }
        }
        if !done {
            // unevaluated named constants: keep the def path
            match c.const_ {
                Const::Unevaluated(uv, _) => {
                    if let Some(p) = uv.promoted {
                        fields.push(("prom", J::n(p.as_usize() as i128)));
                    } else {
                        fields.push(("cdef", J::s(self.tcx.def_path_str(uv.def))));
                    }
                }
                _ => {
                    let mut s = format!("{}", c.const_);
                    if s.len() > 80 {
                        s.truncate(80);
                    }
                    fields.push(("s", J::s(s)));
                }
            }
        } else if let Const::Unevaluated(uv, _) = c.const_ {
            fields.push(("cdef", J::s(self.tcx.def_path_str(uv.def))));
        }
        J::obj(vec![("k", J::obj(fields))])
    }

    fn fn_ref(&self, def_id: DefId, args: ty::GenericArgsRef<'tcx>) -> J {
        let tcx = self.tcx;
        let mut f = vec![
            ("fn", J::s(tcx.def_path_str(def_id))),
            ("full", J::s(tcx.def_path_str_with_args(def_id, args))),
        ];
        if let Some(tr) = tcx.trait_of_assoc(def_id) {
            f.push(("trait", J::s(tcx.def_path_str(tr))));
            if args.len() > 0 {
                if let Some(t) = args.get(0).and_then(|a| a.as_type()) {
                    f.push(("selfty", J::s(t.to_string())));
                }
            }
        }
        if matches!(tcx.def_kind(def_id), DefKind::Fn | DefKind::AssocFn) {
            // resolve trait methods to the impl item where possible
            let r = std::panic::catch_unwind(std::panic::AssertUnwindSafe(|| {
                Instance::try_resolve(tcx, self.env, def_id, args)
            }));
            if let Ok(Ok(Some(inst))) = r {
                let rid = inst.def_id();
                if rid != def_id {
                    f.push(("res", J::s(tcx.def_path_str(rid))));
                }
                match inst.def {
                    ty::InstanceKind::Item(_) => {}
                    other => {
                        let s = format!("{:?}", other);
                        let s = s.split('(').next().unwrap_or("").to_string();
                        f.push(("shim", J::s(s)));
                    }
                }
            }
        }
        J::obj(f)
    }

    fn operand(&self, o: &Operand<'tcx>) -> J {
        match o {
            Operand::Copy(p) => {
                let mut j = self.place(p);
                j.push("mv", J::n(0));
                j
            }
            Operand::Move(p) => {
                let mut j = self.place(p);
                j.push("mv", J::n(1));
                j
            }
            Operand::Constant(c) => self.konst(c),
            _ => J::obj(vec![("k", J::obj(vec![("ty", J::s("runtime_checks"))]))]),
        }
    }

    fn enum_table(&self, t: Ty<'tcx>) -> Option<J> {
        if let ty::Adt(adt, _) = t.kind() {
            if adt.is_enum() {
                let mut v = Vec::new();
                for (vidx, d) in adt.discriminants(self.tcx) {
                    let name = adt.variant(vidx).name.to_string();
                    let val = if let ty::Int(i) = d.ty.kind() {
                        let bits = i.bit_width().unwrap_or(64) as u32;
                        if bits >= 128 {
                            d.val as i128
                        } else {
                            let sh = 128 - bits;
                            ((d.val << sh) as i128) >> sh
                        }
                    } else {
                        d.val as i128
                    };
                    v.push(J::Arr(vec![J::n(val), J::s(name)]));
                }
                return Some(J::obj(vec![
                    ("adt", J::s(self.tcx.def_path_str(adt.did()))),
                    ("vars", J::Arr(v)),
                ]));
            }
        }
        None
    }

    fn rvalue(&self, r: &Rvalue<'tcx>) -> J {
        match r {
            Rvalue::Use(o, ..) => J::obj(vec![("k", J::s("use")), ("o", J::Arr(vec![self.operand(o)]))]),
            Rvalue::Repeat(o, _) => {
                J::obj(vec![("k", J::s("repeat")), ("o", J::Arr(vec![self.operand(o)]))])
            }
            Rvalue::Ref(_, bk, p) => {
                let m = match bk {
                    BorrowKind::Shared => "shr",
                    BorrowKind::Fake(_) => "fake",
                    BorrowKind::Mut { .. } => "mut",
                };
                J::obj(vec![("k", J::s("ref")), ("m", J::s(m)), ("p", self.place(p))])
            }
            Rvalue::RawPtr(_, p) => J::obj(vec![("k", J::s("rawptr")), ("p", self.place(p))]),
            Rvalue::Cast(ck, o, t) => {
                let cks = format!("{:?}", ck);
                let cks = cks.split('(').next().unwrap_or("").to_string();
                J::obj(vec![
                    ("k", J::s("cast")),
                    ("ck", J::s(cks)),
                    ("o", J::Arr(vec![self.operand(o)])),
                    ("ty", J::s(t.to_string())),
                ])
            }
            Rvalue::BinaryOp(op, b) => J::obj(vec![
                ("k", J::s("bin")),
                ("op", J::s(format!("{:?}", op))),
                ("o", J::Arr(vec![self.operand(&b.0), self.operand(&b.1)])),
            ]),
            Rvalue::UnaryOp(op, o) => J::obj(vec![
                ("k", J::s("un")),
                ("op", J::s(format!("{:?}", op))),
                ("o", J::Arr(vec![self.operand(o)])),
            ]),
            Rvalue::Discriminant(p) => {
                let t = p.ty(&self.body.local_decls, self.tcx).ty;
                let mut f = vec![("k", J::s("discr")), ("p", self.place(p))];
                if let Some(tab) = self.enum_table(t) {
                    f.push(("enum", tab));
                }
                J::obj(f)
            }
            Rvalue::Aggregate(ak, ops) => {
                let mut f = vec![("k", J::s("agg"))];
                match &**ak {
                    AggregateKind::Array(_) => f.push(("ak", J::s("array"))),
                    AggregateKind::Tuple => f.push(("ak", J::s("tuple"))),
                    AggregateKind::Adt(did, vidx, _, _, _) => {
                        f.push(("ak", J::s("adt")));
                        let adt = self.tcx.adt_def(*did);
                        f.push(("adt", J::s(self.tcx.def_path_str(*did))));
                        let v = adt.variant(*vidx);
                        f.push(("v", J::s(v.name.to_string())));
                        f.push((
                            "fields",
                            J::Arr(v.fields.iter().map(|fd| J::s(fd.name.to_string())).collect()),
                        ));
                    }
                    AggregateKind::Closure(did, _) => {
                        f.push(("ak", J::s("closure")));
                        f.push(("adt", J::s(self.tcx.def_path_str(*did))));
                    }
                    AggregateKind::Coroutine(did, _) | AggregateKind::CoroutineClosure(did, _) => {
                        f.push(("ak", J::s("coroutine")));
                        f.push(("adt", J::s(self.tcx.def_path_str(*did))));
                    }
                    AggregateKind::RawPtr(..) => f.push(("ak", J::s("rawptr"))),
                }
                f.push(("o", J::Arr(ops.iter().map(|o| self.operand(o)).collect())));
                J::obj(f)
            }
            Rvalue::CopyForDeref(p) => J::obj(vec![("k", J::s("copyderef")), ("p", self.place(p))]),
            Rvalue::ThreadLocalRef(_) => J::obj(vec![("k", J::s("tls"))]),
            _ => J::obj(vec![("k", J::s("other"))]),
        }
    }

    fn bb(b: BasicBlock) -> J {
        J::n(b.as_usize() as i128)
    }

    fn unwind(u: &UnwindAction) -> J {
        match u {
            UnwindAction::Cleanup(b) => Self::bb(*b),
            _ => J::Null,
        }
    }

    fn terminator(&self, t: &mir::Terminator<'tcx>) -> J {
        let ln = line_of(self.tcx, t.source_info.span);
        let mut f: Vec<(&'static str, J)> = Vec::new();
        match &t.kind {
            TerminatorKind::Goto { target } => {
                f.push(("k", J::s("goto")));
                f.push(("t", Self::bb(*target)));
            }
            TerminatorKind::SwitchInt { discr, targets } => {
                f.push(("k", J::s("switch")));
                f.push(("o", self.operand(discr)));
                let dty = discr.ty(&self.body.local_decls, self.tcx);
                f.push(("ty", J::s(dty.to_string())));
                let mut v = Vec::new();
                for (val, bb) in targets.iter() {
                    v.push(J::Arr(vec![J::n(val as i128), Self::bb(bb)]));
                }
                f.push(("targets", J::Arr(v)));
                f.push(("else", Self::bb(targets.otherwise())));
            }
            TerminatorKind::Return => f.push(("k", J::s("return"))),
            TerminatorKind::Unreachable => f.push(("k", J::s("unreachable"))),
            TerminatorKind::UnwindResume => f.push(("k", J::s("resume"))),
            TerminatorKind::UnwindTerminate(_) => f.push(("k", J::s("abort"))),
            TerminatorKind::Drop { place, target, unwind, .. } => {
                f.push(("k", J::s("drop")));
                f.push(("p", self.place(place)));
                f.push(("t", Self::bb(*target)));
                f.push(("uw", Self::unwind(unwind)));
                let t = place.ty(&self.body.local_decls, self.tcx).ty;
                f.push(("ty", J::s(t.to_string())));
            }
            TerminatorKind::Call { func, args, destination, target, unwind, fn_span, .. } => {
                f.push(("k", J::s("call")));
                match func {
                    Operand::Constant(c) => match c.const_.ty().kind() {
                        ty::FnDef(did, ga) => f.push(("f", self.fn_ref(*did, ga))),
                        _ => f.push(("f", J::obj(vec![("ind", self.operand(func))]))),
                    },
                    _ => f.push(("f", J::obj(vec![("ind", self.operand(func))]))),
                }
                f.push(("args", J::Arr(args.iter().map(|a| self.operand(&a.node)).collect())));
                f.push(("d", self.place(destination)));
                f.push(("t", target.map(Self::bb).unwrap_or(J::Null)));
                f.push(("uw", Self::unwind(unwind)));
                let mc = macro_chain(*fn_span);
                if !mc.is_empty() {
                    f.push(("mac", J::Arr(mc.into_iter().map(J::s).collect())));
                }
                let rt = destination.ty(&self.body.local_decls, self.tcx).ty;
                f.push(("rty", J::s(rt.to_string())));
            }
            TerminatorKind::TailCall { func, args, .. } => {
                f.push(("k", J::s("tailcall")));
                f.push(("f", J::obj(vec![("ind", self.operand(func))])));
                f.push(("args", J::Arr(args.iter().map(|a| self.operand(&a.node)).collect())));
            }
            TerminatorKind::Assert { cond, expected, msg, target, unwind } => {
                f.push(("k", J::s("assert")));
                f.push(("cond", self.operand(cond)));
                f.push(("exp", J::Bool(*expected)));
                let (ak, ops): (String, Vec<J>) = match &**msg {
                    AssertKind::BoundsCheck { len, index } => {
                        ("BoundsCheck".into(), vec![self.operand(len), self.operand(index)])
                    }
                    AssertKind::Overflow(op, a, b) => {
                        (format!("Overflow({:?})", op), vec![self.operand(a), self.operand(b)])
                    }
                    AssertKind::OverflowNeg(a) => ("OverflowNeg".into(), vec![self.operand(a)]),
                    AssertKind::DivisionByZero(a) => ("DivisionByZero".into(), vec![self.operand(a)]),
                    AssertKind::RemainderByZero(a) => ("RemainderByZero".into(), vec![self.operand(a)]),
                    AssertKind::MisalignedPointerDereference { .. } => ("Misaligned".into(), vec![]),
                    AssertKind::NullPointerDereference => ("NullDeref".into(), vec![]),
                    AssertKind::InvalidEnumConstruction(_) => ("InvalidEnum".into(), vec![]),
                    _ => ("Resumed".into(), vec![]),
                };
                f.push(("ak", J::s(ak)));
                f.push(("o", J::Arr(ops)));
                f.push(("t", Self::bb(*target)));
                f.push(("uw", Self::unwind(unwind)));
                let mc = macro_chain(t.source_info.span);
                if !mc.is_empty() {
                    f.push(("mac", J::Arr(mc.into_iter().map(J::s).collect())));
                }
            }
            TerminatorKind::FalseEdge { real_target, .. } => {
                f.push(("k", J::s("goto")));
                f.push(("t", Self::bb(*real_target)));
            }
            TerminatorKind::FalseUnwind { real_target, .. } => {
                f.push(("k", J::s("goto")));
                f.push(("t", Self::bb(*real_target)));
            }
            TerminatorKind::Yield { resume, .. } => {
                f.push(("k", J::s("goto")));
                f.push(("t", Self::bb(*resume)));
            }
            TerminatorKind::CoroutineDrop => f.push(("k", J::s("return"))),
            TerminatorKind::InlineAsm { .. } => f.push(("k", J::s("asm"))),
        }
        f.push(("ln", J::n(ln as i128)));
        J::obj(f)
    }
}


fn dump_blocks<'a, 'tcx>(tcx: TyCtxt<'tcx>, cx: &Cx<'a, 'tcx>, body: &Body<'tcx>) -> Vec<J> {
    let mut blocks = Vec::new();
    for (_bb, data) in body.basic_blocks.iter_enumerated() {
        let mut stmts = Vec::new();
        for st in &data.statements {
            match &st.kind {
                StatementKind::Assign(b) => {
                    let (p, r) = &**b;
                    stmts.push(J::obj(vec![
                        ("d", cx.place(p)),
                        ("r", cx.rvalue(r)),
                        ("ln", J::n(line_of(tcx, st.source_info.span) as i128)),
                    ]));
                }
                StatementKind::SetDiscriminant { place, variant_index } => {
                    let t = place.ty(&body.local_decls, tcx).ty;
                    let vname = match t.kind() {
                        ty::Adt(adt, _) => adt.variant(*variant_index).name.to_string(),
                        _ => format!("#{}", variant_index.as_usize()),
                    };
                    stmts.push(J::obj(vec![
                        ("d", cx.place(place)),
                        ("r", J::obj(vec![("k", J::s("setdiscr")), ("v", J::s(vname))])),
                        ("ln", J::n(line_of(tcx, st.source_info.span) as i128)),
                    ]));
                }
                _ => {}
            }
        }
        let term = data.terminator();
        blocks.push(J::obj(vec![
            ("c", J::Bool(data.is_cleanup)),
            ("s", J::Arr(stmts)),
            ("t", cx.terminator(term)),
        ]));
    }
    blocks
}

fn dump_body<'tcx>(tcx: TyCtxt<'tcx>, ldid: LocalDefId, out: &mut String) {
    let def_id = ldid.to_def_id();
    let kind = tcx.def_kind(def_id);
    let body: &Body<'tcx> = tcx.optimized_mir(def_id);
    let env = TypingEnv::post_analysis(tcx, def_id);
    let cx = Cx { tcx, body, env };

    let mut f: Vec<(&'static str, J)> = Vec::new();
    f.push(("rec", J::s("body")));
    f.push(("path", J::s(tcx.def_path_str(def_id))));
    f.push(("kind", J::s(format!("{:?}", kind))));
    let (file, lo, hi) = span_info(tcx, body.span);
    f.push(("file", J::s(file)));
    f.push(("lo", J::n(lo as i128)));
    f.push(("hi", J::n(hi as i128)));
    let mc = macro_chain(tcx.def_span(def_id));
    if !mc.is_empty() {
        f.push(("mac", J::Arr(mc.into_iter().map(J::s).collect())));
    }
    if matches!(kind, DefKind::Closure) {
        let parent = tcx.typeck_root_def_id(def_id);
        f.push(("parent", J::s(tcx.def_path_str(parent))));
    }
    if matches!(kind, DefKind::Fn | DefKind::AssocFn) {
        let vis = tcx.visibility(def_id);
        f.push(("vis", J::s(if vis.is_public() { "pub" } else { "restricted" })));
        let reach = tcx.effective_visibilities(()).is_reachable(ldid);
        f.push(("reachable", J::Bool(reach)));
        f.push(("name", J::s(tcx.item_name(def_id).to_string())));
    }
    if let Some(impl_id) = tcx.impl_of_assoc(def_id) {
        let selfty = tcx.type_of(impl_id).instantiate_identity().skip_norm_wip();
        f.push(("impl_self", J::s(selfty.to_string())));
        if let Some(tr) = tcx.impl_opt_trait_ref(impl_id) {
            let tr = tr.instantiate_identity().skip_norm_wip();
            f.push(("impl_trait", J::s(tcx.def_path_str(tr.def_id))));
            f.push(("impl_trait_full", J::s(tr.to_string())));
        }
        // derive?
        if tcx.is_automatically_derived(impl_id) {
            f.push(("derived", J::Bool(true)));
        }
    } else if let Some(tr) = tcx.trait_of_assoc(def_id) {
        f.push(("trait_default", J::s(tcx.def_path_str(tr))));
    }
    f.push(("nargs", J::n(body.arg_count as i128)));

    // locals
    let mut names: Vec<Option<String>> = vec![None; body.local_decls.len()];
    for vdi in &body.var_debug_info {
        if let mir::VarDebugInfoContents::Place(p) = &vdi.value {
            if p.projection.is_empty() {
                names[p.local.as_usize()] = Some(vdi.name.to_string());
            } else if names[p.local.as_usize()].is_none() {
                // closure captures etc.
            }
        }
    }
    let mut locals = Vec::new();
    for (l, d) in body.local_decls.iter_enumerated() {
        let mut lf = vec![("ty", J::s(d.ty.to_string()))];
        if let Some(n) = &names[l.as_usize()] {
            lf.push(("n", J::s(n.clone())));
        }
        locals.push(J::obj(lf));
    }
    f.push(("locals", J::Arr(locals)));

    let blocks = dump_blocks(tcx, &cx, body);
    f.push(("blocks", J::Arr(blocks)));
    let proms = tcx.promoted_mir(def_id);
    if !proms.is_empty() {
        let mut pv = Vec::new();
        for pb in proms.iter() {
            let pcx = Cx { tcx, body: pb, env };
            pv.push(J::Arr(dump_blocks(tcx, &pcx, pb)));
        }
        f.push(("promoted", J::Arr(pv)));
    }
    J::obj(f).write(out);
    out.push('\n');
}

fn dump<'tcx>(tcx: TyCtxt<'tcx>) -> String {
    let mut out = String::with_capacity(64 << 20);
    let mut nbodies = 0usize;
    // bodies
    for &ldid in tcx.mir_keys(()).iter() {
        let kind = tcx.def_kind(ldid.to_def_id());
        match kind {
            DefKind::Fn | DefKind::AssocFn | DefKind::Closure => {}
            _ => continue,
        }
        if !tcx.is_mir_available(ldid.to_def_id()) {
            continue;
        }
        dump_body(tcx, ldid, &mut out);
        nbodies += 1;
    }
    // items: ADTs, impls, traits, consts
    let items = tcx.hir_crate_items(());
    for ldid in items.definitions() {
        let def_id = ldid.to_def_id();
        match tcx.def_kind(def_id) {
            DefKind::Struct | DefKind::Enum | DefKind::Union => {
                let adt = tcx.adt_def(def_id);
                let mut vars = Vec::new();
                let discrs: Vec<_> = if adt.is_enum() {
                    adt.discriminants(tcx).map(|(_, d)| d.val as i128).collect()
                } else {
                    vec![0]
                };
                for (i, v) in adt.variants().iter().enumerate() {
                    let mut fields = Vec::new();
                    for fd in v.fields.iter() {
                        let fty = tcx.type_of(fd.did).instantiate_identity().skip_norm_wip();
                        fields.push(J::obj(vec![
                            ("n", J::s(fd.name.to_string())),
                            ("ty", J::s(fty.to_string())),
                            ("pub", J::Bool(fd.vis.is_public())),
                        ]));
                    }
                    vars.push(J::obj(vec![
                        ("n", J::s(v.name.to_string())),
                        ("d", J::n(*discrs.get(i).unwrap_or(&0))),
                        ("fields", J::Arr(fields)),
                    ]));
                }
                let (file, lo, _) = span_info(tcx, tcx.def_span(def_id));
                J::obj(vec![
                    ("rec", J::s("adt")),
                    ("path", J::s(tcx.def_path_str(def_id))),
                    ("kind", J::s(format!("{:?}", tcx.def_kind(def_id)))),
                    ("pub", J::Bool(tcx.visibility(def_id).is_public())),
                    ("vars", J::Arr(vars)),
                    ("file", J::s(file)),
                    ("lo", J::n(lo as i128)),
                ])
                .write(&mut out);
                out.push('\n');
            }
            DefKind::Impl { .. } => {
                let selfty = tcx.type_of(def_id).instantiate_identity().skip_norm_wip();
                let mut f = vec![
                    ("rec", J::s("impl")),
                    ("self", J::s(selfty.to_string())),
                ];
                if let ty::Adt(adt, _) = selfty.kind() {
                    f.push(("self_adt", J::s(tcx.def_path_str(adt.did()))));
                }
                if let Some(tr) = tcx.impl_opt_trait_ref(def_id) {
                    let tr = tr.instantiate_identity().skip_norm_wip();
                    f.push(("trait", J::s(tcx.def_path_str(tr.def_id))));
                    f.push(("trait_full", J::s(tr.to_string())));
                }
                if tcx.is_automatically_derived(def_id) {
                    f.push(("derived", J::Bool(true)));
                }
                let mut its = Vec::new();
                for it in tcx.associated_items(def_id).in_definition_order() {
                    if matches!(it.kind, ty::AssocKind::Fn { .. }) {
                        its.push(J::obj(vec![
                            ("n", J::s(it.name().to_string())),
                            ("path", J::s(tcx.def_path_str(it.def_id))),
                        ]));
                    }
                }
                f.push(("fns", J::Arr(its)));
                J::obj(f).write(&mut out);
                out.push('\n');
            }
            DefKind::Trait => {
                let mut its = Vec::new();
                for it in tcx.associated_items(def_id).in_definition_order() {
                    if matches!(it.kind, ty::AssocKind::Fn { .. }) {
                        its.push(J::obj(vec![
                            ("n", J::s(it.name().to_string())),
                            ("path", J::s(tcx.def_path_str(it.def_id))),
                            ("default", J::Bool(it.defaultness(tcx).has_value())),
                        ]));
                    }
                }
                J::obj(vec![
                    ("rec", J::s("trait")),
                    ("path", J::s(tcx.def_path_str(def_id))),
                    ("fns", J::Arr(its)),
                ])
                .write(&mut out);
                out.push('\n');
            }
            DefKind::Const { .. } | DefKind::AssocConst { .. } => {
                let ty = tcx.type_of(def_id).instantiate_identity().skip_norm_wip();
                if ty.is_integral() || ty.is_bool() {
                    let generics = tcx.generics_of(def_id);
                    if generics.count() == 0 && generics.parent_count == 0 {
                        if let Ok(cv) = tcx.const_eval_poly(def_id) {
                            if let Some(si) = cv.try_to_scalar_int() {
                                let size = si.size();
                                let v: i128 = if ty.is_signed() {
                                    si.to_int(size)
                                } else {
                                    si.to_uint(size) as i128
                                };
                                J::obj(vec![
                                    ("rec", J::s("const")),
                                    ("path", J::s(tcx.def_path_str(def_id))),
                                    ("ty", J::s(ty.to_string())),
                                    ("v", J::n(v)),
                                ])
                                .write(&mut out);
                                out.push('\n');
                            }
                        }
                    }
                }
            }
            _ => {}
        }
    }
    let mut meta = String::new();
    let _ = write!(
        meta,
        "{{\"rec\":\"meta\",\"crate\":\"{}\",\"bodies\":{}}}\n",
        tcx.crate_name(rustc_hir::def_id::LOCAL_CRATE),
        nbodies
    );
    out.push_str(&meta);
    out
}

#[allow(dead_code)]
fn _unused(_: BinOp) {}
