#!/bin/bash
# usage: confirm_seed.sh <seed-dir> <name>   (seed-dir has patch.diff demo.rs meta.json)
# Confirms in a scratch worktree (outside /repo and /verif): patched suite passes, demo fails with patch, passes without.
# Writes <seed-dir>/confirm.json
set -u
SD="$1"; NAME="$2"
WT=/tmp/confirm-wt
BASE=41dca7a
export CARGO_NET_OFFLINE=true CARGO_TARGET_DIR=$WT/target
if [ ! -d $WT ]; then git -C /repo worktree add --detach $WT $BASE >/dev/null 2>&1 || exit 2; fi
cd $WT && git checkout -q -- . && git clean -fdq -e target
# round-1 seeds were written against the pinned snapshot, later rounds against the repaired tree: use the newest base the patch applies to
USED=""
case "$NAME" in C01-*|C06-*|C14-*) ORDER="$(git -C /repo rev-parse main) $BASE";; *-a|*-b) ORDER="$BASE $(git -C /repo rev-parse main)";; *) ORDER="$(git -C /repo rev-parse main) $BASE";; esac
for B in $ORDER; do
  git checkout -q --detach $B
  if git apply --check $SD/patch.diff 2>/dev/null; then USED=$B; break; fi
done
if [ -z "$USED" ]; then echo "{\"name\":\"$NAME\",\"error\":\"patch applies to neither main nor the snapshot\"}" > $SD/confirm.json; exit 1; fi
DEMO_PATH=$(python3 -c "import json;print(json.load(open('$SD/meta.json')).get('demo_path','tests/seed_demo.rs'))")
DEMO_NAME=$(basename $DEMO_PATH .rs)
git apply $SD/patch.diff || { echo "{\"name\":\"$NAME\",\"error\":\"patch does not apply\"}" > $SD/confirm.json; exit 1; }
cargo nextest run --workspace --no-fail-fast --offline --test-threads 12 > /tmp/confirm-$NAME-suite.log 2>&1
SUITE=$(grep -E "^\s+Summary" /tmp/confirm-$NAME-suite.log | tail -1)
mkdir -p $(dirname $DEMO_PATH); cp $SD/demo.rs $DEMO_PATH
cargo test --offline --test $DEMO_NAME > /tmp/confirm-$NAME-demo-with.log 2>&1; WITH=$?
git apply -R $SD/patch.diff
cargo test --offline --test $DEMO_NAME > /tmp/confirm-$NAME-demo-without.log 2>&1; WITHOUT=$?
rm -f $DEMO_PATH
git checkout -q -- . 
python3 - <<PY
import json
json.dump(dict(name="$NAME", base="$USED", suite_with_patch="""$SUITE""".strip(), demo_exit_with_patch=$WITH, demo_exit_without_patch=$WITHOUT,
  confirmed=("failed" not in """$SUITE""" and "passed" in """$SUITE""" and $WITH!=0 and $WITHOUT==0)), open("$SD/confirm.json","w"), indent=1)
PY
cat $SD/confirm.json
