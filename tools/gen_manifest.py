#!/usr/bin/env python3
"""Generate /verif/MANIFEST.json from the table below; only properties with a rules module are claimed."""
import json, os
V = os.path.dirname(os.path.dirname(os.path.abspath(__file__)))

NA = {
}

CLAIMS = {
    'C01': ("R-table/R-sib/R-dom (narrow): layer twins of builder and reader agree by construction (mode / compression / chunk-size tables, length partitions, single derivations, R-len of message packets, stage machines cannot end early); byte-exact round trip over all lengths not decided", "§5 C01 / §11.10"),
    'C02': ("R-dom/R-sib/R-table over MIR: every accept path of every verifier evaluates prefix check, type binding, issuer match, version alignment, back-signature, then the primitive", "§5 C02"),
    'C03': ("R-dom/R-who over MIR: a clean end-of-stream is reachable only through the MDC comparison / final AEAD tag; check-first releases nothing before Done", "§5 C03"),
    'C04': ("R-panic/R-rec over MIR: every panic-capable site is proved safe by a zone (difference-bound) abstract interpretation of its body or an exact constant argument, or is in the reviewed baseline (with a guard ratchet); the discharger is calibrated against ok/bad cases on every run; recursion inventoried, depth guards, poison states, input loops", "§5 C04 / §11.12"),
    'C05': ("R-len (symbolic write_len vs to_writer), R-table (inverse code tables), header-length derivation", "§5 C05"),
    'C06': ("R-sib/R-seq (narrow): sign/verify twins feed the same frame sequence, one text-mode selection, streaming canonicaliser adds nothing at end of input; equality of canonicalisers on all inputs not decided", "§5 C06 / §11.8"),
    'C07': ("R-dom/origin: signing-capable subkeys get an embedded back-signature; builder validation dominates build", "§5 C07"),
    'C08': ("R-table (usage octet tables inverse) + R-dom (every unlock path passes its checksum/AEAD check; v6/Argon2 restrictions)", "§5 C08"),
    'C09': ("R-err (no I/O error dropped) + R-pair (buffered tails finished explicitly) + error-state table", "§5 C09"),
    'C10': ("R-lost (CRC accumulated in place), R-dom (CRC compared), generic-arg check (64 column writer), R-pair", "§5 C10"),
    'C11': ("R-seq/R-table: framing constants, length widths and feed order equal the RFC 9580 §5.2.4 template; sign/verify twins agree", "§5 C11"),
    'C12': ("R-table/R-seq/R-who (narrow): KDF and AEAD input constants, field order and single derivation equal the RFC 9580 templates; byte streams themselves not decided", "§5 C12 / §11.7"),
    'C13': ("R-who (single fingerprint implementation + pure forwarders), R-table (RFC framing constants), origin of embedded ids", "§5 C13"),
    'C14': ("R-who/R-dom/R-table (narrow): finaliser emits nothing, literal table, carry discipline, single batch routine, one selection rule; equality of the three canonicalisers on all inputs not decided", "§5 C14 / §11.8"),
    'C15': ("R-dom/R-sib/R-table over MIR: each acceptance rule is a guard on every path of every parallel implementation", "§5 C15"),
    'C16': ("R-sib/R-who/R-dom: signer and verifier hash the same derived form; only escaped text is representable; header validation on parse", "§5 C16"),
    'C17': ("R-table (interval partition of length encoders/decoders vs RFC), R-dom reader legality guards and writer chunk guards", "§5 C17"),
    'C18': ("R-dom/R-table: session key accepted only after checksum/plausibility; inconsistency and absence are errors", "§5 C18"),
    'C19': ("R-alloc taint (no allocation sized by unclamped declared length), R-dom ceilings, R-rec", "§5 C19"),
}

LEVEL_TEXT = ("Static analysis over the type-checked program (rustc MIR facts extracted by a rustc_private driver from /repo's current tree): "
              "decides structural necessary conditions of the property exhaustively over all CFG paths of the named functions; "
              "it is not a proof of the behavioural property. ")

def main():
    checks = []
    na = [dict(property_id=k, reason=v) for k, v in sorted(NA.items())]
    for pid, (tech, ref) in sorted(CLAIMS.items()):
        if not os.path.exists(os.path.join(V, 'rules', pid.lower() + '.py')):
            na.append(dict(property_id=pid, reason='not claimed yet in this revision: rule instances under construction (see DESIGN ' + ref + ')'))
            continue
        checks.append(dict(
            property_id=pid,
            quick_cmd='./check %s --tier quick' % pid,
            thorough_cmd='./check %s --tier thorough' % pid,
            evidence_file='/verif/evidence/%s.json' % pid,
            replay_cmd_template='./check %s --replay {path}' % pid,
            engine='mirfacts+rules',
            level_claimed=dict(category='other', text=LEVEL_TEXT + tech, design_ref='DESIGN.md ' + ref),
            level_note='Trusted: rustc nightly MIR construction; guard callees and dependency crates behave as named; flow-insensitive origin analysis may accept a comparison on the right fields with wrong values. Reviewed exception tables under rules/reviewed/.',
            technique='static analysis: custom rustc_private MIR driver + repo-specific dataflow/dominance/table rules (' + tech.split(':')[0] + ')',
        ))
    na.sort(key=lambda r: r['property_id'])
    m = dict(
        version=1,
        setup_cmd='sh tools/setup.sh',
        hooks=dict(guard='rpgp_verif', enable='none needed: the checks analyse /repo as built by `cargo +nightly check --lib` (no instrumentation)',
                   baseline_off_cmd='cd /repo && cargo nextest run --workspace --no-fail-fast --offline || cargo test --workspace --no-fail-fast --offline',
                   source_commits=[], add_only=True),
        engines=[
            dict(name='mirfacts', path='tools/mirfacts', serves_properties=sorted(c['property_id'] for c in checks), kind_free_text='rustc_private driver dumping MIR/ADT/impl facts of crate pgp as JSON lines'),
            dict(name='rules', path='engine + rules', serves_properties=sorted(c['property_id'] for c in checks), kind_free_text='python3 stdlib rule engine: CFG reachability/dominance, origin dataflow, table extraction, call graph'),
        ],
        checks=checks,
        not_applicable=na,
        notes='All checks are static: nothing from /repo is executed. See DESIGN.md.',
    )
    with open(os.path.join(V, 'MANIFEST.json'), 'w') as fh:
        json.dump(m, fh, indent=1)
    print('claimed', [c['property_id'] for c in checks])

if __name__ == '__main__':
    main()
