// F42 demonstration (tests/f42_demo.rs in a scratch worktree before the fix): "two presented secrets yield different session keys, but no conflict was reported".
use pgp::composed::{Message, MessageBuilder, PlainSessionKey, TheRing};
use pgp::crypto::sym::SymmetricKeyAlgorithm;
use pgp::types::{Password, StringToKey};
use rand::SeedableRng;

#[test]
fn conflicting_secrets_are_reported_when_cross_checking() {
    let mut rng = rand_chacha::ChaCha8Rng::seed_from_u64(42);
    let pw = Password::from("correct");
    let mut builder = MessageBuilder::from_bytes("", b"hello".to_vec())
        .seipd_v1(&mut rng, SymmetricKeyAlgorithm::AES128);
    builder
        .encrypt_with_password(StringToKey::new_default(&mut rng), &pw)
        .unwrap();
    let bytes = builder.to_vec(&mut rng).unwrap();

    // the right password alone works
    let msg = Message::from_bytes(&bytes[..]).unwrap();
    let mut ok = msg.decrypt_with_password(&pw).unwrap();
    assert_eq!(ok.as_data_vec().unwrap(), b"hello");

    // the right password AND a wrong explicit session key, cross-checking requested (abort_early = false)
    let wrong = PlainSessionKey::V3_4 {
        sym_alg: SymmetricKeyAlgorithm::AES128,
        key: vec![0x55u8; 16].into(),
    };
    let ring = TheRing {
        message_password: vec![&pw],
        session_keys: vec![wrong],
        ..Default::default()
    };
    let msg = Message::from_bytes(&bytes[..]).unwrap();
    let res = msg.decrypt_the_ring(ring, false);
    assert!(res.is_err(), "two presented secrets yield different session keys, but no conflict was reported and one of them was silently used");
}
