//! F46 (known finding, not repaired): PacketHeaderVersion::write_header cuts a length above 2^32-1 to its low 32 bits.
//! The pinned proptest types::packet::tests::header_len calls write_header(.., len: usize).unwrap() for arbitrary usize,
//! so a checked conversion makes the unedited suite fail.
use pgp::types::{PacketHeaderVersion, Tag};

/// A packet header announces at most 2^32-1 octets. A larger length was cut to its low 32 bits.
#[test]
fn header_length_is_not_truncated() {
    for version in [PacketHeaderVersion::Old, PacketHeaderVersion::New] {
        let mut out = Vec::new();
        let res = version.write_header(&mut out, Tag::LiteralData, (1usize << 32) + 5);
        assert!(
            res.is_err(),
            "{version:?}: a length of 2^32+5 was announced as {:02x?}",
            out
        );
        // control
        let mut out = Vec::new();
        version
            .write_header(&mut out, Tag::LiteralData, u32::MAX as usize)
            .unwrap();
        assert_eq!(&out[out.len() - 4..], &[0xff; 4]);
    }
}
