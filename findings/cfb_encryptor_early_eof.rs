// F27 demonstration (tests/f27_demo.rs in a scratch worktree before commit 84e200d): "plaintext len 0, read step 1: read() loop produced 18 octets, read_to_end 40".
use std::io::Read;

use pgp::crypto::sym::SymmetricKeyAlgorithm;
use rand::SeedableRng;

fn drive_with_read(mut r: impl Read, step: usize) -> Vec<u8> {
    let mut out = Vec::new();
    let mut buf = vec![0u8; step];
    loop {
        let n = r.read(&mut buf).unwrap();
        if n == 0 {
            break;
        }
        out.extend_from_slice(&buf[..n]);
    }
    out
}

#[test]
fn cfb_stream_encryptor_read_vs_read_to_end() {
    let alg = SymmetricKeyAlgorithm::AES128;
    let key = [7u8; 16];
    for len in [0usize, 1, 8 * 1024, 8 * 1024 + 1, 16 * 1024] {
        let plain = vec![0x42u8; len];
        let rng = rand_chacha::ChaCha8Rng::seed_from_u64(3);
        let mut full = Vec::new();
        alg.stream_encryptor(rng, &key, &plain[..]).unwrap().read_to_end(&mut full).unwrap();
        for step in [1usize, 7, 18, 4096, 100_000] {
            let rng = rand_chacha::ChaCha8Rng::seed_from_u64(3);
            let got = drive_with_read(alg.stream_encryptor(rng, &key, &plain[..]).unwrap(), step);
            assert_eq!(got.len(), full.len(), "plaintext len {len}, read step {step}: read() loop produced {} octets, read_to_end {}", got.len(), full.len());
            assert_eq!(got, full);
        }
    }
}
