// F38 demonstration (tests/f38_demo.rs in a scratch worktree before the fix): "tag 17 was written as a legacy header: [c4, 05]".
use pgp::types::{PacketHeaderVersion, Tag};

#[test]
fn legacy_header_writer_refuses_large_tags() {
    let mut buf = Vec::new();
    let res = PacketHeaderVersion::Old.write_header(&mut buf, Tag::UserAttribute, 5);
    assert!(res.is_err(), "tag 17 was written as a legacy header: {:02x?} (0xC4 is a new-format header of tag 4)", buf);
}
