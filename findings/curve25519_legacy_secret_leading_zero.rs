//! F73 (C05/C07): the Curve25519Legacy ECDH secret scalar was written with `Mpi::from_raw`, which keeps a leading zero octet: a
//! scalar whose most significant octet is zero (1 key in 256 unless clamped, and legal in keys made elsewhere) was written as
//! `00 F8` (248 bits) followed by 32 octets - an MPI that cannot be read back (the reader takes 31).
use pgp::crypto::ecdh::{Curve25519Legacy, SecretKey};
use pgp::ser::Serialize;
use pgp::types::Mpi;

#[test]
fn scalar_with_a_zero_top_octet_is_written_as_a_readable_mpi() {
    // big endian, as in the MPI of a secret key packet: 31 significant octets (the top octet of the 32 is zero)
    let mut be = vec![0x17u8; 31];
    be[0] = 0x40;
    let key = SecretKey::Curve25519Legacy(Curve25519Legacy::try_from_bytes_rev(&be).unwrap());
    let bytes = Serialize::to_bytes(&key).unwrap();
    assert_eq!(bytes.len(), Serialize::write_len(&key));
    let bits = usize::from(u16::from_be_bytes([bytes[0], bytes[1]]));
    assert_eq!((bits + 7) / 8, bytes.len() - 2, "announced bit count {bits} does not cover the {} octets that follow", bytes.len() - 2);
    let mpi = Mpi::try_from_reader(&bytes[..]).unwrap();
    assert_eq!(mpi.as_ref(), &be[..], "the scalar does not read back");
}
