//! F60 (C05/C02): `KeyFlags::try_from_reader` decoded the first two octets through the generated `KnownKeyFlags::from_bits`,
//! which resets the padding bits: `[0x02, 0x01]` came back as `[0x02, 0x00]` (and was hashed like that).
use pgp::packet::KeyFlags;
use pgp::ser::Serialize;

#[test]
fn key_flags_reserved_bits_round_trip() {
    for wire in [[0x02u8, 0x01], [0x00, 0x02], [0xff, 0xff], [0x01, 0xf0]] {
        let flags = KeyFlags::try_from_reader(&wire[..]).unwrap();
        assert_eq!(flags.to_bytes().unwrap(), wire, "key flags do not round trip");
        assert_eq!(flags.write_len(), 2);
    }
}
