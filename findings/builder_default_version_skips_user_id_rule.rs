// F25 demonstration (tests/f25_demo.rs in a scratch worktree before commit e95cd5e): "accepted: generated a vV4 key with 0 user ids and 0 direct signatures"
use pgp::composed::{KeyType, SecretKeyParamsBuilder};
use pgp::types::KeyVersion;
use rand::SeedableRng;

#[test]
fn default_version_without_primary_user_id() {
    // explicit V4: refused
    let e = SecretKeyParamsBuilder::default()
        .version(KeyVersion::V4)
        .key_type(KeyType::Ed25519Legacy)
        .can_sign(true)
        .build();
    assert!(e.is_err());
    // unset version (defaults to V4): must be judged the same
    let p = SecretKeyParamsBuilder::default()
        .key_type(KeyType::Ed25519Legacy)
        .can_sign(true)
        .can_certify(true)
        .build();
    if let Ok(p) = p {
        let rng = rand_chacha::ChaCha8Rng::seed_from_u64(1);
        let key = p.generate(rng).unwrap();
        panic!(
            "accepted: generated a v{:?} key with {} user ids and {} direct signatures: the requested key flags are recorded nowhere",
            pgp::types::KeyDetails::version(&key.primary_key),
            key.details.users.len(),
            key.details.direct_signatures.len()
        );
    }
}
