//! F47: reading again after a failed read panicked instead of returning an error.
use std::io::Read;

use pgp::{
    armor::Dearmor,
    composed::{DecryptionOptions, Message, MessageBuilder, TheRing},
    crypto::sym::SymmetricKeyAlgorithm,
    types::{Password, Seipdv1ReadMode, StringToKey},
};
use rand::SeedableRng;
use rand_chacha::ChaCha8Rng;

fn read_twice<R: Read>(mut r: R, what: &str) {
    let mut out = Vec::new();
    let first = r.read_to_end(&mut out);
    assert!(first.is_err(), "{what}: control: the first read must fail");
    // a consumer that asks again (an iterator over bytes()/lines(), a retry loop) gets an error or end-of-stream, not a panic
    let mut buf = [0u8; 16];
    let second = std::panic::catch_unwind(std::panic::AssertUnwindSafe(|| r.read(&mut buf)));
    assert!(second.is_ok(), "{what}: the second read panicked");
}

#[test]
fn dearmor_after_footer_error() {
    let input = "-----BEGIN PGP PUBLIC KEY BLOCK-----\n\nxmQEXwAAABYJ\n-----END PGP GARBAGE-----\n";
    read_twice(Dearmor::new(input.as_bytes()), "dearmor");
}

fn encrypted(seipd_v2: bool) -> Vec<u8> {
    let mut rng = ChaCha8Rng::seed_from_u64(47);
    let s2k = StringToKey::new_default(&mut rng);
    let data = vec![7u8; 300_000];
    if seipd_v2 {
        let mut b = MessageBuilder::from_bytes("", data).seipd_v2(
            &mut rng,
            SymmetricKeyAlgorithm::AES128,
            pgp::crypto::aead::AeadAlgorithm::Ocb,
            pgp::crypto::aead::ChunkSize::C64B,
        );
        b.encrypt_with_password(&mut rng, s2k, &Password::from("pw")).unwrap();
        b.to_vec(&mut rng).unwrap()
    } else {
        let mut b = MessageBuilder::from_bytes("", data).seipd_v1(&mut rng, SymmetricKeyAlgorithm::AES128);
        b.encrypt_with_password(s2k, &Password::from("pw")).unwrap();
        b.to_vec(&mut rng).unwrap()
    }
}

fn decrypt_streaming(bytes: &[u8]) -> Message<'_> {
    let pw = Password::from("pw");
    let ring = TheRing {
        message_password: vec![&pw],
        decrypt_options: DecryptionOptions::new().set_seipdv1_read_mode(Seipdv1ReadMode::Streaming),
        ..Default::default()
    };
    let (msg, _) = Message::from_bytes(bytes)
        .unwrap()
        .decrypt_the_ring(ring, true)
        .map_err(|e| e.to_string())
        .expect("decrypt");
    msg
}

#[test]
fn seipdv1_after_integrity_error() {
    let mut bytes = encrypted(false);
    let n = bytes.len();
    bytes[n - 3] ^= 1;
    read_twice(decrypt_streaming(&bytes), "seipdv1 (streaming mode)");
}

#[test]
fn seipdv2_after_integrity_error() {
    let mut bytes = encrypted(true);
    let n = bytes.len();
    bytes[n - 3] ^= 1;
    read_twice(decrypt_streaming(&bytes), "seipdv2");
}

#[test]
fn seipdv1_truncated() {
    let bytes = encrypted(false);
    // a fixed-length packet cut short
    let cut = bytes[..bytes.len() - 40].to_vec();
    if let Ok(msg) = Message::from_bytes(&cut[..]) {
        if let Ok(msg) = msg.decrypt_with_password(&Password::from("pw")) {
            read_twice(msg, "seipdv1 truncated");
        }
    };
}
