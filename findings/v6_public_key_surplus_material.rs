//! F86 (C05/C13): the v6 public key parser read the key material through a reader limited to the announced octet count, but never
//! tested that reader for leftovers (the secret key parser does, for the same public part): a v6 X25519 public key announcing 40
//! octets (32 of key + 8 surplus) was accepted through PublicKey::try_from_reader, the surplus dropped, and the key written back -
//! and fingerprinted - with count 32.
use pgp::{
    crypto::hash::HashAlgorithm,
    packet::{PacketHeader, PublicKey},
    ser::Serialize,
    types::{KeyDetails, Tag},
};

fn v6_fp(body: &[u8]) -> Vec<u8> {
    let mut data = vec![0x9B];
    data.extend_from_slice(&(body.len() as u32).to_be_bytes());
    data.extend_from_slice(body);
    HashAlgorithm::Sha256.digest(&data).unwrap()
}


#[test]
fn r1_v6_public_key_with_surplus_public_material() {
    // v6, X25519 (25), declared public material length 40: 32 octets key + 8 octets surplus
    let mut body = vec![6u8, 0x63, 0x87, 0x7f, 0xe3, 25];
    body.extend_from_slice(&40u32.to_be_bytes());
    body.extend_from_slice(&[0x11u8; 32]);
    body.extend_from_slice(&[0xEEu8; 8]);

    let header = PacketHeader::new_fixed(Tag::PublicKey, body.len() as u32);
    match PublicKey::try_from_reader(header, &body[..]) {
        Err(_) => {} // refusing is fine
        Ok(key) => {
            // accepted: then it has to be the key that was read
            assert_eq!(
                hex::encode(key.fingerprint().as_bytes()),
                hex::encode(v6_fp(&body)),
                "fingerprint is not the SHA-256 over the 0x9B framed body of the packet"
            );
            assert_eq!(key.to_bytes().unwrap(), body);
        }
    }
}
