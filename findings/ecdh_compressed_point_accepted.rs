//! F85 (C05/C13): the ECDH public-parameter reader handed the octets of the point MPI straight to `from_sec1_bytes` for the NIST
//! curves, which also decodes the compressed forms (`02/03 || X`).  A v4 ECDH P-256 key with a compressed point (33 octets) was
//! accepted, written back with the uncompressed point (86 octets behind a 54-octet header) and fingerprinted over that other body;
//! the ECDSA sibling copies the MPI into a fixed 65-octet array, so a short point cannot decode there.
use pgp::{
    crypto::hash::HashAlgorithm,
    packet::{PacketHeader, PublicKey},
    ser::Serialize,
    types::{KeyDetails, Tag},
};

#[allow(dead_code)]
fn v6_fp(body: &[u8]) -> Vec<u8> {
    let mut data = vec![0x9B];
    data.extend_from_slice(&(body.len() as u32).to_be_bytes());
    data.extend_from_slice(body);
    HashAlgorithm::Sha256.digest(&data).unwrap()
}

fn v4_fp(body: &[u8]) -> Vec<u8> {
    let mut data = vec![0x99];
    data.extend_from_slice(&(body.len() as u16).to_be_bytes());
    data.extend_from_slice(body);
    HashAlgorithm::Sha1.digest(&data).unwrap()
}


#[test]
fn r2_v4_ecdh_p256_compressed_point() {
    // generator of P-256, compressed
    let gx = hex::decode("6B17D1F2E12C4247F8BCE6E563A440F277037D812DEB33A0F4A13945D898C296")
        .unwrap();
    let mut point = vec![0x03];
    point.extend_from_slice(&gx);

    let oid = [0x2A, 0x86, 0x48, 0xCE, 0x3D, 0x03, 0x01, 0x07];
    let mut body = vec![4u8, 0x63, 0x87, 0x7f, 0xe3, 18];
    body.push(oid.len() as u8);
    body.extend_from_slice(&oid);
    body.extend_from_slice(&(32u16 * 8 + 2).to_be_bytes());
    body.extend_from_slice(&point);
    body.extend_from_slice(&[3, 1, 8, 7]);

    let header = PacketHeader::new_fixed(Tag::PublicKey, body.len() as u32);
    match PublicKey::try_from_reader(header, &body[..]) {
        Err(_) => {} // refusing is fine
        Ok(key) => {
            assert_eq!(
                hex::encode(key.fingerprint().as_bytes()),
                hex::encode(v4_fp(&body)),
                "fingerprint is not the SHA-1 over the 0x99 framed body of the packet"
            );
            assert_eq!(key.to_bytes().unwrap(), body);
        }
    }
}

