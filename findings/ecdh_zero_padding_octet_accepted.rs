//! F67 (C12/C18): ECDH unpadding accepted a padding octet of 0: the whole AES-key-unwrapped block was returned as session key
//! material, where RFC 9580 11.5 / RFC 8018 padding always has 1..=255 octets and an RFC implementation refuses the block.
use pgp::crypto::{aes_kw, ecc_curve::ECCCurve, ecdh, hash::HashAlgorithm, sym::SymmetricKeyAlgorithm};

#[test]
fn ecdh_rejects_zero_padding_octet() {
    let shared = [7u8; 32];
    let fp = [1u8; 20];
    let param = ecdh::build_ecdh_param(
        &ECCCurve::P256.oid(),
        SymmetricKeyAlgorithm::AES128,
        HashAlgorithm::Sha256,
        &fp,
    );
    let z = ecdh::kdf(HashAlgorithm::Sha256, &shared, 16, &param).unwrap();
    // 24 octets whose last octet is 0: not a valid PKCS5 padding (pad octets are 1..)
    let mut plain = vec![0x55u8; 24];
    plain[23] = 0;
    let wrapped = aes_kw::wrap(&z, &plain).unwrap();
    let res = ecdh::derive_session_key(
        &shared,
        &wrapped,
        wrapped.len(),
        ECCCurve::P256,
        HashAlgorithm::Sha256,
        SymmetricKeyAlgorithm::AES128,
        &fp,
    );
    assert!(res.is_err(), "accepted: {:?}", res.map(|k| hex::encode(&k[..])));
}
