//! F68 (C10): leading text in front of an armored block is skipped by searching for `-----`; the header line parser must then
//! match at once.  Leading text that itself contains five dashes (a forwarded-mail rule, a Markdown ruler) made the armor unreadable.
use std::io::Read;

use pgp::armor::{self, BlockType, Dearmor};

#[test]
fn leading_text_may_contain_dashes() {
    // a literal data packet as payload
    let lit = pgp::packet::LiteralData::from_bytes(&[][..], b"hello armor, hello world".to_vec().into()).unwrap();
    let data = pgp::ser::Serialize::to_bytes(&pgp::packet::Packet::from(lit.clone())).unwrap();
    let mut armored = Vec::new();
    armor::write(&pgp::packet::Packet::from(lit), BlockType::Message, &mut armored, None, true).unwrap();

    for lead in ["", "some text\n", "----- Forwarded message -----\n", "a\n------\nb\n", "-----BEGIN\n"] {
        let mut input = lead.as_bytes().to_vec();
        input.extend_from_slice(&armored);
        let mut dearmor = Dearmor::new(&input[..]);
        let mut out = Vec::new();
        dearmor.read_to_end(&mut out).unwrap_or_else(|e| panic!("leading text {lead:?}: {e}"));
        assert_eq!(out, data, "leading text {lead:?}");
        assert_eq!(dearmor.typ, Some(BlockType::Message));
    }
}
