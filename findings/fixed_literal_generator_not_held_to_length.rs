//! F83 (C17): LiteralDataFixedGenerator wrote a header announcing `source_len` octets and then forwarded whatever the source
//! delivered, without holding it to that length.  MessageBuilder::from_file takes the length from the file metadata: a file whose
//! content differs from it (grown or cut while being read; files under /proc, whose metadata size is 0) produced a stream whose
//! declared packet length does not match the octets that follow - `cb 06` followed by 129 body octets for /proc/version - with no
//! error.  Now the source is held to the announced length: fewer or more octets are an error.
use pgp::composed::{Message, MessageBuilder};
use rand::SeedableRng;
use rand_chacha::ChaCha20Rng;

#[test]
#[cfg(target_os = "linux")]
fn from_file_is_held_to_the_length_it_announced() {
    let path = "/proc/version";
    let meta_len = std::fs::metadata(path).unwrap().len();
    let content = std::fs::read(path).unwrap();
    assert_eq!(meta_len, 0);
    assert!(!content.is_empty());

    let rng = ChaCha20Rng::seed_from_u64(1);
    match MessageBuilder::from_file(path).to_vec(rng) {
        Err(_) => {} // refused: the source did not have the announced length
        Ok(out) => {
            // new format literal packet with a one octet length: it must cover all bytes that follow, and read back as the content
            assert_eq!(out[0], 0xCB);
            assert_eq!(out[1] as usize, out.len() - 2, "declared body length does not match the bytes that were written");
            let mut msg = Message::from_bytes(&out[..]).unwrap();
            assert_eq!(msg.as_data_vec().unwrap(), content);
        }
    }
}

#[test]
fn a_regular_file_still_round_trips() {
    let dir = std::env::temp_dir().join(format!("f83-{}", std::process::id()));
    std::fs::create_dir_all(&dir).unwrap();
    let path = dir.join("plain.txt");
    for len in [0usize, 1, 191, 192, 8383, 8384, 100_000] {
        let content: Vec<u8> = (0..len).map(|i| (i % 251) as u8).collect();
        std::fs::write(&path, &content).unwrap();
        let rng = ChaCha20Rng::seed_from_u64(1);
        let out = MessageBuilder::from_file(&path).to_vec(rng).unwrap();
        let mut msg = Message::from_bytes(&out[..]).unwrap();
        assert_eq!(msg.as_data_vec().unwrap(), content, "len {len}");
    }
    let _ = std::fs::remove_dir_all(&dir);
}
