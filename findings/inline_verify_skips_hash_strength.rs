// F41 demonstration (tests/f41_demo.rs, cargo test --features draft-pqc, in a scratch worktree before the fix): "the same signature is accepted by inline message verification although detached verification refuses it".
#![cfg(feature = "draft-pqc")]
//! run with: cargo test --offline --features draft-pqc --test f41_demo
use std::io::Read;

use bytes::Bytes;
use pgp::{
    composed::{KeyType, Message, SecretKeyParamsBuilder, SignedSecretKey},
    crypto::hash::HashAlgorithm,
    packet::{LiteralData, OnePassSignature, PacketTrait, Signature, SignatureConfig, SignatureType, Subpacket, SubpacketData},
    types::{KeyDetails, KeyVersion, Password, SigningKey, Timestamp},
};
use rand::SeedableRng;

const PLAIN: &[u8] = b"hello pqc";

fn key() -> SignedSecretKey {
    let mut rng = rand_chacha::ChaCha8Rng::seed_from_u64(41);
    SecretKeyParamsBuilder::default()
        .version(KeyVersion::V6)
        .key_type(KeyType::MlDsa65Ed25519)
        .can_sign(true)
        .can_certify(true)
        .build()
        .unwrap()
        .generate(&mut rng)
        .unwrap()
}

/// v6 binary signature over PLAIN with a 224 bit digest, hashed with the library's own helpers, signed with the raw primitive
fn weak_hash_signature(key: &SignedSecretKey) -> Signature {
    let hash_alg = HashAlgorithm::Sha224;
    let salt = vec![7u8; hash_alg.salt_len().unwrap()];
    let mut config = SignatureConfig::v6_with_salt(SignatureType::Binary, key.algorithm(), hash_alg, salt.clone());
    config.hashed_subpackets = vec![
        Subpacket::regular(SubpacketData::SignatureCreationTime(Timestamp::now())).unwrap(),
        Subpacket::regular(SubpacketData::IssuerFingerprint(key.fingerprint())).unwrap(),
    ];
    let mut hasher = hash_alg.new_hasher().unwrap();
    hasher.update(&salt);
    hasher.update(PLAIN);
    let len = config.hash_signature_data(&mut hasher).unwrap();
    hasher.update(&config.trailer(len).unwrap());
    let digest = hasher.finalize();
    let raw = key.primary_key.sign(&Password::empty(), hash_alg, &digest).expect("raw sign");
    Signature::from_config(config, [digest[0], digest[1]], raw).unwrap()
}

#[test]
fn inline_and_detached_verification_judge_alike() {
    let key = key();
    let sig = weak_hash_signature(&key);
    let detached = sig.verify(&key.primary_key.public_key(), PLAIN);
    assert!(detached.is_err(), "control: detached verification refuses a PQC signature over a 224 bit digest");

    let ops = OnePassSignature::v6(SignatureType::Binary, HashAlgorithm::Sha224, key.algorithm(), vec![7u8; 16], key.fingerprint().as_bytes().try_into().unwrap());
    let mut bytes = Vec::new();
    ops.to_writer_with_header(&mut bytes).unwrap();
    LiteralData::from_bytes(&b""[..], Bytes::from_static(PLAIN)).unwrap().to_writer_with_header(&mut bytes).unwrap();
    sig.to_writer_with_header(&mut bytes).unwrap();
    let mut msg = Message::from_bytes(&bytes[..]).unwrap();
    let mut data = Vec::new();
    msg.read_to_end(&mut data).unwrap();
    let inline = msg.verify(&key.primary_key.public_key());
    assert!(inline.is_err(), "the same signature is accepted by inline message verification although detached verification refuses it ({:?})", detached.err().map(|e| e.to_string()));
}
