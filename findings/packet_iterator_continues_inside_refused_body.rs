//! F72 (C17): when `PacketBodyReader::new` refused the framing of a packet (partial body length on a User ID packet) the error was
//! returned as an item, but the iterator went on: the next call parsed a "header" from the first octet of the refused body and
//! yielded `Ok(UserId("abc"))` - a packet no legal deframing of the stream contains (visible to every caller that skips `Err` items).
use pgp::packet::{Packet, PacketParser};

#[test]
fn nothing_is_parsed_out_of_a_refused_body() {
    // User ID packet with an (illegal) partial length of 512; its body starts with the octets of a small user id packet
    let mut stream = vec![0xCD, 0xE9];
    let mut body = vec![0xCD, 0x03, b'a', b'b', b'c'];
    body.resize(512, 0);
    stream.extend_from_slice(&body);
    stream.push(0); // final empty chunk
    let items: Vec<_> = PacketParser::new(&stream[..]).collect();
    assert!(items[0].is_err(), "partial length on a user id packet is refused");
    let leaked: Vec<&Packet> = items.iter().filter_map(|r| r.as_ref().ok()).collect();
    assert!(leaked.is_empty(), "packets parsed from inside the refused body: {leaked:?}");
}
