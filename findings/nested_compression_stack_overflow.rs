//! C04 / audit-A4: nothing bounds the nesting of compressed data packets. Every
//! `Message::decompress()` wraps the previous reader stack in another
//! `Literal/Compressed -> PacketBodyReader -> LimitedReader -> MessageReader::Compressed ->
//! CompressedDataReader -> Decompressor -> PacketBodyReader -> ...` layer, and hitting the end of
//! the data walks through all layers recursively (`fill_buf` chain, then
//! `MessageReader::check_trailing_data`). With old-format, indeterminate-length compressed
//! packets using algorithm 0 (uncompressed) a layer costs the attacker 2 octets:
//! 12 KB of input overflow a 2 MiB stack, 120 KB overflow an 8 MiB main-thread stack
//! (debug build). The process aborts ("has overflowed its stack"), nothing can be caught.
//!
//! The consumer only does what the docs/examples ask for: `while msg.is_compressed() {
//! msg = msg.decompress()? }` and then reads.

use std::io::Read;

use pgp::composed::Message;

fn nested(depth: usize) -> Vec<u8> {
    let mut v = Vec::with_capacity(depth * 2 + 16);
    for _ in 0..depth {
        v.push(0xA3); // old format, tag 8 (compressed data), length type 3 (indeterminate)
        v.push(0); // compression algorithm: uncompressed
    }
    // literal data packet "hello"
    v.extend_from_slice(&[0xCB, 11, b'b', 0, 0, 0, 0, 0, b'h', b'e', b'l', b'l', b'o']);
    v
}

fn consume(data: &[u8]) -> std::io::Result<Vec<u8>> {
    let mut msg = Message::from_bytes(data).map_err(std::io::Error::other)?;
    while msg.is_compressed() {
        msg = msg.decompress().map_err(std::io::Error::other)?;
    }
    let mut out = Vec::new();
    msg.read_to_end(&mut out)?;
    Ok(out)
}

#[test]
fn shallow_nesting_works() {
    assert_eq!(consume(&nested(30)).expect("fine"), b"hello");
}

/// Runs on the default 2 MiB test thread: 6000 layers = 12 KB of input.
#[test]
fn deep_nesting_returns_instead_of_overflowing_the_stack() {
    let res = consume(&nested(6000));
    // Ok or Err are both acceptable, the process dying is not
    println!("result: {:?}", res.map(|v| v.len()));
}

/// The same on a thread with the usual 8 MiB main thread stack: 60000 layers = 120 KB of input.
#[test]
fn deep_nesting_main_thread_sized_stack() {
    let h = std::thread::Builder::new()
        .stack_size(8 * 1024 * 1024)
        .spawn(|| {
            let res = consume(&nested(60_000));
            println!("result: {:?}", res.map(|v| v.len()));
        })
        .expect("spawn");
    h.join().expect("no panic");
}
