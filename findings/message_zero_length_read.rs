// F29 demonstration (tests/f29_demo.rs in a scratch worktree before the fix): read(&mut []) after 10 octets of a 100 000 octet message -> Err("unexpected trailing bytes found").
use std::io::Read;

use pgp::composed::{Message, MessageBuilder};

#[test]
fn zero_length_read_is_harmless() {
    let mut rng = rand::thread_rng();
    let _ = &mut rng;
    let data = vec![0x41u8; 100_000];
    let bytes = MessageBuilder::from_bytes("", data.clone()).to_vec(rand::thread_rng()).unwrap();

    // reference
    let mut msg = Message::from_bytes(&bytes[..]).unwrap();
    let mut out = Vec::new();
    msg.read_to_end(&mut out).unwrap();
    assert_eq!(out, data);

    // a consumer that (legally) asks for zero octets in the middle of the stream
    let mut msg = Message::from_bytes(&bytes[..]).unwrap();
    let mut first = [0u8; 10];
    msg.read_exact(&mut first).unwrap();
    let n = msg.read(&mut []).expect("a read into an empty buffer must not fail");
    assert_eq!(n, 0);
    let mut rest = Vec::new();
    msg.read_to_end(&mut rest).expect("stream must still be readable after a zero-length read");
    assert_eq!(first.len() + rest.len(), data.len());
}
