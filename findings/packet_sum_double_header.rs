// F39 demonstration (tests/f39_demo.rs in a scratch worktree before the fix): wrote [cd, 05, cd, 03, 62, 6f, 62].
use pgp::packet::{Packet, PacketParser, PacketTrait, UserId};
use pgp::ser::Serialize;

#[test]
fn packet_sum_writes_one_header() {
    let uid = UserId::from_str(Default::default(), "bob").unwrap();
    let packet = Packet::from(uid);
    let mut plain = Vec::new();
    packet.to_writer(&mut plain).unwrap();
    let mut with_header = Vec::new();
    packet.to_writer_with_header(&mut with_header).unwrap();
    assert_eq!(with_header.len(), packet.write_len_with_header());
    let parsed: Vec<_> = PacketParser::new(&with_header[..]).collect();
    assert!(parsed.len() == 1 && parsed[0].as_ref().ok() == Some(&packet), "Packet::to_writer_with_header wrote {:02x?} (Packet::to_writer: {:02x?})", with_header, plain);
}
