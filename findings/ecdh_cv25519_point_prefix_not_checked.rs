//! F77 (C05/C02): EcdhPublicParams::try_from_mpi (Curve25519Legacy) checked only the length of the point (33) and dropped its first
//! octet without comparing it with 0x40, while the writer always emits 0x40 (the sibling EdDSALegacy reader does compare it).  A
//! subkey packet whose point starts with any other octet was accepted, re-serialized as a different packet, and - because
//! fingerprints and binding signatures hash the re-serialized key - its subkey binding still verified.
use pgp::{
    composed::{Deserializable, SignedPublicKey, SignedSecretKey},
    ser::Serialize,
};

#[test]
fn ecdh_cv25519_point_prefix_is_checked() {
    let (alice, _) = SignedSecretKey::from_armor_file("./tests/autocrypt/alice@autocrypt.example.sec.asc").unwrap();
    let cert: SignedPublicKey = alice.to_public_key();
    cert.verify_bindings().expect("original verifies");
    let bytes = cert.to_bytes().unwrap();

    // OID of Curve25519Legacy, followed by the MPI of the point: 2 octets bit count, then 0x40
    let oid = [0x2B, 0x06, 0x01, 0x04, 0x01, 0x97, 0x55, 0x01, 0x05, 0x01];
    let pos = bytes.windows(oid.len()).position(|w| w == oid).expect("cert has a cv25519 ECDH subkey");
    let prefix_pos = pos + oid.len() + 2;
    assert_eq!(bytes[prefix_pos], 0x40);

    let mut modified = bytes.clone();
    modified[prefix_pos] = 0x41; // same bit length of the MPI

    match SignedPublicKey::from_bytes(&modified[..]) {
        Err(_) => {} // refused
        Ok(cert2) => {
            assert_eq!(cert2.to_bytes().unwrap(), modified, "an accepted certificate is written back as other octets");
            assert!(cert2.verify_bindings().is_err(), "the subkey packet was modified, but its binding still verifies");
        }
    }
}
