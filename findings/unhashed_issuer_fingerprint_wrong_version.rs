//! F79 (C15): the rule "an IssuerFingerprint subpacket whose key version differs from the signature version makes the signature
//! malformed" (RFC 9580 5.2.3.35) was applied in SignatureConfig::hash_signature_data to the hashed area only, while
//! issuer_fingerprint() / match_identity read the hashed AND the unhashed area: a v4 signature carrying a v6 issuer fingerprint in
//! its unhashed area (anybody can add one on the wire, the area is not signed) was accepted by Signature::verify.
use pgp::{
    composed::{KeyType, SecretKeyParamsBuilder, SignedSecretKey},
    crypto::hash::HashAlgorithm,
    packet::{SignatureConfig, SignatureType, Subpacket, SubpacketData},
    types::{KeyDetails, KeyVersion, Password, Timestamp},
};
use rand::SeedableRng;
use rand_chacha::ChaCha8Rng;

fn gen(rng: &mut ChaCha8Rng, version: KeyVersion) -> SignedSecretKey {
    let mut key_params = SecretKeyParamsBuilder::default();
    key_params.key_type(KeyType::Ed25519).version(version).can_sign(true).primary_user_id("Me <me@example.com>".into());
    key_params.build().expect("params").generate(rng).expect("generate")
}

#[test]
fn unhashed_issuer_fingerprint_with_wrong_version_is_refused() {
    let mut rng = ChaCha8Rng::seed_from_u64(1);
    let key = gen(&mut rng, KeyVersion::V4);
    let other_v6 = gen(&mut rng, KeyVersion::V6);

    let mut config = SignatureConfig::v4(SignatureType::Binary, key.primary_key.algorithm(), HashAlgorithm::Sha256);
    config.hashed_subpackets = vec![
        Subpacket::regular(SubpacketData::SignatureCreationTime(Timestamp::now())).unwrap(),
        Subpacket::regular(SubpacketData::IssuerFingerprint(key.primary_key.fingerprint())).unwrap(),
    ];
    let mut sig = config.sign(&key.primary_key, &Password::empty(), &b"hello"[..]).unwrap();
    sig.verify(key.primary_key.public_key(), &b"hello"[..]).expect("the plain signature verifies");

    // v6 fingerprint in a v4 signature, unhashed area
    sig.unhashed_subpacket_push(Subpacket::regular(SubpacketData::IssuerFingerprint(other_v6.primary_key.fingerprint())).unwrap()).unwrap();
    let res = sig.verify(key.primary_key.public_key(), &b"hello"[..]);
    assert!(res.is_err(), "a v4 signature with a v6 issuer fingerprint (unhashed area) is accepted");
}
