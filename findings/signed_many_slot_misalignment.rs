use pgp::{
    composed::{DetachedSignature, KeyType, Message, SecretKeyParamsBuilder, SignedSecretKey},
    crypto::hash::HashAlgorithm,
    packet::{
        LiteralData, Notation, OnePassSignature, Packet, Signature, Subpacket, SubpacketData,
    },
    ser::Serialize,
    types::{KeyDetails, Password, Timestamp},
};
use rand::SeedableRng;
use rand_chacha::ChaCha8Rng;

fn make_key(rng: &mut ChaCha8Rng, name: &str) -> SignedSecretKey {
    SecretKeyParamsBuilder::default()
        .key_type(KeyType::Ed25519Legacy)
        .can_sign(true)
        .primary_user_id(name.to_string())
        .build()
        .unwrap()
        .generate(rng)
        .unwrap()
}

#[test]
fn probe_misaligned_hash_and_signature_slots() {
    let mut rng = ChaCha8Rng::seed_from_u64(5);
    let key = make_key(&mut rng, "victim");
    const PLAIN: &[u8] = b"hello";

    let genuine = DetachedSignature::sign_binary_data(
        &mut rng,
        &key.primary_key,
        &Password::empty(),
        HashAlgorithm::Sha256,
        PLAIN,
    )
    .unwrap()
    .signature;

    // S': same signature value + same left 16 bits, but tampered hashed area
    let mut cfg = genuine.config().unwrap().clone();
    for sp in cfg.hashed_subpackets.iter_mut() {
        if let SubpacketData::SignatureCreationTime(_) = sp.data {
            *sp = Subpacket::regular(SubpacketData::SignatureCreationTime(Timestamp::from_secs(
                1,
            )))
            .unwrap();
        }
    }
    let _ = Notation {
        readable: true,
        name: "x".into(),
        value: "y".into(),
    };
    let tampered = Signature::from_config(
        cfg,
        genuine.signed_hash_value().unwrap(),
        genuine.signature().unwrap().clone(),
    )
    .unwrap();
    assert_ne!(tampered.created(), genuine.created());

    // the tampered signature does not verify on its own
    tampered
        .verify(key.primary_key.public_key(), PLAIN)
        .expect_err("tampered must fail standalone");

    let c = genuine.config().unwrap();
    let ops_unknown = OnePassSignature::v3(
        c.typ(),
        HashAlgorithm::Other(123),
        c.pub_alg,
        key.legacy_key_id(),
    );
    let ops = OnePassSignature::v3(c.typ(), c.hash_alg, c.pub_alg, key.legacy_key_id());

    let lit = LiteralData::from_bytes(&[][..], PLAIN.into()).unwrap();
    let packets: Vec<Packet> = vec![
        ops_unknown.into(),
        ops.clone().into(), // pairs with `genuine` (last trailing sig)
        ops.into(),         // pairs with `tampered`
        lit.into(),
        genuine.clone().into(), // filler
        tampered.clone().into(),
        genuine.clone().into(),
    ];
    let bytes = packets.to_bytes().unwrap();

    let mut msg = Message::from_bytes(&bytes[..]).unwrap();
    let data = msg.as_data_vec();
    eprintln!("read: {data:?}");
    let data = data.unwrap();
    assert_eq!(data, PLAIN);

    for i in 0..4 {
        let r = msg.verify_nested_explicit(i, key.primary_key.public_key());
        eprintln!(
            "index {i}: {:?}",
            r.as_ref().map(|s| s.created()).map_err(|e| e.to_string())
        );
        if let Ok(sig) = r {
            assert_eq!(
                sig.created(),
                genuine.created(),
                "verify_nested_explicit({i}) returned Ok for a signature with a tampered hashed area"
            );
        }
    }
    let res = msg
        .verify_nested(&[key.primary_key.public_key()])
        .unwrap();
    eprintln!("verify_nested: {:?}", res);
}
