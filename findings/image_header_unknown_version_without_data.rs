//! F89 (C05): an image header of an unknown version is kept opaque and written as `length = 3 + data.len()`.  The reader asked every
//! image header for a length of at least 4 although only version 1 has a fourth octet: `UserAttribute::Image` with
//! `ImageHeader::Unknown { data: empty }` was serialized without an error to bytes that the library refuses to parse.
use bytes::Bytes;
use pgp::{
    packet::{ImageHeader, PacketHeader, UserAttribute},
    ser::Serialize,
    types::Tag,
};

#[test]
fn image_header_without_data_reads_back() {
    for data in [&b""[..], &b"\x07"[..], &b"\x01\x02\x03"[..]] {
        let header = ImageHeader::Unknown { version: 9, data: Bytes::copy_from_slice(data) };
        let bytes = header.to_bytes().unwrap();
        assert_eq!(bytes.len(), header.write_len());
        assert_eq!(usize::from(u16::from_le_bytes([bytes[0], bytes[1]])), 3 + data.len());
        let back = ImageHeader::try_from_reader(&bytes[..]).unwrap_or_else(|e| panic!("a written image header ({bytes:02x?}) is refused: {e}"));
        assert_eq!(back, header);
    }
    // and through the packet: subpacket length, type 1, header `03 00 09`, image
    let body = [0x06u8, 0x01, 0x03, 0x00, 0x09, 0xFF, 0xD8];
    let packet_header = PacketHeader::new_fixed(Tag::UserAttribute, body.len() as u32);
    let ua = UserAttribute::try_from_reader(packet_header, &body[..]).expect("opaque image header without data");
    assert_eq!(ua.to_bytes().unwrap(), body);
}
