// F31 demonstration (tests/f31_demo.rs in a scratch worktree before the fix): "dearmoring fails for BufReader capacities [1, 2, ..., 95]".
use std::io::{BufReader, Read};

use pgp::armor::Dearmor;

#[test]
fn dearmor_with_tiny_bufreader() {
    let payload: Vec<u8> = (0..200u32).map(|i| (i * 7 % 256) as u8).collect();
    let mut headers = std::collections::BTreeMap::new();
    headers.insert("Comment".to_string(), vec!["hello world, this is a rather long comment line".to_string()]);
    headers.insert("Version".to_string(), vec!["1".to_string()]);
    let mut armored = Vec::new();
    struct P<'a>(&'a [u8]);
    impl pgp::ser::Serialize for P<'_> {
        fn to_writer<W: std::io::Write>(&self, w: &mut W) -> pgp::errors::Result<()> { w.write_all(self.0)?; Ok(()) }
        fn write_len(&self) -> usize { self.0.len() }
    }
    pgp::armor::write(&P(&payload), pgp::armor::BlockType::Message, &mut armored, Some(&headers), true).unwrap();

    let mut reference = Vec::new();
    Dearmor::new(&armored[..]).read_to_end(&mut reference).unwrap();
    assert_eq!(reference, payload);

    let mut failed = Vec::new();
    for cap in 1usize..200 {
        let mut out = Vec::new();
        let mut d = Dearmor::new(BufReader::with_capacity(cap, &armored[..]));
        let res = d.read_to_end(&mut out);
        if res.is_err() || out != payload {
            failed.push(cap);
        }
    }
    assert!(failed.is_empty(), "armored input of {} octets; dearmoring fails for BufReader capacities {:?}", armored.len(), failed);
}
