//! F66 (C05/C02): a version 1 / JPEG image header whose own length field is larger than 16 was accepted - only 12 octets were kept
//! as header data, the surplus header octets silently became the start of the image - and written back (and hashed for
//! certifications) with the constant length 16: same total length, different octets.
use pgp::packet::{Packet, PacketParser};
use pgp::ser::Serialize;

fn user_attribute(header_len: u8, extra: &[u8]) -> Vec<u8> {
    let mut sub = vec![0x01u8]; // image attribute
    sub.extend_from_slice(&[header_len, 0x00, 0x01, 0x01]); // header length (LE), v1, JPEG
    sub.extend_from_slice(&[0u8; 12]);
    sub.extend_from_slice(extra);
    sub.extend_from_slice(b"\xff\xd8image-data");
    let mut body = vec![sub.len() as u8];
    body.extend_from_slice(&sub);
    let mut packet = vec![0xC0 | 17, body.len() as u8];
    packet.extend_from_slice(&body);
    packet
}

#[test]
fn what_is_accepted_is_written_back_unchanged() {
    // the canonical header round trips
    let canonical = user_attribute(16, b"");
    let parsed: Vec<Packet> = PacketParser::new(&canonical[..]).collect::<Result<_, _>>().unwrap();
    assert_eq!(parsed[0].to_bytes().unwrap(), canonical);
    // a header announcing 20 octets is either refused or written back as it was read
    let long = user_attribute(20, b"EXTR");
    let parsed: Result<Vec<Packet>, _> = PacketParser::new(&long[..]).collect();
    if let Ok(p) = parsed {
        assert_eq!(p[0].to_bytes().unwrap(), long, "accepted, but re-serialized with other octets");
    }
}
