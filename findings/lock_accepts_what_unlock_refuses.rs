// F32 demonstration (tests/f32_demo.rs in a scratch worktree before the fix): "locked with AEAD + Salted ... but unlocking fails: S2K usage AEAD is not allowed with S2K type 1".
use pgp::composed::{KeyType, SecretKeyParamsBuilder};
use pgp::crypto::{aead::AeadAlgorithm, hash::HashAlgorithm, sym::SymmetricKeyAlgorithm};
use pgp::types::{Password, S2kParams, StringToKey};
use rand::SeedableRng;

#[test]
fn what_can_be_locked_can_be_unlocked() {
    let mut rng = rand_chacha::ChaCha8Rng::seed_from_u64(1);
    let key = SecretKeyParamsBuilder::default()
        .key_type(KeyType::Ed25519Legacy)
        .can_sign(true)
        .primary_user_id("a <a@example.org>".into())
        .build()
        .unwrap()
        .generate(&mut rng)
        .unwrap();
    let pw = Password::from("pw");
    for s2k in [
        StringToKey::Salted { hash_alg: HashAlgorithm::Sha256, salt: [1u8; 8] },
        StringToKey::Simple { hash_alg: HashAlgorithm::Sha256 },
    ] {
        let mut sk = key.primary_key.clone();
        let params = S2kParams::Aead {
            sym_alg: SymmetricKeyAlgorithm::AES128,
            aead_mode: AeadAlgorithm::Ocb,
            s2k: s2k.clone(),
            nonce: vec![7u8; 15].into(),
        };
        match sk.set_password_with_s2k(&pw, params) {
            Err(_) => {} // refusing to lock is fine
            Ok(()) => {
                let res = sk.remove_password(&pw);
                assert!(res.is_ok(), "locked with AEAD + {:?} and the right password, but unlocking fails: {:?}", s2k, res.err().map(|e| e.to_string()));
            }
        }
    }
}
