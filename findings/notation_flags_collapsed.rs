// F34 demonstration (tests/f34_demo.rs in a scratch worktree before the fix): accepted packet re-serializes with flag 0x00 instead of 0x40.
use pgp::composed::{KeyType, SecretKeyParamsBuilder};
use pgp::crypto::hash::HashAlgorithm;
use pgp::packet::{Notation, Packet, PacketParser, SignatureConfig, SignatureType, Subpacket, SubpacketData};
use pgp::ser::Serialize;
use pgp::types::{KeyDetails, Password, Timestamp};
use rand::SeedableRng;

#[test]
fn notation_flags_are_not_collapsed() {
    let mut rng = rand_chacha::ChaCha8Rng::seed_from_u64(1);
    let key = SecretKeyParamsBuilder::default()
        .key_type(KeyType::Ed25519Legacy)
        .can_sign(true)
        .primary_user_id("a <a@example.org>".into())
        .build()
        .unwrap()
        .generate(&mut rng)
        .unwrap();
    let mut config = SignatureConfig::v4(SignatureType::Binary, key.primary_key.algorithm(), HashAlgorithm::Sha256);
    config.hashed_subpackets = vec![
        Subpacket::regular(SubpacketData::SignatureCreationTime(Timestamp::now())).unwrap(),
        Subpacket::regular(SubpacketData::Notation(Notation { readable: false, name: "x@y".into(), value: "v".into() })).unwrap(),
    ];
    let sig = config.sign(&key.primary_key, &Password::empty(), &b"data"[..]).unwrap();
    let mut bytes = Vec::new();
    Packet::from(sig).to_writer(&mut bytes).unwrap();
    // notation subpacket body: flags(4) name_len(2) value_len(2) name value
    let pat = [0x14u8, 0x00, 0x00, 0x00, 0x00, 0x00, 0x03, 0x00, 0x01];
    let pos = bytes.windows(pat.len()).position(|w| w == pat).expect("notation subpacket");
    bytes[pos + 1] = 0x40; // an undefined flag
    match PacketParser::new(&bytes[..]).next().unwrap() {
        Err(_) => {} // rejecting the undefined flag is fine
        Ok(p) => {
            let mut again = Vec::new();
            p.to_writer(&mut again).unwrap();
            assert_eq!(again, bytes, "the signature packet was accepted but re-serializes (and is hashed) with a different notation flag octet");
        }
    }
}
