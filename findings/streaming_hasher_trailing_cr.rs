// F26 demonstration (tests/f26_demo.rs in a scratch worktree before commit c51f93b): data b"hello\nworld\r" -> "signature: invalid signed hash value"; passes with the fix.
use std::io::Write;

use pgp::composed::{KeyType, SecretKeyParamsBuilder, MessageBuilder, Message};
use pgp::crypto::hash::HashAlgorithm;
use pgp::packet::{SignatureConfig, SignatureType, Subpacket, SubpacketData};
use pgp::types::{KeyDetails, Password, Timestamp};
use rand::SeedableRng;

#[test]
fn text_signature_over_data_ending_in_lone_cr() {
    let mut rng = rand_chacha::ChaCha8Rng::seed_from_u64(1);
    let key = SecretKeyParamsBuilder::default()
        .key_type(KeyType::Ed25519Legacy)
        .can_sign(true)
        .primary_user_id("a <a@example.org>".into())
        .build()
        .unwrap()
        .generate(&mut rng)
        .unwrap();
    let pubkey = key.primary_key.public_key();

    for data in [&b"hello\r\nworld"[..], &b"hello\nworld\r"[..], &b"\r"[..]] {
        // streaming hasher (io::Write) on the sign side
        let mut config = SignatureConfig::v4(SignatureType::Text, key.primary_key.algorithm(), HashAlgorithm::Sha256);
        config.hashed_subpackets = vec![
            Subpacket::regular(SubpacketData::SignatureCreationTime(Timestamp::now())).unwrap(),
            Subpacket::regular(SubpacketData::IssuerFingerprint(key.primary_key.fingerprint())).unwrap(),
        ];
        let mut hasher = config.into_hasher().unwrap();
        hasher.write_all(data).unwrap();
        let sig = hasher.sign(&key.primary_key, &Password::empty()).unwrap();
        // reader based canonicaliser on the verify side
        let res = sig.verify(&pubkey, data);
        assert!(res.is_ok(), "data {:?}: signature made through SignatureHasher does not verify through Signature::verify: {:?}", data, res);
    }
}
