// F35 demonstration (tests/f35_demo.rs in a scratch worktree before the fix): left [0,1,...,31] right [1,...,31,0].
use pgp::crypto::ecdh::Curve25519Legacy;

#[test]
fn curve25519_legacy_secret_with_stripped_leading_zero() {
    // little endian scalar whose most significant octet (index 31) is zero, as an unclamped foreign key may have
    let mut le = [0u8; 32];
    for (i, b) in le.iter_mut().enumerate() {
        *b = (i as u8) + 1;
    }
    le[31] = 0;
    // wire form: big endian MPI, leading zero octets stripped
    let mut be: Vec<u8> = le.iter().rev().copied().collect();
    while be.first() == Some(&0) {
        be.remove(0);
    }
    assert_eq!(be.len(), 31);
    let key = Curve25519Legacy::try_from_bytes_rev(&be).unwrap();
    assert_eq!(key.as_bytes(), &le, "the scalar read back from its MPI differs from the scalar that was encoded");
}
