// F30 demonstration (tests/f30_demo.rs in a scratch worktree before fix c218117): panicked at src/composed/message/builder.rs "inconsistent state, panicked before".
use std::io::Read;

use pgp::composed::{Message, MessageBuilder};

/// Delivers `data` in small reads and fails exactly once with `Interrupted` (EINTR) at read call `fail_at`.
struct Eintr {
    data: Vec<u8>,
    pos: usize,
    calls: usize,
    fail_at: usize,
}
impl Read for Eintr {
    fn read(&mut self, buf: &mut [u8]) -> std::io::Result<usize> {
        self.calls += 1;
        if self.calls == self.fail_at {
            return Err(std::io::Error::new(std::io::ErrorKind::Interrupted, "EINTR"));
        }
        let n = buf.len().min(100).min(self.data.len() - self.pos);
        buf[..n].copy_from_slice(&self.data[self.pos..self.pos + n]);
        self.pos += n;
        Ok(n)
    }
}

#[test]
fn interrupted_source_read_is_not_a_shorter_message() {
    let data: Vec<u8> = (0..20_000u32).map(|i| (i % 251) as u8).collect();
    for fail_at in [2usize, 7, 50, 120] {
        let src = Eintr { data: data.clone(), pos: 0, calls: 0, fail_at };
        let res = MessageBuilder::from_reader("", src).to_vec(rand::thread_rng());
        match res {
            Err(_) => {} // surfacing the error is fine
            Ok(bytes) => {
                let mut msg = Message::from_bytes(&bytes[..]).expect("builder returned Ok but the output does not parse");
                let mut out = Vec::new();
                msg.read_to_end(&mut out).expect("builder returned Ok but the output cannot be read");
                assert_eq!(out.len(), data.len(), "EINTR at source read #{fail_at}: builder returned Ok with {} of {} octets", out.len(), data.len());
                assert_eq!(out, data);
            }
        }
    }
}
