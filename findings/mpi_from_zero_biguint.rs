//! F88 (C05): `impl From<BigUint> for Mpi` (and `From<&BigUint>`) wrapped `to_bytes_be()` as it is.  For zero that is the single
//! octet `0`, which an Mpi must not hold: it was written as `00 00 00` (bit count 0 plus one octet), read back as the empty MPI, and
//! left one stray octet in the stream.
use num_bigint::BigUint;
use pgp::{ser::Serialize, types::Mpi};

#[test]
fn mpi_from_zero_round_trips() {
    for value in [0u32, 1, 255, 256, 65_537] {
        for m in [Mpi::from(BigUint::from(value)), Mpi::from(&BigUint::from(value))] {
            let bytes = m.to_bytes().unwrap();
            assert_eq!(bytes.len(), m.write_len());
            let mut reader = &bytes[..];
            let back = Mpi::try_from_reader(&mut reader).unwrap();
            assert!(reader.is_empty(), "value {value}: {} octet(s) left over after reading {bytes:02x?}", reader.len());
            assert_eq!(back, m, "value {value}");
        }
    }
}
