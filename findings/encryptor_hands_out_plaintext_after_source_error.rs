//! F74 (C09): both stream encryptors grew their stage buffer to full size before reading the source into it
//! (`buffer.resize(n, 0); fill_buffer(source, buffer)?`).  When the source failed (anything but `Interrupted`: `WouldBlock`,
//! `TimedOut`, ...) the error was returned with the buffer still "filled": the next `read()` found a non-empty stage and handed out
//! its raw content - the plaintext octets read so far followed by zeroes - as ciphertext, and the stream then went on to a clean end.
use std::io::{self, Read};

use pgp::{
    crypto::{
        aead::{AeadAlgorithm, ChunkSize},
        sym::SymmetricKeyAlgorithm,
    },
    packet::SymEncryptedProtectedData,
};
use rand::SeedableRng;
use rand_chacha::ChaCha8Rng;

/// Hands out `chunk` bytes per call, and fails once on call `fail_at`.
struct FailOnce<'a> {
    data: &'a [u8],
    chunk: usize,
    calls: usize,
    fail_at: usize,
}

impl Read for FailOnce<'_> {
    fn read(&mut self, buf: &mut [u8]) -> io::Result<usize> {
        let call = self.calls;
        self.calls += 1;
        if call == self.fail_at {
            return Err(io::Error::new(io::ErrorKind::WouldBlock, "try again"));
        }
        let n = self.chunk.min(buf.len()).min(self.data.len());
        buf[..n].copy_from_slice(&self.data[..n]);
        self.data = &self.data[n..];
        Ok(n)
    }
}

const MARKER: &[u8] = b"TOP-SECRET-PLAINTEXT";

/// Drives the encryptor like a caller that retries after an error; returns (output, errors seen, ended with Ok(0)).
fn drive(mut enc: impl Read) -> (Vec<u8>, usize, bool) {
    let mut out = Vec::new();
    let mut buf = [0u8; 512];
    let mut errors = 0;
    loop {
        match enc.read(&mut buf) {
            Ok(0) => return (out, errors, true),
            Ok(n) => out.extend_from_slice(&buf[..n]),
            Err(_) if errors < 3 => errors += 1,
            Err(_) => return (out, errors + 1, false),
        }
    }
}

#[test]
fn cfb_encryptor_never_hands_out_plaintext_after_a_source_error() {
    let key = [7u8; 16];
    let mut plain = vec![b'a'; 8192];
    for _ in 0..200 {
        plain.extend_from_slice(MARKER);
    }
    for fail_at in 0..200 {
        let source = FailOnce { data: &plain, chunk: 100, calls: 0, fail_at };
        let enc = SymmetricKeyAlgorithm::AES128
            .stream_encryptor(ChaCha8Rng::seed_from_u64(1), &key, source)
            .unwrap();
        let (out, errors, clean_end) = drive(enc);
        assert!(!out.windows(MARKER.len()).any(|w| w == MARKER), "plaintext in the output (source failed at call {fail_at})");
        if errors > 0 {
            assert!(!clean_end, "a source error at call {fail_at} was turned into a clean end");
        }
    }
}

#[test]
fn aead_encryptor_never_hands_out_plaintext_after_a_source_error() {
    let key = [7u8; 16];
    let mut plain = Vec::new();
    for _ in 0..100 {
        plain.extend_from_slice(MARKER);
    }
    for fail_at in 0..50 {
        let source = FailOnce { data: &plain, chunk: 100, calls: 0, fail_at };
        let enc = SymEncryptedProtectedData::encrypt_seipdv2_stream(
            SymmetricKeyAlgorithm::AES128,
            AeadAlgorithm::Gcm,
            ChunkSize::C512B,
            &key,
            [1u8; 32],
            source,
        )
        .unwrap();
        let (out, errors, clean_end) = drive(enc);
        assert!(!out.windows(MARKER.len()).any(|w| w == MARKER), "plaintext in the output (source failed at call {fail_at})");
        if errors > 0 {
            assert!(!clean_end, "a source error at call {fail_at} was turned into a clean end");
        }
    }
}
