//! F69 (C17/C02): the message parser read Signature / One-Pass-Signature / ESK packets out of their body reader and continued the
//! packet stream with `into_inner()` without draining the body: for a body above the reader's 8 KiB buffer the next header was read
//! from INSIDE the body.  One over-long OPS packet that wraps the literal and signature packets of a genuine signed message is a
//! single (invalid) packet for `PacketParser`, but `Message::from_bytes` read it as a signed message and `verify()` succeeded.
use std::io::Read;

use pgp::{
    composed::{Deserializable, Message, MessageBuilder, SignedSecretKey},
    crypto::hash::HashAlgorithm,
    packet::{Packet, PacketParser},
    types::Password,
};
use rand::SeedableRng;
use rand_chacha::ChaCha8Rng;

#[test]
fn ops_body_tail_is_not_parsed_as_packets() {
    let (ssk, _) = SignedSecretKey::from_armor_file("./tests/draft-bre-openpgp-samples-00/bob.sec.asc").unwrap();
    let rng = ChaCha8Rng::seed_from_u64(3);

    // a regular one pass signed message: OPS, LIT, SIG
    let mut b = MessageBuilder::from_bytes("", b"EVIL".to_vec());
    b.sign(&ssk.primary_key, Password::empty(), HashAlgorithm::Sha256);
    let inner = b.to_vec(rng).unwrap();
    let pk: Vec<_> = PacketParser::new(&inner[..]).collect::<Result<Vec<Packet>, _>>().unwrap();
    assert_eq!(pk.len(), 3);
    assert_eq!((inner[0], inner[1]), (0xC4, 13)); // the OPS packet: 2 octets header, 13 octets body
    let ops_body = &inner[2..15];
    let rest = &inner[15..]; // LIT, SIG

    // ONE packet: an OPS packet whose body is the 13 OPS octets, filler up to 8192, and then the octets of LIT and SIG
    let body_len = 8192 + rest.len();
    let mut stream = vec![0xC4, 0xFF];
    stream.extend_from_slice(&(body_len as u32).to_be_bytes());
    stream.extend_from_slice(ops_body);
    stream.extend(std::iter::repeat(0u8).take(8192 - 13));
    stream.extend_from_slice(rest);

    // the packet level view: a single (over long) OPS packet, rejected
    let pk: Vec<_> = PacketParser::new(&stream[..]).collect();
    assert_eq!(pk.len(), 1);
    assert!(pk[0].is_err());

    // the message level view must not be a valid signed message
    if let Ok(mut msg) = Message::from_bytes(std::io::Cursor::new(stream.clone())) {
        let mut data = Vec::new();
        let read = msg.read_to_end(&mut data);
        let verified = msg.verify(&ssk.primary_key.public_key()).is_ok();
        assert!(!(read.is_ok() && verified), "one over-long OPS packet was read as the signed message {:?}", String::from_utf8_lossy(&data));
    }
}
