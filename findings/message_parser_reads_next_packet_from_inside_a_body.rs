//! F69 (C17/C02): the message parser read Signature / One-Pass-Signature / ESK packets out of their body reader and continued the
//! packet stream with `into_inner()` without draining the body: for a body above the reader's 8 KiB buffer the next header was read
//! from INSIDE the body.  One over-long OPS packet that wraps the literal and signature packets of a genuine signed message is a
//! single (invalid) packet for `PacketParser`, but `Message::from_bytes` read it as a signed message and `verify()` succeeded.
use std::io::Read;

use pgp::{
    composed::{Deserializable, Message, MessageBuilder, SignedSecretKey},
    crypto::hash::HashAlgorithm,
    packet::{Packet, PacketParser},
    types::Password,
};
use rand::SeedableRng;
use rand_chacha::ChaCha8Rng;

#[test]
fn ops_body_tail_is_parsed_as_packets() {
    let (ssk, _) =
        SignedSecretKey::from_armor_file("./tests/draft-bre-openpgp-samples-00/bob.sec.asc")
            .unwrap();
    let rng = ChaCha8Rng::seed_from_u64(3);

    // a regular one pass signed message: OPS, LIT, SIG
    let mut b = MessageBuilder::from_bytes("", b"EVIL".to_vec());
    b.sign(&ssk.primary_key, Password::empty(), HashAlgorithm::Sha256);
    let inner = b.to_vec(rng).unwrap();

    let pk: Vec<_> = PacketParser::new(&inner[..]).collect::<Result<Vec<Packet>, _>>().unwrap();
    assert_eq!(pk.len(), 3);
    // the OPS packet of that message: 2 octets header, 13 octets body
    assert_eq!(inner[0], 0xC4);
    assert_eq!(inner[1], 13);
    let ops_body = &inner[2..15];
    let rest = &inner[15..]; // LIT, SIG

    // ONE packet: an OPS packet whose body is the 13 OPS octets, filler up to 8192, and then
    // the octets of LIT and SIG.
    let body_len = 8192 + rest.len();
    let mut stream = vec![0xC4, 0xFF];
    stream.extend_from_slice(&(body_len as u32).to_be_bytes());
    stream.extend_from_slice(ops_body);
    stream.extend(std::iter::repeat(0u8).take(8192 - 13));
    stream.extend_from_slice(rest);

    // the packet level view: a single (over long) OPS packet, rejected
    let pk: Vec<_> = PacketParser::new(&stream[..]).collect();
    assert_eq!(pk.len(), 1);
    let _ = format!("packet parser: {:?}", pk[0].as_ref().map(|_| ()).map_err(|e| e.to_string()));
    assert!(pk[0].is_err());

    // the message level view
    let res = Message::from_bytes(&stream[..]);
    match res {
        Err(e) => let _ = format!("message: rejected: {e}"),
        Ok(mut msg) => {
            let _ = format!("message: accepted, one pass signed: {}", msg.is_one_pass_signed());
            let mut data = Vec::new();
            let r = msg.read_to_end(&mut data);
            let _ = format!("data: {:?} {:?}", String::from_utf8_lossy(&data), r.map_err(|e| e.to_string()));
            let v = msg.verify(&ssk.primary_key.public_key());
            let _ = format!("verify: {:?}", v.map(|_| ()).map_err(|e| e.to_string()));
            panic!("ACCEPTED");
        }
    }
}
