// F24 demonstration (run as tests/f24_demo.rs in a scratch worktree of rpgp *before* commit f2ccf73):
//   announced Fixed(88) written 134  -> assertion "stored header is stale" fails; with the fix the test passes.
use pgp::composed::{Deserializable, KeyType, SecretKeyParamsBuilder, SignedSecretKey};
use pgp::packet::PacketTrait;
use pgp::ser::Serialize;
use pgp::types::Password;
use rand::SeedableRng;

#[test]
fn locked_generated_key_roundtrip_equal() {
    let mut rng = rand_chacha::ChaCha8Rng::seed_from_u64(1);
    let params = SecretKeyParamsBuilder::default()
        .key_type(KeyType::Ed25519Legacy)
        .can_sign(true)
        .primary_user_id("a <a@example.org>".into())
        .passphrase(Some("pw".into()))
        .build()
        .unwrap();
    let key = params.generate(&mut rng).unwrap();
    let bytes = key.to_bytes().unwrap();
    let back = SignedSecretKey::from_bytes(&bytes[..]).unwrap();
    let announced = key.primary_key.packet_header().packet_length();
    let written = key.primary_key.write_len();
    println!("announced {:?} written {}", announced, written);
    assert_eq!(format!("{:?}", announced), format!("Fixed({})", written), "stored header is stale");
    assert_eq!(key, back);
    let mut k2 = back.clone();
    k2.primary_key.remove_password(&Password::from("pw")).unwrap();
    let announced = k2.primary_key.packet_header().packet_length();
    assert_eq!(format!("{:?}", announced), format!("Fixed({})", k2.primary_key.write_len()), "stale after remove_password");
}
