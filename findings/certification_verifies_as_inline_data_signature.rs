//! F62 (C02/C15): the inline verification path (`Message::verify*`) hashed the literal body for whatever type the signature packet
//! carried and never looked at the type: a User ID certification copied from a certificate verified as the signature of a
//! "message" whose body is the octet string a certification hashes.  The detached path refuses such types.
use pgp::{
    composed::{KeyType, Message, SecretKeyParamsBuilder, SignedPublicKey, SignedSecretKey},
    packet::{LiteralData, Packet, SignatureType},
    ser::Serialize,
};
use rand::SeedableRng;
use rand_chacha::ChaCha8Rng;

#[test]
fn certification_is_not_a_message_signature() {
    let mut rng = ChaCha8Rng::seed_from_u64(5);
    let mut b = SecretKeyParamsBuilder::default();
    b.key_type(KeyType::Ed25519Legacy).can_certify(true).can_sign(true).primary_user_id("alice <alice@example.org>".into());
    let key: SignedSecretKey = b.build().unwrap().generate(&mut rng).unwrap();
    let public: SignedPublicKey = key.into();

    let user = &public.details.users[0];
    let cert = user.signatures[0].clone();
    assert_eq!(cert.typ(), Some(SignatureType::CertPositive));

    // what a v4 certification hashes in front of the signature data
    let key_body = public.primary_key.to_bytes().unwrap();
    let uid = user.id.to_bytes().unwrap();
    let mut content = vec![0x99];
    content.extend_from_slice(&u16::try_from(key_body.len()).unwrap().to_be_bytes());
    content.extend_from_slice(&key_body);
    content.push(0xB4);
    content.extend_from_slice(&u32::try_from(uid.len()).unwrap().to_be_bytes());
    content.extend_from_slice(&uid);

    let lit = LiteralData::from_bytes(&[][..], content.into()).unwrap();
    let packets: Vec<Packet> = vec![cert.into(), lit.into()];
    let bytes = packets.to_bytes().unwrap();

    let mut msg = Message::from_bytes(&bytes[..]).unwrap();
    let _ = msg.as_data_vec().unwrap();
    assert!(msg.verify(&public.primary_key).is_err(), "a certification signature verifies as data signature of an inline signed message");
}
