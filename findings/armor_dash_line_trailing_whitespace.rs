//! F80 (C10): RFC 9580 6.2 allows whitespace after the armor header line and the armor tail on the same line ("MUST NOT have text
//! other than whitespace following them"), but armor_header_line went from the five closing dashes straight to the line ending:
//! `-----BEGIN PGP MESSAGE----- \n` (what a mail client that pads or a copy from a terminal produces) failed with
//! "failed reading: armor header"; the same for the END line.
use std::io::Read;

use pgp::armor::{BlockType, Dearmor};

fn dearmor(input: &str) -> std::io::Result<(Option<BlockType>, Vec<u8>)> {
    let mut d = Dearmor::new(std::io::BufReader::new(input.as_bytes()));
    let mut out = Vec::new();
    d.read_to_end(&mut out)?;
    Ok((d.typ, out))
}

#[test]
fn whitespace_after_the_dash_lines_is_accepted() {
    let plain = "-----BEGIN PGP MESSAGE-----\n\naGVsbG8gd29ybGQ=\n=uIvn\n-----END PGP MESSAGE-----\n";
    let want = dearmor(plain).expect("reference input");
    assert_eq!(want.1, b"hello world");

    for (name, input) in [
        ("blank after BEGIN line", "-----BEGIN PGP MESSAGE----- \n\naGVsbG8gd29ybGQ=\n=uIvn\n-----END PGP MESSAGE-----\n"),
        ("tab and blanks after BEGIN line, CRLF", "-----BEGIN PGP MESSAGE-----\t  \r\n\r\naGVsbG8gd29ybGQ=\r\n=uIvn\r\n-----END PGP MESSAGE-----\r\n"),
        ("blank after END line", "-----BEGIN PGP MESSAGE-----\n\naGVsbG8gd29ybGQ=\n=uIvn\n-----END PGP MESSAGE----- \n"),
        ("blank after END line, no line break", "-----BEGIN PGP MESSAGE-----\n\naGVsbG8gd29ybGQ=\n=uIvn\n-----END PGP MESSAGE-----  "),
    ] {
        let got = dearmor(input).unwrap_or_else(|e| panic!("{name}: {e}"));
        assert_eq!(got, want, "{name}");
    }
}
