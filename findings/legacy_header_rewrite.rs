// F37 demonstration (tests/f37_demo.rs in a scratch worktree before the fix): "the library cannot read the header it wrote: UnexpectedEof".
use pgp::packet::PacketHeader;
use pgp::ser::Serialize;

#[test]
fn legacy_header_is_self_consistent_when_rewritten() {
    // legacy format, tag 2, length-type 1 (two-octet length), value 5: legal, though not minimal
    let wire = [0x89u8, 0x00, 0x05];
    let header = PacketHeader::try_from_reader(&wire[..]).unwrap();
    let mut out = Vec::new();
    header.to_writer(&mut out).unwrap();
    assert_eq!(out.len(), header.write_len());
    // what was written must read back as the same header
    let again = PacketHeader::try_from_reader(&out[..]).expect("the library cannot read the header it wrote");
    assert_eq!(again.packet_length(), header.packet_length(), "written {:02x?}", out);
    assert_eq!(again.tag(), header.tag());
}
