//! F84 (C18): TheRing::find_session_key compares the session keys obtained through different mechanisms (PKESK / SKESK / explicit)
//! with the derived `==` of PlainSessionKey.  In front of a GnuPG AEAD container the same key comes in two forms - V3_4{sym_alg, key}
//! from the v3 PKESK, V5{key} from the v5 SKESK - which never compare equal: a message encrypted to a key and a password decrypted
//! with either alone but failed with "inconsistent session keys detected" when both were presented.  (The cross-mechanism
//! comparison was introduced by an earlier repair of this series; this completes it.)
use std::io::{BufReader, Read};

use bytes::BytesMut;
use pgp::{
    armor::Dearmor,
    composed::{
        DecryptionOptions, Deserializable, Esk, Message, PlainSessionKey, SignedSecretKey, TheRing,
    },
    crypto::{aead::AeadAlgorithm, hash::HashAlgorithm},
    packet::{AeadProps, PacketHeader, PacketTrait, SymKeyEncryptedSessionKey},
    types::{DecryptionKey, EskType, Password, StringToKey, Tag},
};
use rand::{RngCore, SeedableRng};
use rand_chacha::ChaCha8Rng;

fn ring<'a>(
    skey: Option<&'a SignedSecretKey>,
    pw: Option<&'a Password>,
    key_pw: &'a Password,
) -> TheRing<'a> {
    TheRing {
        secret_keys: skey.into_iter().collect(),
        key_passwords: vec![key_pw],
        message_password: pw.into_iter().collect(),
        decrypt_options: DecryptionOptions::new().enable_gnupg_aead(),
        ..Default::default()
    }
}

#[test]
fn gnupg_aead_key_and_password_together() {
    let mut rng = ChaCha8Rng::seed_from_u64(7);

    let (skey, _) = SignedSecretKey::from_armor_single(
        std::fs::File::open("./tests/draft-bre-openpgp-samples-00/bob.sec.asc").unwrap(),
    )
    .unwrap();

    // binary form of the GnuPG produced message (PKESK v3 + OCB packet)
    let mut original = Vec::new();
    Dearmor::new(BufReader::new(
        std::fs::File::open("./tests/gnupg/msg_to_bob.asc").unwrap(),
    ))
    .read_to_end(&mut original)
    .unwrap();

    // recover the session key via bob's key
    let msg = Message::from_bytes(&original[..]).unwrap();
    let Message::Encrypted { esk, .. } = &msg else {
        panic!("not encrypted")
    };
    let Esk::PublicKeyEncryptedSessionKey(pkesk) = &esk[0] else {
        panic!("not a pkesk")
    };
    let session_key = skey
        .secret_subkeys
        .iter()
        .find_map(|sub| {
            sub.decrypt(&Password::empty(), pkesk.values().unwrap(), EskType::V3_4)
                .ok()?
                .ok()
        })
        .expect("session key");
    let PlainSessionKey::V3_4 { sym_alg, key } = &session_key else {
        panic!("unexpected session key type")
    };

    // add a password recipient: SKESK v5 (as GnuPG writes in front of OCB packets)
    let pw = Password::from("password");
    let s2k = StringToKey::new_iterated(&mut rng, HashAlgorithm::Sha256, 96);
    let ikm = s2k.derive_key(&pw.read(), sym_alg.key_size()).unwrap();
    let mut iv = [0u8; 15];
    rng.fill_bytes(&mut iv);
    let info = [
        Tag::SymKeyEncryptedSessionKey.encode(),
        0x05,
        (*sym_alg).into(),
        AeadAlgorithm::Ocb.into(),
    ];
    let mut buf: BytesMut = key.as_ref().into();
    AeadAlgorithm::Ocb
        .encrypt_in_place(sym_alg, ikm.as_ref(), &iv, &info, &mut buf)
        .unwrap();
    let skesk = SymKeyEncryptedSessionKey::V5 {
        packet_header: PacketHeader::new_fixed(Tag::SymKeyEncryptedSessionKey, 0),
        sym_algorithm: *sym_alg,
        s2k,
        aead: AeadProps::Ocb { iv },
        encrypted_key: buf.freeze(),
    };
    let mut both = Vec::new();
    skesk.to_writer_with_header(&mut both).unwrap();
    both.extend_from_slice(&original);

    let key_pw = Password::empty();

    // each recipient alone
    for (k, p) in [(Some(&skey), None), (None, Some(&pw))] {
        let msg = Message::from_bytes(&both[..]).unwrap();
        let (dec, _) = msg
            .decrypt_the_ring(ring(k, p, &key_pw), true)
            .expect("single recipient");
        let mut dec = dec.decompress().unwrap();
        assert_eq!(dec.as_data_string().unwrap(), "foo\n");
    }

    // both recipients together
    for abort_early in [true, false] {
        let msg = Message::from_bytes(&both[..]).unwrap();
        let res = msg.decrypt_the_ring(ring(Some(&skey), Some(&pw), &key_pw), abort_early);
        let (dec, _) = res.unwrap_or_else(|e| {
            panic!("key and password presented together (abort_early={abort_early}): {e}")
        });
        let mut dec = dec.decompress().unwrap();
        assert_eq!(dec.as_data_string().unwrap(), "foo\n");
    }
}

/// a conflicting explicit session key is still reported
#[test]
fn conflicting_explicit_session_key_is_still_a_conflict() {
    let (skey, _) = SignedSecretKey::from_armor_single(std::fs::File::open("./tests/draft-bre-openpgp-samples-00/bob.sec.asc").unwrap()).unwrap();
    let mut original = Vec::new();
    Dearmor::new(BufReader::new(std::fs::File::open("./tests/gnupg/msg_to_bob.asc").unwrap())).read_to_end(&mut original).unwrap();
    let key_pw = Password::empty();
    let mut r = ring(Some(&skey), None, &key_pw);
    r.session_keys = vec![PlainSessionKey::V5 { key: vec![9u8; 32].into() }];
    let msg = Message::from_bytes(&original[..]).unwrap();
    assert!(msg.decrypt_the_ring(r, false).is_err(), "a wrong explicit session key beside the right recipient key went unnoticed");
}
