//! F45: an MPI of 65536 bits or more was serialized with a wrapped bit count.
use pgp::{ser::Serialize, types::Mpi};

/// An MPI announces its bit count in two octets. 8192 octets of 0xff are 65536 bits: the count wrapped to 0, so
/// the 8194 octets written parse back as an empty MPI followed by garbage.
#[test]
fn mpi_bit_count_is_not_truncated() {
    let big = Mpi::from_slice(&[0xff; 8192]);
    match big.to_bytes() {
        Err(_) => {} // refusing what cannot be encoded is fine
        Ok(bytes) => {
            let back = Mpi::try_from_reader(&mut &bytes[..]).expect("parse");
            assert_eq!(back, big, "the written MPI does not parse back to the value");
        }
    }
    // control: the largest encodable bit count is written as is
    let mut raw = vec![0xff; 8192];
    raw[0] = 0x7f;
    let bytes = Mpi::from_slice(&raw).to_bytes().unwrap();
    assert_eq!(&bytes[..2], &[0xff, 0xff]);
    assert_eq!(bytes.len(), 8194);
    // control: an ordinary MPI round-trips
    let ok = Mpi::from_slice(&[0x01; 512]);
    let bytes = ok.to_bytes().unwrap();
    assert_eq!(Mpi::try_from_reader(&mut &bytes[..]).unwrap(), ok);
}

