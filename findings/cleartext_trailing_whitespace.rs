// F36 demonstration (tests/f36_demo.rs in a scratch worktree before the fix): rejected for n in [1..63], accepted for 64..130.
use pgp::composed::{CleartextSignedMessage, KeyType, SecretKeyParamsBuilder};
use pgp::types::Password;
use rand::SeedableRng;

#[test]
fn trailing_white_space_is_tolerated_whatever_its_length() {
    let mut rng = rand_chacha::ChaCha8Rng::seed_from_u64(1);
    let key = SecretKeyParamsBuilder::default()
        .key_type(KeyType::Ed25519Legacy)
        .can_sign(true)
        .primary_user_id("a <a@example.org>".into())
        .build()
        .unwrap()
        .generate(&mut rng)
        .unwrap();
    let msg = CleartextSignedMessage::sign(&mut rng, "hello\n", &key.primary_key, &Password::empty()).unwrap();
    let armored = msg.to_armored_string(Default::default()).unwrap();
    CleartextSignedMessage::from_string(&armored).unwrap();
    let mut rejected = Vec::new();
    for n in 1..=130usize {
        let doc = format!("{}{}", armored, "\n".repeat(n));
        if CleartextSignedMessage::from_string(&doc).is_err() {
            rejected.push(n);
        }
    }
    assert!(rejected.is_empty(), "document followed by n line breaks is rejected for n in {:?} (and accepted for the other n up to 130)", rejected);
}
