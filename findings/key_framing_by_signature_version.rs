//! F70 (C11): the key framing in front of a key that is being signed (0x99 + two-octet length / 0x9B + four-octet length) was chosen by
//! the version of the KEY; RFC 9580 5.2.4 chooses it by the version of the SIGNATURE.  The two differ for third-party signatures
//! across key versions (a v6 key certifying a user id of a v4 key): the library's digest was not the RFC digest, so such signatures
//! do not verify in another implementation and vice versa.
use std::cell::RefCell;

use pgp::{
    composed::{KeyType, SecretKeyParamsBuilder},
    crypto::{hash::HashAlgorithm, public_key::PublicKeyAlgorithm},
    packet::{SignatureConfig, SignatureType, Subpacket, SubpacketData, UserId},
    ser::Serialize,
    types::{
        Fingerprint, KeyDetails, KeyId, KeyVersion, Password, PublicParams, SignatureBytes,
        SigningKey, Tag, Timestamp,
    },
};
use rand::SeedableRng;
use rand_chacha::ChaCha8Rng;
use sha2::{Digest, Sha256};

#[derive(Debug)]
struct Recorder<'a, K: SigningKey> {
    inner: &'a K,
    seen: RefCell<Vec<Vec<u8>>>,
}
impl<K: SigningKey> KeyDetails for Recorder<'_, K> {
    fn version(&self) -> KeyVersion { self.inner.version() }
    fn legacy_key_id(&self) -> KeyId { self.inner.legacy_key_id() }
    fn fingerprint(&self) -> Fingerprint { self.inner.fingerprint() }
    fn algorithm(&self) -> PublicKeyAlgorithm { self.inner.algorithm() }
    fn created_at(&self) -> Timestamp { self.inner.created_at() }
    fn legacy_v3_expiration_days(&self) -> Option<u16> { self.inner.legacy_v3_expiration_days() }
    fn public_params(&self) -> &PublicParams { self.inner.public_params() }
}
impl<K: SigningKey> SigningKey for Recorder<'_, K> {
    fn sign(&self, key_pw: &Password, hash: HashAlgorithm, data: &[u8]) -> pgp::errors::Result<SignatureBytes> {
        self.seen.borrow_mut().push(data.to_vec());
        self.inner.sign(key_pw, hash, data)
    }
    fn hash_alg(&self) -> HashAlgorithm { self.inner.hash_alg() }
}

#[test]
fn r1_v6_signature_over_v4_key_framing() {
    let mut rng = ChaCha8Rng::seed_from_u64(1);
    let v4 = SecretKeyParamsBuilder::default()
        .key_type(KeyType::Ed25519Legacy).can_certify(true).primary_user_id("bob".into())
        .build().unwrap().generate(&mut rng).unwrap();
    let v6 = SecretKeyParamsBuilder::default()
        .version(KeyVersion::V6)
        .key_type(KeyType::Ed25519).can_certify(true).primary_user_id("alice".into())
        .build().unwrap().generate(&mut rng).unwrap();
    let signer = &v6.primary_key;
    let signee = v4.primary_key.public_key();
    let key_body = signee.to_bytes().unwrap();
    let uid = UserId::from_str(Default::default(), "bob").unwrap();

    let salt = vec![7u8; 16];
    let mut config = SignatureConfig::v6_with_salt(SignatureType::CertGeneric, signer.algorithm(), HashAlgorithm::Sha256, salt.clone());
    config.hashed_subpackets = vec![Subpacket::regular(SubpacketData::SignatureCreationTime(Timestamp::from_secs(1_700_000_000))).unwrap()];
    let rec = Recorder { inner: signer, seen: RefCell::new(vec![]) };
    let sig = config.sign_certification_third_party(&rec, &Password::empty(), signee, Tag::UserId, &uid).unwrap();
    sig.verify_third_party_certification(signee, signer.public_key(), Tag::UserId, &uid).unwrap();

    let mut hashed = vec![0x05, 0x02];
    hashed.extend_from_slice(&1_700_000_000u32.to_be_bytes());
    let digest = |v6_framing: bool| {
        let mut h = Sha256::new();
        h.update(&salt);
        if v6_framing {
            h.update([0x9B]);
            h.update((key_body.len() as u32).to_be_bytes());
        } else {
            h.update([0x99]);
            h.update((key_body.len() as u16).to_be_bytes());
        }
        h.update(&key_body);
        h.update([0xB4]);
        h.update(3u32.to_be_bytes());
        h.update(b"bob");
        h.update([0x06, 0x10, u8::from(signer.algorithm()), 0x08]);
        h.update((hashed.len() as u32).to_be_bytes());
        h.update(&hashed);
        h.update([0x06, 0xFF]);
        h.update(((4 + 4 + hashed.len()) as u32).to_be_bytes());
        h.finalize().to_vec()
    };
    let seen = rec.seen.borrow()[0].clone();
    assert!(seen != digest(false) || seen == digest(true), "the digest frames the v4 key with 0x99 / 2-octet length although the signature is v6");
    assert_eq!(seen, digest(true), "RFC 9580 5.2.4: a v6 signature over a key hashes 0x9B and a four-octet length, whatever the version of that key");
}

