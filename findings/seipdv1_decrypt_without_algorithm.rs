//! C04 / audit A1
//!
//! `SymEncryptedProtectedData::decrypt(session_key, sym_alg: Option<_>, mode)`: the holder of a
//! v6 session key (`PlainSessionKey::sym_algorithm()` is `None`) receives a SEIPD packet whose
//! version octet the sender set to 1.  `Config::V1 => sym_alg.expect("v1")` panics
//! (src/packet/sym_encrypted_protected_data.rs:230) instead of returning an error.
use pgp::{
    composed::PlainSessionKey,
    packet::{Packet, PacketParser},
    types::Seipdv1ReadMode,
};

#[test]
fn seipd_version_1_with_v6_session_key() {
    // tag 18, length 40, version 1, 39 octets of "ciphertext"
    let mut bytes = vec![0xC0 | 18, 40, 1];
    bytes.extend_from_slice(&[0u8; 39]);
    let packet = PacketParser::new(&bytes[..]).next().unwrap().unwrap();
    let Packet::SymEncryptedProtectedData(seipd) = packet else {
        panic!("wrong packet")
    };

    let sk = PlainSessionKey::V6 {
        key: vec![1u8; 16].into(),
    };
    let PlainSessionKey::V6 { key } = &sk else {
        unreachable!()
    };

    let res = seipd.decrypt(key.as_ref(), sk.sym_algorithm(), Seipdv1ReadMode::default());
    assert!(res.is_err());
}
