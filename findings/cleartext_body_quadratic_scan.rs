//! F75 (C19): read_cleartext_body appended one line at a time to the text read so far and ran `out.rfind("\n-----")` over ALL of it
//! after every line: a cleartext body of n short lines cost O(n * length) - 80k two-octet lines (160 KB) took 2.7 s in a debug
//! build, 4x the input 12x the time.  Only the line just read can start the signature block.
//! (timing demonstration: the second size is 8x the first; linear work stays well under 30x)
use std::time::Instant;

fn body(lines: usize) -> String {
    let mut s = String::from("-----BEGIN PGP SIGNED MESSAGE-----\nHash: SHA256\n\n");
    for _ in 0..lines {
        s.push_str("a\n");
    }
    s.push_str("-----BEGIN PGP SIGNATURE-----\n\n=\n-----END PGP SIGNATURE-----\n");
    s
}

#[test]
fn cleartext_body_time_is_linear() {
    let time = |lines: usize| {
        let input = body(lines);
        let start = Instant::now();
        let _ = pgp::composed::CleartextSignedMessage::from_string(&input);
        start.elapsed()
    };
    let _ = time(1_000);
    let small = time(20_000);
    let large = time(160_000);
    println!("20k lines {small:?}, 160k lines {large:?}");
    assert!(large < small * 30 + std::time::Duration::from_millis(200), "8x the lines took {large:?} against {small:?}");
}
