//! F76 (C06): SignatureConfig::v6_with_salt takes a salt of any length and every signing function hashed it as it was, while
//! Signature::verify and the message reader refuse a v6 signature whose salt length is not the one of its hash algorithm: the
//! library signed what none of its data-verification interfaces accepts (Sha512 with a 16-octet salt: sign Ok, verify Err).
use pgp::{
    composed::{Deserializable, SignedSecretKey},
    crypto::hash::HashAlgorithm,
    packet::{SignatureConfig, SignatureType},
    types::{KeyDetails, Password},
};

#[test]
fn v6_signature_with_custom_salt_is_either_refused_or_verifies() {
    let (key, _) =
        SignedSecretKey::from_armor_file("tests/rfc9580/v6-ed25519-x448/tsk.asc").expect("key");
    let public = key.primary_key.public_key();

    let mut failures = Vec::new();
    for salt_len in [0usize, 16, 31, 32] {
        let config = SignatureConfig::v6_with_salt(
            SignatureType::Binary,
            key.primary_key.algorithm(),
            HashAlgorithm::Sha512, // expects a 32 byte salt
            vec![7u8; salt_len],
        );
        // refusing to sign would be fine; signing something that can never verify is not
        if let Ok(sig) = config.sign(&key.primary_key, &Password::empty(), &b"hello"[..]) {
            if let Err(e) = sig.verify(&public, &b"hello"[..]) {
                failures.push(format!("salt of {salt_len} bytes: signed, but verify says: {e}"));
            }
        }
    }
    assert!(failures.is_empty(), "{}", failures.join("\n"));
}
