//! F61 (C05): a flag set through the public API on a `KeyFlags` that was parsed from a zero-octet subpacket body was never written.
use pgp::packet::KeyFlags;
use pgp::ser::Serialize;

#[test]
fn flag_set_on_empty_key_flags_survives() {
    let mut flags = KeyFlags::try_from_reader(&[][..]).unwrap();
    assert_eq!(flags.to_bytes().unwrap(), Vec::<u8>::new(), "untouched empty flags stay empty");
    flags.set_sign(true);
    let bytes = flags.to_bytes().unwrap();
    assert_eq!(bytes.len(), flags.write_len());
    let back = KeyFlags::try_from_reader(&bytes[..]).unwrap();
    assert!(back.sign(), "the flag did not survive serialization");
    assert_eq!(flags, back);
}
