use pgp::composed::{Deserializable, DetachedSignature};

/// Build a v4 signature packet body whose hashed area holds one EmbeddedSignature subpacket containing `inner`.
fn wrap(inner: &[u8]) -> Vec<u8> {
    let mut sp = Vec::new();
    let splen = inner.len() + 1; // type octet + body
    if splen < 192 {
        sp.push(splen as u8);
    } else if splen < 16320 {
        let l = splen - 192;
        sp.push(((l >> 8) + 192) as u8);
        sp.push((l & 0xff) as u8);
    } else {
        sp.push(255);
        sp.extend_from_slice(&(splen as u32).to_be_bytes());
    }
    sp.push(32); // embedded signature
    sp.extend_from_slice(inner);

    let mut body = vec![4u8, 0x00, 1 /* RSA */, 8 /* SHA256 */];
    body.extend_from_slice(&(sp.len() as u16).to_be_bytes());
    body.extend_from_slice(&sp);
    body.extend_from_slice(&[0, 0]); // unhashed area
    body.extend_from_slice(&[0xAA, 0xBB]); // left 16 bits
    body.extend_from_slice(&[0, 1, 1]); // MPI: 1 bit, value 1
    body
}

fn nested(depth: usize) -> Vec<u8> {
    // innermost: no subpackets
    let mut cur = vec![4u8, 0x00, 1, 8, 0, 0, 0, 0, 0xAA, 0xBB, 0, 1, 1];
    for _ in 0..depth {
        cur = wrap(&cur);
        assert!(cur.len() < 65000, "too deep for v4 length fields");
    }
    // new-format packet header, tag 2, five-octet length
    let mut pkt = vec![0xC0 | 2, 255];
    pkt.extend_from_slice(&(cur.len() as u32).to_be_bytes());
    pkt.extend_from_slice(&cur);
    pkt
}

#[test]
fn deeply_nested_embedded_signatures_do_not_overflow_the_stack() {
    let depth: usize = std::env::var("DEPTH").ok().and_then(|s| s.parse().ok()).unwrap_or(4000);
    let bytes = nested(depth);
    eprintln!("depth {depth}, {} bytes", bytes.len());
    // must return Ok or Err, not crash
    let _ = DetachedSignature::from_bytes(&bytes[..]);
}
