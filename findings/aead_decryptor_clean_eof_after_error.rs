//! F48: the SEIPDv2 / AEAD stream decryptor did not remember that it failed. After the final authentication tag was
//! rejected, a consumer that read again was handed the rest of the plaintext followed by a clean end-of-stream.
use std::io::Read;

use pgp::{
    crypto::{
        aead::{AeadAlgorithm, ChunkSize},
        sym::SymmetricKeyAlgorithm,
    },
    packet::{StreamDecryptor, SymEncryptedProtectedData, SymEncryptedProtectedDataConfig},
};
use rand::SeedableRng;
use rand_chacha::ChaCha8Rng;

fn read_all_ignoring_one_error<R: Read>(mut r: R) -> (usize, Vec<std::io::Result<usize>>) {
    let mut total = 0;
    let mut log = Vec::new();
    let mut buf = [0u8; 256];
    for _ in 0..200 {
        let res = r.read(&mut buf);
        match &res {
            Ok(0) => {
                log.push(res);
                break;
            }
            Ok(n) => total += n,
            Err(_) => {}
        }
        log.push(res);
        if log.iter().filter(|r| r.is_err()).count() > 3 {
            break;
        }
    }
    (total, log)
}

#[test]
fn a_failed_aead_stream_stays_failed() {
    let mut rng = ChaCha8Rng::seed_from_u64(48);
    let key = [7u8; 16];
    let plain = vec![0x55u8; 1000];
    let packet = SymEncryptedProtectedData::encrypt_seipdv2(
        &mut rng,
        SymmetricKeyAlgorithm::AES128,
        AeadAlgorithm::Ocb,
        ChunkSize::C64B,
        &key,
        &plain,
    )
    .unwrap();
    let SymEncryptedProtectedDataConfig::V2 { salt, .. } = packet.config() else {
        panic!("v2 expected")
    };
    let mut data = packet.data().to_vec();

    // control: the untouched stream decrypts
    let mut ok = StreamDecryptor::v2(
        SymmetricKeyAlgorithm::AES128,
        AeadAlgorithm::Ocb,
        ChunkSize::C64B,
        salt,
        &key,
        &data[..],
    )
    .unwrap();
    let mut out = Vec::new();
    ok.read_to_end(&mut out).unwrap();
    assert_eq!(out, plain);

    // flip one bit of the final authentication tag
    let n = data.len();
    data[n - 1] ^= 1;
    let dec = StreamDecryptor::v2(
        SymmetricKeyAlgorithm::AES128,
        AeadAlgorithm::Ocb,
        ChunkSize::C64B,
        salt,
        &key,
        &data[..],
    )
    .unwrap();
    let (total, log) = read_all_ignoring_one_error(dec);
    assert!(log.iter().any(|r| r.is_err()), "control: the tampered stream reports an error");
    let last = log.last().unwrap();
    assert!(
        !matches!(last, Ok(0)),
        "after the error the stream ended cleanly: {total} plaintext octets were handed out, log tail {:?}",
        &log[log.len().saturating_sub(4)..]
    );
}
