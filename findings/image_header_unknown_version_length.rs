//! F58: an image attribute whose image header has an unknown version was re-serialized with a wrong header length
//! (1 + data instead of 3 + data), so the packet no longer equalled the bytes it was read from.
use pgp::{
    packet::{Packet, PacketParser},
    ser::Serialize,
};

#[test]
fn unknown_image_header_version_roundtrips() {
    // user attribute packet: subpacket length 9, type 1 (image), header: length 6 (LE), version 2, three octets of
    // header data, then two octets of image data
    let body = [0x09, 0x01, 0x06, 0x00, 0x02, 0xaa, 0xbb, 0xcc, 0x11, 0x22];
    let mut packet = vec![0xC0 | 17, body.len() as u8];
    packet.extend_from_slice(&body);

    let parsed = PacketParser::new(&packet[..]).next().unwrap().unwrap();
    assert!(matches!(parsed, Packet::UserAttribute(_)));
    let written = parsed.to_bytes().unwrap();
    assert_eq!(written, packet, "re-serialized packet differs from its input");

    let again = PacketParser::new(&written[..]).next().unwrap().unwrap();
    assert_eq!(again, parsed);
}
