//! F65 (C05): the opaque (unsupported curve) arm of the ECDSA / EdDSALegacy public-key parsers read `pub_len` octets - the v6 octet
//! count of the WHOLE public key material - after the curve OID had already been consumed: a v6 key over e.g. brainpoolP256r1
//! could not be read at all, while the v4 form of the same key round trips.
use pgp::packet::{Packet, PacketParser};
use pgp::ser::Serialize;

fn key_packets(alg: u8) -> (Vec<u8>, Vec<u8>) {
    // brainpoolP256r1 OID 1.3.36.3.3.2.8.1.1.7
    let oid = [0x2B, 0x24, 0x03, 0x03, 0x02, 0x08, 0x01, 0x01, 0x07];
    let mut point = vec![0x04u8];
    point.extend_from_slice(&[0x11; 64]);
    let mut params = vec![oid.len() as u8];
    params.extend_from_slice(&oid);
    params.extend_from_slice(&[0x02, 0x03]); // 515 bits
    params.extend_from_slice(&point);

    let mut body = vec![4u8, 0x60, 0, 0, 0, alg];
    body.extend_from_slice(&params);
    let mut v4 = vec![0xC0 | 6, body.len() as u8];
    v4.extend_from_slice(&body);

    let mut body = vec![6u8, 0x60, 0, 0, 0, alg];
    body.extend_from_slice(&(params.len() as u32).to_be_bytes());
    body.extend_from_slice(&params);
    let mut v6 = vec![0xC0 | 6, body.len() as u8];
    v6.extend_from_slice(&body);
    (v4, v6)
}

#[test]
fn v6_key_over_an_unsupported_curve_round_trips_like_its_v4_form() {
    // (EdDSALegacy, which has the same parser shape, is not a legal v6 algorithm: only ECDSA can show the defect end to end)
    for alg in [19u8] {
        let (v4, v6) = key_packets(alg);
        let parsed: Vec<Packet> = PacketParser::new(&v4[..]).collect::<Result<_, _>>().expect("v4 accepted");
        assert_eq!(parsed[0].to_bytes().unwrap(), v4);
        let parsed: Vec<Packet> = PacketParser::new(&v6[..]).collect::<Result<_, _>>().expect("v6 accepted");
        assert_eq!(parsed[0].to_bytes().unwrap(), v6, "alg {alg}");
    }
}
