// F33 demonstration (tests/f33_demo.rs in a scratch worktree before the fix): left {"Comment: see": [""]} right {"Comment": ["see:"]}.
use std::collections::BTreeMap;
use std::io::Read;

use pgp::armor::{self, BlockType, Dearmor};

struct P<'a>(&'a [u8]);
impl pgp::ser::Serialize for P<'_> {
    fn to_writer<W: std::io::Write>(&self, w: &mut W) -> pgp::errors::Result<()> {
        w.write_all(self.0)?;
        Ok(())
    }
    fn write_len(&self) -> usize {
        self.0.len()
    }
}

#[test]
fn header_values_with_colons_roundtrip() {
    let payload = b"hello world".to_vec();
    let sets: Vec<Vec<(&str, Vec<&str>)>> = vec![
        vec![("Comment", vec!["see:"])],
        vec![("Comment", vec!["a: b", "c:"]), ("Version", vec!["1"])],
        vec![("A", vec!["b"]), ("Comment", vec!["time 12:30:"])],
    ];
    for set in sets {
        let mut headers = BTreeMap::new();
        for (k, vs) in &set {
            headers.insert(k.to_string(), vs.iter().map(|v| v.to_string()).collect::<Vec<_>>());
        }
        let mut armored = Vec::new();
        armor::write(&P(&payload), BlockType::Message, &mut armored, Some(&headers), true).unwrap();
        let mut d = Dearmor::new(&armored[..]);
        let mut out = Vec::new();
        d.read_to_end(&mut out).unwrap();
        assert_eq!(out, payload);
        assert_eq!(d.headers, headers, "armor headers changed in the round trip");
    }
}
