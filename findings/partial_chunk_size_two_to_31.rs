//! F81 (C17): Builder::partial_chunk_size (and the partial generators behind it) accepted every power of two >= 512 that fits a u32,
//! i.e. also 2^31.  A partial body length is 2^n with n <= 30 (RFC 9580 4.2.1.4): PacketLength::Partial(2^31) is written as length
//! octet 224 + 31 = 255, which every reader - the library's own included - takes as the start of a five-octet FIXED length, and the
//! literal / compressed generators hit `expect("known construction")` once a full 2 GiB chunk has been buffered.
use pgp::{composed::MessageBuilder, types::PacketLength};

#[test]
fn chunk_size_above_the_largest_partial_length_is_refused() {
    let mut builder = MessageBuilder::from_bytes("", &b"hello"[..]);
    assert!(builder.partial_chunk_size(1 << 30).is_ok(), "2^30 is the largest legal partial length");
    let accepted = builder.partial_chunk_size(1 << 31).is_ok();

    // what the accepted size turns into on the wire
    let mut octets = Vec::new();
    PacketLength::Partial(1 << 31).to_writer_new(&mut octets).unwrap();
    assert_eq!(octets, [255], "(for reference) 2^31 is written as the five-octet-length marker");

    assert!(!accepted, "a chunk size of 2^31 is accepted although it cannot be framed as a partial body length");
}
