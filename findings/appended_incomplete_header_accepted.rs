//! F64 (C03/C09): octets appended behind the encrypted container that form an incomplete packet header (1..5 octets) were read as a
//! clean end of the packet stream: `PacketParser::next*` mapped every UnexpectedEof from header parsing to "no more packets".
use std::io::Read;

use pgp::{
    composed::{Message, MessageBuilder, PlainSessionKey, RawSessionKey},
    crypto::{
        aead::{AeadAlgorithm, ChunkSize},
        sym::SymmetricKeyAlgorithm,
    },
};
use rand::SeedableRng;
use rand_chacha::ChaCha8Rng;

const SYM: SymmetricKeyAlgorithm = SymmetricKeyAlgorithm::AES128;

fn decrypt(bytes: &[u8], sk: &PlainSessionKey) -> Result<Vec<u8>, String> {
    let msg = Message::from_bytes(bytes).map_err(|e| format!("parse: {e}"))?;
    let mut dec = msg
        .decrypt_with_session_key(sk.clone())
        .map_err(|e| format!("decrypt: {e}"))?;
    let mut out = Vec::new();
    dec.read_to_end(&mut out).map_err(|e| format!("read: {e}"))?;
    Ok(out)
}

/// Octets appended behind the SEIPD packet that form an incomplete packet header are accepted.
#[test]
fn appended_incomplete_packet_header_is_rejected() {
    let mut rng = ChaCha8Rng::seed_from_u64(7);
    let raw: RawSessionKey = vec![0x42u8; 16].into();

    let mut b = MessageBuilder::from_bytes("", vec![1u8; 100]).seipd_v1(&mut rng, SYM);
    b.set_session_key(raw.clone()).unwrap();
    let v1 = b.to_vec(&mut rng).unwrap();
    let sk1 = PlainSessionKey::V3_4 {
        sym_alg: SYM,
        key: raw.clone(),
    };

    let mut b = MessageBuilder::from_bytes("", vec![1u8; 100]).seipd_v2(
        &mut rng,
        SYM,
        AeadAlgorithm::Ocb,
        ChunkSize::C64B,
    );
    b.set_session_key(raw.clone()).unwrap();
    let v2 = b.to_vec(&mut rng).unwrap();
    let sk2 = PlainSessionKey::V6 { key: raw };

    let mut accepted = Vec::new();
    for (name, msg, sk) in [("v1", &v1, &sk1), ("v2", &v2, &sk2)] {
        assert!(decrypt(msg, sk).is_ok());
        for extra in [
            &[0xCB][..],                   // new format tag, no length
            &[0xD4],                       // unknown tag, no length
            &[0xCB, 0xFF],                 // five octet length, cut off
            &[0xCB, 0xFF, 0x00, 0x00],     // five octet length, cut off
            &[0xD2, 0xC5],                 // two octet length, cut off
            &[0x8C],                       // old format tag, no length
        ] {
            let mut t = msg.to_vec();
            t.extend_from_slice(extra);
            if let Ok(out) = decrypt(&t, sk) {
                accepted.push(format!("{name} + {extra:02x?} -> {} bytes", out.len()));
            }
        }
    }
    assert!(accepted.is_empty(), "accepted: {accepted:#?}");
}
