// F28 demonstration (tests/f28_demo.rs in a scratch worktree before the fix): text "abc\r" changed in the armored round trip (left "abc").
use pgp::composed::{CleartextSignedMessage, KeyType, SecretKeyParamsBuilder};
use pgp::types::Password;
use rand::SeedableRng;

#[test]
fn cleartext_text_ending_in_cr_roundtrips() {
    let mut rng = rand_chacha::ChaCha8Rng::seed_from_u64(1);
    let key = SecretKeyParamsBuilder::default()
        .key_type(KeyType::Ed25519Legacy)
        .can_sign(true)
        .primary_user_id("a <a@example.org>".into())
        .build()
        .unwrap()
        .generate(&mut rng)
        .unwrap();
    let pubkey = key.primary_key.public_key();
    for text in ["abc\r", "line one\nline two\r", "\r", "x\r\r"] {
        let msg = CleartextSignedMessage::sign(&mut rng, text, &key.primary_key, &Password::empty()).unwrap();
        msg.verify(&pubkey).unwrap();
        let armored = msg.to_armored_string(Default::default()).unwrap();
        let (back, _) = CleartextSignedMessage::from_string(&armored).unwrap();
        assert_eq!(back.text(), text, "text {:?} changed in the armored round trip", text);
        back.verify(&pubkey).expect("signature no longer verifies after the round trip");
    }
}
