//! F51: public Result-returning methods panicked when called on a message whose reader had already failed.
use std::io::Read;

use pgp::{
    composed::{KeyType, Message, PlainSessionKey, SecretKeyParamsBuilder},
    crypto::{hash::HashAlgorithm, sym::SymmetricKeyAlgorithm},
    packet::{LiteralData, OnePassSignature, Packet, SignatureType},
    ser::Serialize,
    types::KeyDetails,
};
use rand::SeedableRng;
use rand_chacha::ChaCha8Rng;

/// One-pass signature + literal data, but the trailing signature packet is missing: reading fails.
/// Asking for the verification result afterwards must be an error, not a panic.
#[test]
fn verify_after_failed_read() {
    let mut rng = ChaCha8Rng::seed_from_u64(51);
    let key = SecretKeyParamsBuilder::default()
        .key_type(KeyType::Ed25519Legacy)
        .can_sign(true)
        .primary_user_id("f51".into())
        .build()
        .unwrap()
        .generate(&mut rng)
        .unwrap();
    let ops = OnePassSignature::v3(
        SignatureType::Binary,
        HashAlgorithm::Sha256,
        key.algorithm(),
        key.legacy_key_id(),
    );
    let lit = LiteralData::from_bytes(&b""[..], b"hello"[..].into()).unwrap();
    let packets: Vec<Packet> = vec![ops.into(), lit.into()];
    let bytes = packets.to_bytes().unwrap();

    let mut msg = Message::from_bytes(&bytes[..]).unwrap();
    let mut out = Vec::new();
    assert!(msg.read_to_end(&mut out).is_err(), "control: the read fails (missing signature packet)");

    let public = key.primary_key.public_key();
    assert!(msg.verify(public).is_err());
    assert!(msg.verify_nested_explicit(0, public).is_err());
    let nested = msg.verify_nested(&[public]);
    assert!(nested.is_err() || !matches!(nested.as_deref(), Ok([pgp::composed::VerificationResult::Valid(_)])));
}

/// A first candidate session key that cannot be used leaves the container unusable; trying the next candidate must be an
/// error, not a panic.
#[test]
fn decrypt_again_after_failed_decrypt() {
    let mut bytes = vec![0xC0 | 18, 40, 1];
    bytes.extend_from_slice(&[0u8; 39]);
    let msg = Message::from_bytes(&bytes[..]).unwrap();
    let Message::Encrypted { mut edata, .. } = msg else {
        panic!("not encrypted")
    };
    let r1 = edata.decrypt(&PlainSessionKey::V3_4 {
        sym_alg: SymmetricKeyAlgorithm::from(99),
        key: vec![].into(),
    });
    assert!(r1.is_err());
    let r2 = edata.decrypt(&PlainSessionKey::V3_4 {
        sym_alg: SymmetricKeyAlgorithm::AES128,
        key: vec![0u8; 16].into(),
    });
    assert!(r2.is_err());
}
