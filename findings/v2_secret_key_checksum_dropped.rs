//! F78 (C05): an unprotected version 2 secret key has the version 3 format (two-octet checksum after the key material) and is
//! accepted through the same v2/v3 parser, but PlainSecretParams::{try_from_reader, to_writer, write_len} took the checksum path
//! only for `version == V3 || version == V4`: the checksum of a v2 key was neither read nor compared, and the key was written back
//! two octets short of the length its header announces.
use pgp::{
    composed::KeyType,
    crypto::public_key::PublicKeyAlgorithm,
    packet::{Packet, PacketParser, PubKeyInner, PublicKey, SecretKey},
    ser::Serialize,
    types::{KeyVersion, Timestamp},
};
use rand::SeedableRng;
use rand_chacha::ChaCha8Rng;

fn parse_one(bytes: &[u8]) -> pgp::errors::Result<Packet> {
    let mut all: Vec<_> = PacketParser::new(bytes).collect();
    assert_eq!(all.len(), 1, "{all:?}");
    all.pop().unwrap()
}

#[test]
fn v2_secret_key_keeps_its_checksum() {
    let mut rng = ChaCha8Rng::seed_from_u64(7);
    let (public_params, secret_params) = KeyType::Rsa(1024).generate(&mut rng).unwrap();
    let inner = PubKeyInner::new(KeyVersion::V3, PublicKeyAlgorithm::RSA, Timestamp::from_secs(1_000_000), Some(0), public_params).unwrap();
    let key = SecretKey::new(PublicKey::from_inner(inner).unwrap(), secret_params).unwrap();
    let v3_bytes = Packet::from(key).to_bytes().unwrap();
    assert_eq!(parse_one(&v3_bytes).unwrap().to_bytes().unwrap(), v3_bytes);

    // the same packet as version 2: header is 3 octets (0xc5, two octet length), then the version
    let mut v2_bytes = v3_bytes.clone();
    assert_eq!(v2_bytes[3], 3);
    v2_bytes[3] = 2;
    let v2_back = parse_one(&v2_bytes).expect("version 2 key is accepted");
    assert_eq!(v2_back.to_bytes().unwrap(), v2_bytes, "the canonical version 2 key is not written back as it was read");

    // a wrong checksum is refused, as for version 3
    let mut bad = v2_bytes.clone();
    let n = bad.len();
    bad[n - 1] ^= 1;
    assert!(parse_one(&bad).is_err(), "a version 2 key with a wrong checksum is accepted");
}
