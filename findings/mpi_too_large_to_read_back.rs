//! F87 (C05): Mpi::try_from_reader refuses an announced bit count above 16384, but Mpi::to_writer wrote any value that fits the
//! two-octet count (up to 65535 bits): `Mpi::from_slice(&[0xFF; 2049])` (16392 bits) was serialized without an error to bytes the
//! library's own reader refuses.
use pgp::{ser::Serialize, types::Mpi};

#[test]
fn a_written_mpi_reads_back() {
    for octets in [1usize, 256, 2048, 2049, 4096, 8191] {
        let m = Mpi::from_slice(&vec![0xFFu8; octets]);
        match m.to_bytes() {
            Err(_) => assert!(octets > 2048, "an MPI of {octets} octets must be writable"),
            Ok(bytes) => {
                let back = Mpi::try_from_reader(&bytes[..]).unwrap_or_else(|e| panic!("an MPI of {octets} octets was written but cannot be read back: {e}"));
                assert_eq!(back, m);
            }
        }
    }
}
