//! C04 (overflow-checks builds only, i.e. the dev/test profile): serializing a parsed
//! *unprotected v6 Secret-Key packet of an unknown public-key algorithm* whose secret material
//! is >= 16_843_010 octets of 0xFF panics with "attempt to add with overflow".
//!
//! `crypto::checksum::SimpleChecksum` (`Hasher::write`, src/crypto/checksum.rs) sums one whole
//! `write()` buffer with `buf.iter().map(u32::from).sum::<u32>()` before reducing mod 65536.
//! `PlainSecretParams::Unknown` hands its complete `data` to the hasher in a single
//! `write_all` (`PlainSecretParams::to_writer` -> `to_writer_raw`, also `checksum_simple`), and
//! 16_843_010 * 255 > u32::MAX.  The packet parser imposes no size limit, so a 16 MiB packet
//! reaches it.  (With overflow checks off, the sum wraps and the result is still right.)
//! Missing: wrapping / chunked accumulation (or a bound on the buffer) in SimpleChecksum.
use pgp::{
    packet::{Packet, PacketParser},
    ser::Serialize,
};

fn packet(tag: u8, body: &[u8]) -> Vec<u8> {
    let mut p = vec![0xC0 | tag, 0xff];
    p.extend((body.len() as u32).to_be_bytes());
    p.extend_from_slice(body);
    p
}

#[test]
fn big_unknown_v6_secret_key_serialize() {
    // v6, created, algorithm 99 (unknown), 1 octet of public key material
    let mut body = vec![6u8, 0x5f, 0, 0, 0, 99];
    body.extend(1u32.to_be_bytes());
    body.push(0);
    body.push(0); // s2k usage 0: unprotected
    body.extend(std::iter::repeat(0xffu8).take(16_843_010));
    let pkt = packet(5, &body);

    let mut seen = 0;
    for p in PacketParser::new(&pkt[..]) {
        if let Ok(Packet::SecretKey(k)) = p {
            seen += 1;
            let mut out = Vec::new();
            let _ = k.to_writer(&mut out); // must be Ok or Err
            let _ = k.secret_params().checksum();
        }
    }
    assert_eq!(seen, 1, "the key is expected to parse");
}
