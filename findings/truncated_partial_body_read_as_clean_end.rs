//! C04 / audit A1
//!
//! A CFB encrypted container (legacy SED, or SEIPDv1 read in `Seipdv1ReadMode::Streaming`) that is
//! framed with partial body lengths and ends right after a partial chunk (the next length octet is
//! missing).  The inner literal packet ends exactly where the decryptor's first 8 KiB buffer ends,
//! so the missing length octet is only noticed by the trailing-data check that runs when the
//! literal has been read completely:
//!
//!  - `PacketBodyReader` fails with `UnexpectedEof`, the CFB `StreamDecryptorInner` goes to its
//!    `Error` state (its source is dropped),
//!  - `PacketParser::next_ref` maps `UnexpectedEof` to "no more packets",
//!  - `MessageReader::check_trailing_data` then calls `Edata::get_mut()`, which reaches
//!    `StreamDecryptorInner::get_mut()` => `panic!("error state")`
//!    (src/crypto/sym/decryptor.rs:391).
//!
//! Expected: `read_to_end` returns `Err`.
use std::io::Read;

use pgp::{
    composed::{DecryptionOptions, Message, PlainSessionKey, TheRing},
    crypto::sym::SymmetricKeyAlgorithm,
    types::Seipdv1ReadMode,
};
use rand::SeedableRng;
use rand_chacha::ChaCha8Rng;

/// A literal data packet (new format header, two octet length) of `total` octets overall.
fn literal_packet(total: usize) -> Vec<u8> {
    let body_len = total - 3;
    assert!((192..8384).contains(&body_len));
    let l = body_len - 192;
    let mut out = vec![0xCB, 192 + (l >> 8) as u8, (l & 0xff) as u8];
    out.extend_from_slice(&[b'b', 0, 0, 0, 0, 0]);
    out.resize(total, b'x');
    out
}

/// New format packet `tag`, body split into partial chunks (8192, 16, 2, 1 ...), and *no* final
/// length octet after the last partial chunk.
fn partial_dangling(tag: u8, body: &[u8]) -> Vec<u8> {
    let mut out = vec![0xC0 | tag];
    let mut rest = body;
    while !rest.is_empty() {
        let p = usize::BITS - 1 - rest.len().leading_zeros(); // largest 2^p <= len
        out.push(224 + p as u8);
        out.extend_from_slice(&rest[..1 << p]);
        rest = &rest[1 << p..];
    }
    out
}

fn decrypt_and_read(bytes: &[u8], key: &[u8], opts: DecryptionOptions) -> std::io::Result<usize> {
    let msg = Message::from_bytes(bytes).expect("parse");
    let ring = TheRing {
        session_keys: vec![PlainSessionKey::V3_4 {
            sym_alg: SymmetricKeyAlgorithm::AES128,
            key: key.into(),
        }],
        decrypt_options: opts,
        ..Default::default()
    };
    let (mut msg, _) = msg.decrypt_the_ring(ring, true).expect("decrypt");
    let mut out = Vec::new();
    msg.read_to_end(&mut out)
}

#[test]
fn sed_partial_body_ends_after_chunk() {
    let mut rng = ChaCha8Rng::seed_from_u64(1);
    let alg = SymmetricKeyAlgorithm::AES128;
    let key = [7u8; 16];

    // 18 octets prefix + 8192 octets: the literal packet fills the first decryptor buffer
    let ct = alg.encrypt(&mut rng, &key, &literal_packet(8192)).unwrap();
    assert_eq!(ct.len(), 18 + 8192);
    let bytes = partial_dangling(9, &ct);

    let res = decrypt_and_read(&bytes, &key, DecryptionOptions::new().enable_legacy());
    assert!(res.is_err(), "truncated partial body must be an error");
}

#[test]
fn seipdv1_streaming_partial_body_ends_after_chunk() {
    let mut rng = ChaCha8Rng::seed_from_u64(1);
    let alg = SymmetricKeyAlgorithm::AES128;
    let key = [7u8; 16];

    // literal (8170) + MDC (22) fill the first decryptor buffer
    let ct = alg
        .encrypt_protected(&mut rng, &key, &literal_packet(8170))
        .unwrap();
    assert_eq!(ct.len(), 18 + 8192);
    let mut body = vec![1u8];
    body.extend_from_slice(&ct);
    let bytes = partial_dangling(18, &body);

    let res = decrypt_and_read(
        &bytes,
        &key,
        DecryptionOptions::new().set_seipdv1_read_mode(Seipdv1ReadMode::Streaming),
    );
    assert!(res.is_err(), "truncated partial body must be an error");
}
