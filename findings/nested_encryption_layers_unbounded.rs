//! F82 (C04/C19): the bound on container nesting (MAX_NESTING_DEPTH = 32, added by an earlier repair because reading recurses
//! through every layer) counted layers with MessageReader::get_mut, whose Edata arm ends in a call of itself on the inner reader:
//! for an encryption layer directly inside another one a single count covered both, Edata(Edata(..Edata(Reader))) always had
//! depth 1, and a chain of 200 SEIPDv1 containers was peeled off without ever being refused.
use pgp::{
    composed::{Message, PlainSessionKey},
    crypto::sym::SymmetricKeyAlgorithm,
    packet::{LiteralData, PacketTrait, SymEncryptedProtectedData},
};
use rand::SeedableRng;
use rand_chacha::ChaCha8Rng;

const ALG: SymmetricKeyAlgorithm = SymmetricKeyAlgorithm::AES128;
const KEY: [u8; 16] = [7u8; 16];

fn nested_encrypted(layers: usize) -> Vec<u8> {
    let mut rng = ChaCha8Rng::seed_from_u64(1);

    let lit = LiteralData::from_bytes(b"".as_slice(), b"hello".as_slice().into()).unwrap();
    let mut bytes = Vec::new();
    lit.to_writer_with_header(&mut bytes).unwrap();

    for _ in 0..layers {
        let p = SymEncryptedProtectedData::encrypt_seipdv1(&mut rng, ALG, &KEY, &bytes).unwrap();
        let mut out = Vec::new();
        p.to_writer_with_header(&mut out).unwrap();
        bytes = out;
    }
    bytes
}

/// Returns the number of encryption layers that could be peeled off
fn peel(bytes: &[u8]) -> (usize, bool) {
    let mut msg = Message::from_bytes(bytes).unwrap();
    let mut peeled = 0;
    while msg.is_encrypted() {
        let sk = PlainSessionKey::V3_4 {
            sym_alg: ALG,
            key: KEY.as_slice().into(),
        };
        match msg.decrypt_with_session_key(sk) {
            Ok(m) => {
                msg = m;
                peeled += 1;
            }
            Err(e) => {
                eprintln!("refused after {peeled} layers: {e}");
                return (peeled, false);
            }
        }
    }
    let data = msg.as_data_vec().unwrap();
    assert_eq!(data, b"hello");
    (peeled, true)
}

#[test]
fn encryption_nesting_is_bounded() {
    let (peeled, complete) = peel(&nested_encrypted(200));
    assert!(!complete && peeled <= 33, "200 nested encryption layers were accepted (peeled {peeled})");
    // what is within the bound still decrypts
    let (peeled, complete) = peel(&nested_encrypted(20));
    assert!(complete && peeled == 20, "20 layers: peeled {peeled}, complete {complete}");
}
