//! C04: parsing an *unencrypted* RSA Secret-Key packet whose "primes" p and q are not coprime
//! (e.g. p == q, n = p^2) panics in `crypto::rsa::SecretKey::to_mpi`
//! (`p.mod_inverse(q).expect("invalid prime")`, src/crypto/rsa.rs:84).
//!
//! `rsa::RsaPrivateKey::from_components` only checks that prod(primes) == n and
//! d*e == 1 mod (p_i - 1); it ignores the failure of `precompute()` (q^-1 mod p does not exist).
//! `PlainSecretParams::try_from_reader` then verifies the v3/v4 two-octet checksum by
//! *re-serializing* the key (`compare_checksum_simple` -> `to_writer_raw` -> `to_mpi`), which
//! recomputes u = p^-1 mod q and `expect`s it to exist.
//!
//! The test fails (panics) on the current tree; it must return Ok/Err instead.
use pgp::packet::PacketParser;

fn mpi(v: &[u8]) -> Vec<u8> {
    // v: big endian, no leading zero
    let bits = (v.len() - 1) * 8 + (8 - v[0].leading_zeros() as usize);
    let mut out = vec![(bits >> 8) as u8, bits as u8];
    out.extend_from_slice(v);
    out
}

fn secret_key_packet(n: &[u8], e: &[u8], d: &[u8], p: &[u8], q: &[u8], u: &[u8]) -> Vec<u8> {
    // v4, created, alg = RSA (1)
    let mut body = vec![4u8, 0x5f, 0, 0, 0, 1];
    body.extend(mpi(n));
    body.extend(mpi(e));
    body.push(0); // s2k usage: unprotected
    let mut sec = Vec::new();
    sec.extend(mpi(d));
    sec.extend(mpi(p));
    sec.extend(mpi(q));
    sec.extend(mpi(u));
    let sum: u32 = sec.iter().map(|b| *b as u32).sum();
    body.extend(&sec);
    body.extend(((sum & 0xffff) as u16).to_be_bytes());

    assert!(body.len() < 192);
    let mut pkt = vec![0xC5, body.len() as u8]; // new format, tag 5 (Secret-Key)
    pkt.extend(body);
    pkt
}

fn parse_all(pkt: &[u8]) {
    // every item must be Ok(_) or Err(_); the iterator must not panic
    for p in PacketParser::new(pkt) {
        let _ = p;
    }
}

#[test]
fn rsa_secret_key_p_equals_q() {
    // n = 9 = 3 * 3, e = 3, d = 1 (e*d = 3 = 1 mod (p-1) = 2)
    let pkt = secret_key_packet(&[9], &[3], &[1], &[3], &[3], &[1]);
    parse_all(&pkt);
}

#[test]
fn rsa_secret_key_p_q_share_a_factor() {
    // p = 15, q = 21 (gcd 3), n = 315 = 0x013b; e = 3, d = 47 (3*47 = 141 = 1 mod 14 and mod 20)
    let pkt = secret_key_packet(&[0x01, 0x3b], &[3], &[47], &[15], &[21], &[1]);
    parse_all(&pkt);
}

#[test]
fn rsa_secret_key_p_equals_q_via_composed_api() {
    use pgp::composed::{Deserializable, SignedSecretKey};
    let pkt = secret_key_packet(&[9], &[3], &[1], &[3], &[3], &[1]);
    let _ = SignedSecretKey::from_bytes(&pkt[..]);
}

/// v6 keys carry no two-octet checksum, so the same key *parses* fine; the panic then happens
/// when the parsed packet is serialized (or `SecretParams::checksum()` / `write_len()` is called).
#[test]
fn rsa_v6_secret_key_p_equals_q_serialize() {
    use pgp::{packet::Packet, ser::Serialize};

    let mut pubm = Vec::new();
    pubm.extend(mpi(&[9]));
    pubm.extend(mpi(&[3]));
    let mut body = vec![6u8, 0x5f, 0, 0, 0, 1];
    body.extend((pubm.len() as u32).to_be_bytes());
    body.extend(&pubm);
    body.push(0); // s2k usage: unprotected
    body.extend(mpi(&[1])); // d
    body.extend(mpi(&[3])); // p
    body.extend(mpi(&[3])); // q
    body.extend(mpi(&[1])); // u
    let mut pkt = vec![0xC5, body.len() as u8];
    pkt.extend(body);

    let mut seen = 0;
    for p in PacketParser::new(&pkt[..]) {
        if let Ok(Packet::SecretKey(k)) = p {
            seen += 1;
            let mut out = Vec::new();
            let _ = k.to_writer(&mut out); // must be Ok or Err
        }
    }
    // rejecting the key while parsing is fine as well
    assert!(seen <= 1);
}
