//! F59: in the cleartext signature framework a line that ends in CR, blanks, LF was trimmed to CR LF and then read as one
//! line break, so "pay 10\r\t\n" had the signed form of "pay 10\n": the document could be altered without breaking
//! the signature, and the signed form was not the RFC one ("pay 10\r" followed by CR LF).
use pgp::composed::{CleartextSignedMessage, KeyType, SecretKeyParamsBuilder};
use pgp::types::Password;
use rand::SeedableRng;
use rand_chacha::ChaCha8Rng;

#[test]
fn cr_blank_lf_is_not_a_plain_line_break() {
    let mut rng = ChaCha8Rng::seed_from_u64(59);
    let key = SecretKeyParamsBuilder::default()
        .key_type(KeyType::Ed25519Legacy)
        .can_sign(true)
        .primary_user_id("f59".into())
        .build()
        .unwrap()
        .generate(&mut rng)
        .unwrap();

    let msg = CleartextSignedMessage::sign(&mut rng, "pay 10\nbye\n", &*key, &Password::empty()).unwrap();
    let armored = msg.to_armored_string(Default::default()).unwrap();
    assert!(armored.contains("pay 10\nbye\n"));

    // control: the untouched document verifies
    let (back, _) = CleartextSignedMessage::from_string(&armored).unwrap();
    back.verify(&key.to_public_key()).expect("control");

    // alter the text: a carriage return and a tab in front of the line break
    let altered = armored.replacen("pay 10\n", "pay 10\r\t\n", 1);
    let (back, _) = CleartextSignedMessage::from_string(&altered).unwrap();
    assert_eq!(back.signed_text(), "pay 10\r\r\nbye\r\n", "the signed form keeps the lone CR as content");
    assert!(
        back.verify(&key.to_public_key()).is_err(),
        "the altered document still verifies"
    );
}
