// F40 demonstration (tests/f40_demo.rs in a scratch worktree before the fix): "a signature with a critical private-use (type 101) subpacket was accepted".
use pgp::composed::{KeyType, SecretKeyParamsBuilder};
use pgp::crypto::hash::HashAlgorithm;
use pgp::packet::{SignatureConfig, SignatureType, Subpacket, SubpacketData};
use pgp::types::{KeyDetails, Password, Timestamp};
use rand::SeedableRng;

#[test]
fn critical_private_use_subpacket_is_not_accepted() {
    let mut rng = rand_chacha::ChaCha8Rng::seed_from_u64(1);
    let key = SecretKeyParamsBuilder::default()
        .key_type(KeyType::Ed25519Legacy)
        .can_sign(true)
        .primary_user_id("a <a@example.org>".into())
        .build()
        .unwrap()
        .generate(&mut rng)
        .unwrap();
    let mut config = SignatureConfig::v4(SignatureType::Binary, key.primary_key.algorithm(), HashAlgorithm::Sha256);
    config.hashed_subpackets = vec![
        Subpacket::regular(SubpacketData::SignatureCreationTime(Timestamp::now())).unwrap(),
        Subpacket::critical(SubpacketData::Experimental(101, vec![1, 2, 3].into())).unwrap(),
    ];
    // a critical subpacket of a type this implementation does not understand must make the signature fail
    match config.sign(&key.primary_key, &Password::empty(), &b"data"[..]) {
        Err(_) => {}
        Ok(sig) => {
            let res = sig.verify(&key.primary_key.public_key(), &b"data"[..]);
            assert!(res.is_err(), "a signature with a critical private-use (type 101) subpacket was accepted");
        }
    }
}
