//! F49: a trailing padding / marker / unknown packet behind a message was read into a vector in full just to skip it,
//! so streaming a small message followed by a large padding packet buffered the whole padding.
use std::{
    alloc::{GlobalAlloc, Layout, System},
    io::Read,
    sync::atomic::{AtomicUsize, Ordering},
};

use pgp::{
    composed::Message,
    packet::{LiteralData, Packet},
    ser::Serialize,
    types::{PacketHeaderVersion, Tag},
};

struct Counting;
static LIVE: AtomicUsize = AtomicUsize::new(0);
static PEAK: AtomicUsize = AtomicUsize::new(0);

unsafe impl GlobalAlloc for Counting {
    unsafe fn alloc(&self, l: Layout) -> *mut u8 {
        let live = LIVE.fetch_add(l.size(), Ordering::SeqCst) + l.size();
        PEAK.fetch_max(live, Ordering::SeqCst);
        System.alloc(l)
    }
    unsafe fn dealloc(&self, p: *mut u8, l: Layout) {
        LIVE.fetch_sub(l.size(), Ordering::SeqCst);
        System.dealloc(p, l)
    }
    unsafe fn realloc(&self, p: *mut u8, l: Layout, new: usize) -> *mut u8 {
        if new > l.size() {
            let live = LIVE.fetch_add(new - l.size(), Ordering::SeqCst) + new - l.size();
            PEAK.fetch_max(live, Ordering::SeqCst);
        } else {
            LIVE.fetch_sub(l.size() - new, Ordering::SeqCst);
        }
        System.realloc(p, l, new)
    }
}

#[global_allocator]
static A: Counting = Counting;

/// Streams `input` chunk-wise from a reader that owns nothing but a counter, so the input itself is not in memory.
#[derive(Debug)]
struct Synthetic {
    head: Vec<u8>,
    pos: usize,
    padding_left: usize,
}

impl Read for Synthetic {
    fn read(&mut self, buf: &mut [u8]) -> std::io::Result<usize> {
        if self.pos < self.head.len() {
            let n = buf.len().min(self.head.len() - self.pos);
            buf[..n].copy_from_slice(&self.head[self.pos..self.pos + n]);
            self.pos += n;
            return Ok(n);
        }
        let n = buf.len().min(self.padding_left);
        buf[..n].fill(0xAA);
        self.padding_left -= n;
        Ok(n)
    }
}

#[test]
fn trailing_padding_is_skipped_not_buffered() {
    const PADDING: usize = 32 << 20;

    // literal data packet followed by the header of a 32 MiB padding packet
    let lit = LiteralData::from_bytes(&b""[..], b"hello"[..].into()).unwrap();
    let mut head = Vec::new();
    Packet::from(lit).to_writer(&mut head).unwrap();
    PacketHeaderVersion::New
        .write_header(&mut head, Tag::Padding, PADDING)
        .unwrap();

    let source = std::io::BufReader::new(Synthetic {
        head,
        pos: 0,
        padding_left: PADDING,
    });

    let before = LIVE.load(Ordering::SeqCst);
    PEAK.store(before, Ordering::SeqCst);
    let mut msg = Message::from_bytes(source).unwrap();
    let mut out = Vec::new();
    msg.read_to_end(&mut out).unwrap();
    assert_eq!(out, b"hello");
    let peak = PEAK.load(Ordering::SeqCst) - before;
    assert!(
        peak < (1 << 20),
        "streaming a 5 octet message followed by a {PADDING} octet padding packet held {peak} octets at its peak"
    );
}
