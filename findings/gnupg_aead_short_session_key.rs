//! C04 / audit A1
//!
//! Packet level decryption of a GnuPG AEAD (type 20) packet: `packet::StreamDecryptor::gnupg_aead`
//! / `crypto::aead::StreamDecryptor::new_gnupg` use the session key as the message key without
//! comparing its length to the cipher's key size (only the composed
//! `SymEncryptedProtectedDataReader::decrypt` does).  A session key whose length was chosen by the
//! sender (e.g. 5 octets of ESK plaintext) makes `AeadAlgorithm::decrypt_in_place` slice
//! `&key[..16]`: "range end index 16 out of range for slice of length 5" (src/crypto/aead.rs:155).
use std::io::Read;

use pgp::{
    crypto::{
        aead::{AeadAlgorithm, ChunkSize},
        sym::SymmetricKeyAlgorithm,
    },
    packet::StreamDecryptor,
};

#[test]
fn gnupg_aead_session_key_too_short() {
    let data = vec![0u8; 100];
    let res = StreamDecryptor::gnupg_aead(
        SymmetricKeyAlgorithm::AES128,
        AeadAlgorithm::Ocb,
        ChunkSize::C64B,
        &[1u8; 5],
        &[2u8; 15],
        &data[..],
    )
    .map_err(|e| e.to_string())
    .and_then(|mut dec| {
        let mut out = Vec::new();
        dec.read_to_end(&mut out).map_err(|e| e.to_string())
    });
    assert!(res.is_err());
}
