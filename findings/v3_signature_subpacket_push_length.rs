//! F44: adding an unhashed subpacket to a v3 signature (which has no subpacket areas) was accepted and bumped the
//! stored packet length, while nothing more was written.
use pgp::{
    crypto::{hash::HashAlgorithm, public_key::PublicKeyAlgorithm},
    packet::{PacketHeader, PacketTrait, Signature, SignatureType, Subpacket, SubpacketData},
    ser::Serialize,
    types::{KeyId, Mpi, PacketLength, SignatureBytes, Tag, Timestamp},
};

fn v3_signature() -> Signature {
    let sig_bytes = SignatureBytes::Mpis(vec![Mpi::from_slice(&[0x42; 16])]);
    // version, hashed len, type, created, key id, pub alg, hash alg, hash prefix, one MPI of 16 octets
    let body_len = 1 + 1 + 1 + 4 + 8 + 1 + 1 + 2 + (2 + 16);
    Signature::v3(
        PacketHeader::new_fixed(Tag::Signature, body_len as u32),
        SignatureType::Binary,
        PublicKeyAlgorithm::RSA,
        HashAlgorithm::Sha256,
        Timestamp::from_secs(1_000_000),
        KeyId::from([1, 2, 3, 4, 5, 6, 7, 8]),
        [0xaa, 0xbb],
        sig_bytes,
    )
}

#[test]
fn announced_length_matches_written_length_after_push() {
    let mut sig = v3_signature();
    assert_eq!(
        sig.packet_header().packet_length(),
        PacketLength::Fixed(sig.write_len() as u32),
        "control: fresh v3 signature announces what it writes"
    );

    let sp = Subpacket::regular(SubpacketData::IssuerKeyId(KeyId::from([9; 8]))).unwrap();
    match sig.unhashed_subpacket_push(sp) {
        // refusing is fine: v3 signatures have no subpacket areas
        Err(_) => {}
        Ok(()) => {}
    }
    let mut body = Vec::new();
    sig.to_writer(&mut body).unwrap();
    assert_eq!(
        sig.packet_header().packet_length(),
        PacketLength::Fixed(body.len() as u32),
        "announced body length differs from the octets written"
    );

    // and the full packet parses back to an equal value
    let mut full = Vec::new();
    sig.to_writer_with_header(&mut full).unwrap();
    let back = pgp::packet::PacketParser::new(&full[..]).next().unwrap().unwrap();
    assert_eq!(pgp::packet::Packet::from(sig), back);
}
