//! C04 / audit-A4 (minor): `pgp::base64::Base64Reader` is a public `Read` implementation.
//! `Read::read` with an empty output buffer is legal and has to return `Ok(0)`, but
//! `Base64Reader::read` stores the first base64 character with `into[n] = ...` before it
//! compares `n` with `into.len()`: for any input that starts with a base64 character it panics
//! with "index out of bounds: the len is 0 but the index is 0" (src/base64/reader.rs:46).
//! Inside the crate the reader is only driven by `buffer_redux::BufReader::read_into_buf`, which
//! never passes an empty slice, so this needs a caller that reads with a zero length buffer.

use std::io::Read;

use pgp::base64::Base64Reader;

#[test]
fn empty_output_buffer_returns_ok_zero() {
    let mut r = Base64Reader::new(&b"AAAA\n=AAAA\n-----END PGP MESSAGE-----\n"[..]);
    let n = r.read(&mut []).expect("no error");
    assert_eq!(n, 0);
}
