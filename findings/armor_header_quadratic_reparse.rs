//! F71 (C19, known finding - not repaired): armor::reader::read_from_buf re-runs the header / footer parser over everything
//! accumulated so far each time another chunk of the source arrives: an unterminated armor header section costs O(n^2 / chunk).
//! (timing demonstration; release build: 1 MiB 0.23 s, 2 MiB 0.71 s, 4 MiB 3.3 s, 8 MiB 11.6 s; only the 1 GiB default limit stops it)
use std::io::{BufReader, Read};
use std::time::Instant;

#[test]
fn armor_header_time() {
    for mib in [1usize, 2, 4, 8] {
        let mut input = b"-----BEGIN PGP MESSAGE-----\n".to_vec();
        let line = b"Comment: aaaaaaaaaaaaaaaaaaaaaaaaaaaaaaaaaaaaaaaaaaaaaaaaaaaaaaaaaaaaaa\n";
        while input.len() < mib * 1024 * 1024 {
            input.extend_from_slice(line);
        }
        // never terminated
        let start = Instant::now();
        let mut d = pgp::armor::Dearmor::new(BufReader::new(&input[..]));
        let mut out = Vec::new();
        let res = d.read_to_end(&mut out);
        println!("{mib} MiB lines: {:?} ok={}", start.elapsed(), res.is_ok());

        let mut input = b"-----BEGIN PGP MESSAGE-----\nComment: ".to_vec();
        input.resize(mib * 1024 * 1024, b'a');
        let start = Instant::now();
        let mut d = pgp::armor::Dearmor::new(BufReader::new(&input[..]));
        let mut out = Vec::new();
        let res = d.read_to_end(&mut out);
        println!("{mib} MiB one line: {:?} ok={}", start.elapsed(), res.is_ok());
    }
}
