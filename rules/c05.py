"""C05 Wire fidelity (DESIGN §5 C05)."""
import os, re, collections
import core
import serlen
from rules import errs
from rules.tables import s2k_usage_tables, int_to_variant_table, variant_to_int_table
from rules.common import (rdom, call_blocks, ok_exit_blocks, site, arm_context, enum_switch_info, edge_variants, single_defs, resolve_value)
from core import guard_switches, must_pass, fmt_path, has_origin

HERE = os.path.dirname(os.path.abspath(__file__))

EXPLANATION = ("Decides structural clauses of C05, not value-level round trips: for every Serialize impl (and the versioned inherent "
               "to_writer/write_len pairs) the announced length is the same guarded multiset of symbolic terms (fixed octets, nested "
               "write_len / write_len_with_header per type, container lengths per field, sums over collections) as the bytes written, "
               "variant by variant — differences that involve value-dependent conditions are reported as undecided, impls that stage "
               "bytes in buffers as unanalysed, never as passing; write_len_with_header derives the header length from the current body "
               "length; public mutators of the unhashed area adjust the stored length by the subpacket's write_len on insert and remove "
               "alike; the S2K-usage and packet-tag code tables are mutually inverse and equal the RFC tables; opaque variants "
               "(unknown-version PKESK / SKESK) are written with the number of fixed octets they were read with; every tag the packet "
               "serializer can emit has a parsing arm. Not decided: MPI normalisation, canonical re-encoding equality."
               ' Also: every `&mut self` mutator of a packet type refreshes the stored header length (S05-9), serialiser / length query / parser test the key version at the same places for the v6-only length octets (S05-10), and (shared with C17) the length encoders/decoders are inverse partitions.')
ASSUMPTIONS = ["length axioms are taken from the code itself (constant-size types: their own consistent write_len; [u8; N] fields: the ADT definition)"]


def run(ctx):
    P = 'C05'
    r_len(ctx, P)
    header_derivation(ctx, P)
    sum_type_header_once(ctx, P)
    mutators(ctx, P)
    header_freshness(ctx, P)
    version_conditional_fields(ctx, P)
    cumulative_count_check_agrees(ctx, P)
    mpi_padding_order(ctx, P)
    raw_mpi_only_from_parsed_data(ctx, P)
    dropped_prefix_octet_is_compared(ctx, P)
    unprotected_checksum_by_version(ctx, P)
    unprotected_checksum_on_every_ok_path(ctx, P)
    v2_judged_as_v3(ctx, P)
    sec1_points_have_the_uncompressed_length(ctx, P)
    declared_key_material_fully_consumed(ctx, P)
    mpi_writer_refuses_what_the_reader_refuses(ctx, P)
    mpi_constructors_normalise(ctx, P)
    from rules import tables as _t
    _t.revocation_class_decoded_exactly(ctx, P)
    s2k_specifier_length_agrees(ctx, P)
    stored_length_encoding(ctx, P)
    stored_length_checked_against_data(ctx, P)
    s2k_usage_tables(ctx, P)
    tag_tables(ctx, P)
    from rules.tables import rfc_id_tables
    rfc_id_tables(ctx, P)
    from rules.tables import lossless_bool_subpackets
    lossless_bool_subpackets(ctx, P)
    from rules.tables import bitfield_parse_total
    bitfield_parse_total(ctx, P)
    remembered_length_gate(ctx, P)
    declared_total_reduced_by_prefix(ctx, P)
    opaque_layout(ctx, P)
    version_named_dispatch(ctx, P)
    incremental_header_adjustments(ctx, P)
    image_header_length_formula(ctx, P)
    from rules import casts
    casts.r_cast(ctx, P, only=casts.SERIALISERS, floor=12)
    dispatch(ctx, P)
    # packet / subpacket length encoders and decoders are mutually inverse partitions (shared with C17)
    from rules import c17
    c17.s17_1(ctx, P)


# ---------------------------------------------------------------------------------------------------------

def serialize_pairs(f):
    pairs = collections.defaultdict(dict)
    for p, r in f.bodies.items():
        if r.get('impl_trait', '').endswith('ser::Serialize') and r.get('name') in ('to_writer', 'write_len') and not r.get('derived'):
            pairs[r['impl_self']][r['name']] = p
    # inherent versioned pairs
    for p, r in f.bodies.items():
        if r.get('kind') == 'AssocFn' and not r.get('impl_trait') and r.get('name') in ('to_writer', 'write_len') and '::tests::' not in p:
            pairs['inherent ' + p.rsplit('::', 1)[0]][r['name']] = p
    return {k: v for k, v in pairs.items() if len(v) == 2}


def r_len(ctx, P, only=None, floors=(70, 55)):
    """only: regex on the implementing type; verdicts are reported for matching pairs only (axioms still come from all pairs)."""
    f = ctx.f
    rev = errs.load_reviewed(os.path.join(HERE, 'reviewed', 'rlen_unanalysed.txt'))
    pairs = serialize_pairs(f)
    sides = {}
    for k, v in sorted(pairs.items()):
        ctx.functions.add(v['to_writer'])
        ctx.functions.add(v['write_len'])
        sides[k] = (serlen.analyse_writer(f, core.B(f.bodies[v['to_writer']])), serlen.analyse_len(f, core.B(f.bodies[v['write_len']])))
    const_types = {}
    for k, (w, l) in sides.items():
        if l.terms and all(t[0] == 'const' and not g[1] and not g[2] and not g[0] for g, t in l.terms) and not l.unanalysed \
                and all(t[0] == 'const' for g, t in w.terms) and not w.unanalysed:
            # a constant-size type: its own pair must agree before it is used as an axiom
            if sum(t[1] for g, t in l.terms) == sum(t[1] for g, t in w.terms if not g[1]):
                const_types[serlen.short_ty(k)] = sum(t[1] for g, t in l.terms)
    af = serlen.array_fields(f)
    analysed, unan, und = [], [], []
    for k, (w, l) in sorted(sides.items()):
        serlen.normalise(w, const_types, af)
        serlen.normalise(l, const_types, af)
        d, u = serlen.compare(w, l)
        unk = serlen.has_unknown(w) + serlen.has_unknown(l)
        if only and not re.search(only, k):
            continue
        key = '%s:S05-1:R-len:%s' % (P, k)
        if (unk or w.unanalysed or l.unanalysed) and not d:
            reason = (w.unanalysed + l.unanalysed + [str(x) for x in unk])[:3]
            unan.append(dict(impl=k, why=reason, reviewed=rev.get(k), arms_undecided=len(u)))
            continue
        if d:
            if k in rev:
                unan.append(dict(impl=k, why=[str(x) for x in d][:2], reviewed=rev[k]))
                continue
            fixed = fixed_size_foreign_encoding(f, k, l)
            if fixed is not None:
                if fixed[0] == fixed[1]:
                    analysed.append(k)
                    ctx.ok(key, 'R-len', 'write_len of %s is the constant %d and its parser reads exactly that many octets with read_arr::<N> (the writer emits fixed-size encodings of dependency types)' % (k, fixed[0]),
                           function=pairs[k]['write_len'], feature='parser-constant')
                    continue
                ctx.violation(key, 'R-len', 'announced constant length of %s differs from what its parser reads' % k, function=pairs[k]['write_len'],
                              missing='write_len = %d, parser reads %d octets' % fixed)
                continue
            ctx.violation(key, 'R-len', 'announced length of %s differs from the bytes it writes' % k, function=pairs[k]['write_len'],
                          missing='; '.join('%s arm: writer %s vs announced %s (%s)' % (m['arm'], m['writer'], m['announced'], m['kind']) for m in d[:4]),
                          table=d[:6])
            continue
        if u:
            und.append(dict(impl=k, why=[str(x) for x in u][:2]))
            continue
        analysed.append(k)
        ctx.ok(key, 'R-len', 'write_len of %s is the same guarded sum of terms as the bytes to_writer emits' % k, function=pairs[k]['write_len'],
               count=len(w.terms))
    # fallback for the pairs whose conditional fixed octets the term comparison cannot pair up: DEPENDENCE agreement.  The fields of
    # `self` that the writer branches on must be the fields the announced length branches on, and vice versa - a length that
    # ignores a field the writer branches on (or the other way round) is wrong for some value of that field.
    for rec in und:
        k = rec['impl']
        if only and not re.search(only, k):
            continue
        if k in rev:
            continue
        T = serlen.short_ty(k).split('<')[0].split('::')[-1]
        wb, lb = ctx.wrap(f.bodies[pairs[k]['to_writer']]), ctx.wrap(f.bodies[pairs[k]['write_len']])
        def self_fields(b, ops):
            out = set()
            for og in ops:
                for tok in og:
                    m = re.match(r'field:%s(?:::\w+)?\.(\w+)$' % re.escape(T), tok)
                    if m:
                        out.add(m.group(1))
            return out
        # conditions only: which fields DECIDE how many octets are written / announced (not the fields that are merely written)
        def decisions(b):
            out = []
            for i, _ in b.switches():
                info = enum_switch_info(b, i)
                if info is not None and info[0].split('::')[-1] in ('Result', 'ControlFlow'):
                    continue        # `?` on a write result: error propagation, not a layout decision
                out.append(b.switch_origins(i))
            return out
        wops, lops = decisions(wb), decisions(lb)
        wf, lf = self_fields(wb, wops), self_fields(lb, lops)
        # fields the writer only passes on verbatim to nested writers show up in the length through their own write_len(): both sides see them
        ctx.check('%s:S05-1:R-len-deps:%s' % (P, k), 'R-sib', 'the announced length of %s depends on the same fields of the value as the octets its writer emits' % k,
                  wf == lf, function=pairs[k]['write_len'], table=dict(writer=sorted(wf), announced=sorted(lf)),
                  missing=None if wf == lf else 'writer depends on %s, announced length on %s' % (sorted(wf - lf) or '-', sorted(lf - wf) or '-'))
    ctx.floor(P + ':S05-1:floor:pairs', 'to_writer/write_len pairs found', len(pairs), floors[0])
    ctx.floor(P + ':S05-1:floor:analysed', 'pairs fully analysed and equal', len(analysed), floors[1])
    ctx.extra = dict(getattr(ctx, 'extra', {}), rlen_pairs=len(pairs), rlen_equal=len(analysed), rlen_unanalysed=unan, rlen_undecided=und,
                     rlen_axioms=dict(constant_size_types=const_types, array_fields=len(af)))


def fixed_size_foreign_encoding(f, k, l):
    """For a type whose write_len is one unconditional constant and whose `try_from_reader` consists of read_arr::<N> calls only:
    (announced constant, octets the parser reads).  None if the shape does not apply."""
    if l.unanalysed or not l.terms or not all(t[0] == 'const' and not g[0] and not g[1] and not g[2] for g, t in l.terms):
        return None
    const = sum(t[1] for g, t in l.terms)
    body = f.bodies.get(k + '::try_from_reader')
    if body is None:
        return None
    b = core.B(body)
    sizes = []
    for i, t in b.calls(r'BufReadParsing::'):
        m = re.search(r'read_arr(?:_boxed)?::<(\d+)>$', t['f'].get('full', ''))
        if not m:
            return None      # the parser reads something that is not a fixed array
        sizes.append(int(m.group(1)))
    if not sizes or len(b.returns()) == 0:
        return None
    # every read is on the straight path (no loop): each read_arr call block is executed at most once
    for i, t in b.calls(r'BufReadParsing::'):
        if i in b.reach_from([t['t']]):
            return None
    return (const, sum(sizes))


def header_derivation(ctx, P):
    b = ctx.body('packet::packet_sum::PacketTrait::write_len_with_header')
    if b is None:
        return
    hl = b.calls(r'PacketHeaderVersion::header_len$')
    ok = bool(hl) and all(has_origin(b.operand_origins(t['args'][1]), r'call:ser::Serialize::write_len$') for i, t in hl)
    stored = b.calls(r'ser::Serialize::write_len$', pred=lambda i, t: 'PacketHeader' in t['f'].get('selfty', ''))
    dom = b.dominators()
    stored_ok = all(any(adt == 'Option' and vs == ['None'] for adt, vs in arm_context(b, i, dom)) for i, t in stored)
    ctx.check(P + ':S05-2:header-derived', 'origin',
              'write_len_with_header derives the header length from the current body length (header_len(write_len())); the stored header is used only for indeterminate lengths',
              ok and stored_ok, function=b.path, missing=None if ok and stored_ok else 'the length of the stored (possibly stale) header is added')
    b2 = ctx.body('packet::packet_sum::PacketTrait::to_writer_with_header')
    if b2 is not None:
        fp = b2.calls(r'PacketHeader::from_parts$')
        ok2 = bool(fp) and all(has_origin(b2.operand_origins(t['args'][2]), r'call:ser::Serialize::write_len$') for i, t in fp)
        ctx.check(P + ':S05-2:writer-rederives-header', 'origin', 'to_writer_with_header builds the header from Fixed(write_len())', ok2, function=b2.path)
        # the header as it was read is written back ONLY for an indeterminate length: a packet read from partial-body chunks holds the
        # complete body, so its first-chunk Partial header must not be reused
        dom2 = b2.dominators()
        stale = []
        for i, t in b2.calls(r'ser::Serialize::to_writer$'):
            if 'PacketHeader' not in (t['f'].get('selfty') or '') + (t['f'].get('res') or ''):
                continue
            og = b2.operand_origins(t['args'][0])
            if has_origin(og, r'call:.*PacketHeader::from_parts$'):
                continue
            ac = arm_context(b2, i, dom2)
            none_arm = any(a == 'Option' and vs == ['None'] for a, vs in ac) or any(a == 'PacketLength' and vs == ['Indeterminate'] for a, vs in ac)
            if not none_arm:
                stale.append(i)
        ctx.check(P + ':S05-2:stored-header-only-for-indeterminate', 'R-dom', 'to_writer_with_header writes the stored header back only when its length is indeterminate (maybe_len() == None)',
                  not stale and bool(fp), function=b2.path, site=site(b2, stale[0]) if stale else None)
    maybe_len_table(ctx, P)


def maybe_len_table(ctx, P):
    """The two rules above read `maybe_len() == None` as "the length is indeterminate".  That is a fact about PacketLength::maybe_len:
    it answers None for `Indeterminate` and for nothing else (a `Partial` first-chunk length must get Some, or the stored partial header
    of a packet that was read from chunks is written back in front of the whole body)."""
    b = ctx.body('types::packet::PacketLength::maybe_len')
    if b is None:
        ctx.missing(P + ':S05-2:maybe-len-table', 'PacketLength::maybe_len not found')
        return
    table = {}
    for i, t in b.switches():
        info = enum_switch_info(b, i)
        if not info or not info[0].endswith('PacketLength'):
            continue
        for j, _ in b.succ(i):
            vs = edge_variants(b, i, j) or []
            reach = b.reach_from([j], removed=frozenset([i]))
            kinds = set()
            for x in reach:
                for st in b.blocks[x]['s']:
                    if st['d']['l'] == 0 and not st['d']['pr'] and st['r']['k'] == 'agg' and st['r'].get('v') in ('None', 'Some'):
                        kinds.add(st['r']['v'])
            for v in vs:
                table[v] = sorted(kinds)
    none_for = sorted(v for v, k in table.items() if 'None' in k)
    ctx.check(P + ':S05-2:maybe-len-table', 'R-table', 'PacketLength::maybe_len is None exactly for Indeterminate (so "no length" never means a partial first chunk)',
              none_for == ['Indeterminate'] and len(table) >= 3, function=b.path, table=table,
              missing=None if none_for == ['Indeterminate'] else 'maybe_len answers None for %s: the header of such a packet is written back as it was read, in front of the complete body' % none_for)


def sum_type_header_once(ctx, P):
    """`Packet` (the sum of all packet types) serialises each variant WITH its header already (every arm of its Serialize impl calls
    the variant's to_writer_with_header / write_len_with_header).  The provided PacketTrait methods would prepend a second header
    computed over that; Packet therefore has to override both with plain delegation."""
    sb = ctx.body('<packet::packet_sum::Packet as ser::Serialize>::to_writer')
    if sb is None:
        return
    arms = sb.calls(r'PacketTrait::to_writer_with_header$')
    with_header = len(arms) >= 15
    rw = ctx.f.body('<packet::packet_sum::Packet as packet::packet_sum::PacketTrait>::to_writer_with_header')
    rl = ctx.f.body('<packet::packet_sum::Packet as packet::packet_sum::PacketTrait>::write_len_with_header')
    ov_w = ctx.wrap(rw) if rw is not None else None
    ov_l = ctx.wrap(rl) if rl is not None else None
    ok = with_header and ov_w is not None and ov_l is not None \
        and not ov_w.calls(r'PacketHeader::from_parts$|PacketHeader::to_writer$') and bool(ov_w.calls(r'ser::Serialize::to_writer$')) \
        and bool(ov_l.calls(r'ser::Serialize::write_len$')) and not ov_l.calls(r'header_len$')
    ctx.check(P + ':S05-2:sum-type-header-once', 'R-sib', 'Packet::to_writer_with_header / write_len_with_header delegate to its Serialize impl (which already frames every variant) instead of the provided methods that add a header',
              ok, function='<packet::packet_sum::Packet as packet::packet_sum::PacketTrait>',
              missing=None if ok else 'Packet uses the provided PacketTrait::to_writer_with_header: a UserId packet is written as [cd 05 cd 03 ...], header twice')


def mutators(ctx, P):
    res = {}
    for nm in ('unhashed_subpacket_insert', 'unhashed_subpacket_remove'):
        b = ctx.body('packet::signature::types::Signature::' + nm)
        if b is None:
            continue
        adj = []
        for i, blk in enumerate(b.blocks):
            if blk['c']:
                continue
            for s in blk['s']:
                r = s['r']
                if r['k'] == 'bin' and r['op'] in ('AddWithOverflow', 'SubWithOverflow', 'Add', 'Sub') and r['o'][0].get('pr') == ['*']:
                    og0 = b.origins()[r['o'][0]['l']]
                    if has_origin(og0, r'call:.*PacketHeader::packet_length_mut$') or has_origin(og0, r'field:PacketLength::Fixed\.0$'):
                        adj.append((i, r['op'], b.operand_origins(r['o'][1])))
        good = bool(adj) and all(has_origin(og, r'callty:ser::Serialize::write_len@.*Subpacket$') and not has_origin(og, r'call:.*SubpacketLength::len$|field:Subpacket\.len$') for _, _, og in adj)
        res[nm] = [op for _, op, _ in adj]
        ctx.check('%s:S05-3:mutator:%s' % (P, nm), 'origin', '%s adjusts the stored packet length by exactly the subpacket\'s write_len()' % nm, good, function=b.path,
                  site=site(b, adj[0][0]) if adj else None)
        # the vector mutation and the length adjustment are on the same paths
        vm = call_blocks(b, r'Vec::<.*>::(insert|remove)$')
        oks = ok_exit_blocks(b)
        ok1, _ = must_pass(b, oks, vm) if vm else (False, None)
        ok2, _ = must_pass(b, oks, [i for i, _, _ in adj]) if adj else (False, None)
        ctx.check('%s:S05-3:paired:%s' % (P, nm), 'R-pair', 'every successful %s both mutates the vector and adjusts the length' % nm, ok1 and ok2, function=b.path)


FIXED_WIDTH = re.compile(r'^(u8|u16|u32|u64|i8|i16|i32|i64|bool|\[u8; \d+\])$')
LENGTH_INVARIANT = {   # reviewed: mutators that cannot change the serialised length
    'packet::signature::types::Signature::unhashed_subpackets_sort_by': 'permutes the unhashed subpackets; the multiset of subpackets (hence the sum of their lengths) is unchanged',
}


def _self_mutations(b):
    """[(block, field)] for direct stores to / mutable borrows of a field of `*self` (local 1)."""
    out = []
    for i, blk in enumerate(b.blocks):
        if blk['c']:
            continue
        for st in blk['s']:
            d = st['d']
            if d['l'] == 1 and len(d['pr']) > 1 and d['pr'][0] == '*':
                out.append((i, d['pr'][1]))
            r_ = st['r']
            if r_['k'] == 'ref' and r_.get('m') == 'mut' and r_['p']['l'] == 1 and len(r_['p']['pr']) > 1 and r_['p']['pr'][0] == '*':
                out.append((i, r_['p']['pr'][1]))
    return out


WRITES = re.compile(r'(write_u8|write_u16|write_u32|write_all|to_writer|to_writer_with_header|write_header|io::Write::write)$')


def remembered_length_gate(ctx, P):
    """S05-15: a serialiser that writes NOTHING when a remembered length field F of its type equals a constant (kept "to fully
    round trip" a zero-octet encoding) makes F part of the value: every public `&mut self` method that changes another field must also
    set F (directly or through a method of the type that does), otherwise content set through the public API is never written.
    Gate fields are discovered from the `to_writer` bodies (a branch on exactly one field of the type against a constant with an edge
    that returns without any write and that every write-free path has to take)."""
    gates = []
    for p, r in sorted(ctx.f.bodies.items()):
        m = re.match(r'^<(.*) as ser::Serialize>::to_writer$', p)
        if not m:
            continue
        tpath = m.group(1)
        T = tpath.split('::')[-1]
        b = core.B(r)
        writes = set(i for i, t in b.calls() if WRITES.search(t['f'].get('fn', '') or ''))
        rets = set(b.returns())
        # a branch that REFUSES to write (error exit) is not a gate: only a successful return without any write counts
        from rules.common import err_exit_blocks as _eeb
        writes |= set(_eeb(b))
        for i, t in b.switches():
            og = b.switch_origins(i)
            flds = set(x for x in og if x.startswith('field:' + T + '.'))
            if len(flds) != 1 or not any(x.startswith('const:') for x in og):
                continue
            silent = any(b.reach_from([j], removed=frozenset(writes)) & rets for j, _ in b.succ(i))
            only_here = not (b.reach_from([0], removed=frozenset(writes | {i})) & rets)
            if silent and only_here:
                gates.append((tpath, T, next(iter(flds))[6:], p, site(b, i)))
                break
    ctx.floor(P + ':S05-15:floor', 'serialisers with a remembered-length gate', len(gates), 1)
    for tpath, T, fld, wp, wsite in gates:
        ctx.functions.add(wp)
        setters_of_f = set()
        methods = {}
        for p, r in ctx.f.bodies.items():
            if not p.startswith(tpath + '::') or r['kind'] != 'AssocFn' or r['nargs'] < 1:
                continue
            if not (r['locals'][1]['ty'] or '').startswith('&mut'):
                continue
            b = ctx.wrap(r)
            muts = _self_mutations(b)
            methods[p] = (b, muts)
            if any(f_ == '.' + fld for _, f_ in muts):
                setters_of_f.add(p)
        bad = []
        n = 0
        for p, (b, muts) in sorted(methods.items()):
            others = [f_ for _, f_ in muts if f_ != '.' + fld]
            if not others or b.r.get('vis') != 'pub':
                ctx.functions.discard(p) if p not in setters_of_f else None
                continue
            n += 1
            sets = p in setters_of_f or any(ctx.f.body(t['f'].get('fn', '')) is not None and t['f'].get('fn') in setters_of_f for _, t in b.calls())
            if not sets:
                bad.append(p.split('::')[-1])
        ctx.check('%s:S05-15:gate-set-by-mutators:%s' % (P, T), 'R-who',
                  '%s::to_writer writes nothing while `%s` has its gate value; each of the %d public mutators of another field also sets it' % (T, fld.split('.')[-1], n),
                  not bad and n > 0, function=wp, site=wsite,
                  missing=None if not bad else 'public mutators that change the content but leave `%s` alone: %s - what they set is never serialised when the value came from an empty encoding'
                  % (fld, ', '.join(bad)))


FIELD_READS = re.compile(r'BufReadParsing::(read_u8|read_be_u16|read_be_u32|read_le_u16|read_arr|read_arr_boxed|take_bytes|read_take|rest)$|Mpi::try_from_reader$')


def declared_total_reduced_by_prefix(ctx, P):
    """S05-16: a parser that is handed the declared length of a WHOLE field (`len: Option<usize>`, the v6 public-key octet count)
    and reads that many octets as the opaque remainder may do so only if it has not already read a part of the field; after a prefix
    (the curve OID and its length octet) the remainder is the total minus the prefix.  Otherwise the opaque form of a value that the
    v4 layout accepts can never be read in the v6 layout.  Sites = `take_bytes` / `read_take` whose size operand IS the length
    parameter (no arithmetic on the way)."""
    n = 0
    for p, r in sorted(ctx.f.bodies.items()):
        if '::tests::' in p or r.get('derived'):
            continue
        b = core.B(r)
        cs = b.calls(r'BufReadParsing::(take_bytes|read_take)$')
        if not cs:
            continue
        defs = single_defs(b)
        dom = None
        for i, t in cs:
            if len(t['args']) < 2:
                continue
            k, v = resolve_value(b, t['args'][1], defs)
            if k != 'place' or 'l' not in v or not (1 <= v['l'] <= r['nargs']):
                continue
            if r['locals'][v['l']]['ty'] not in ('usize', 'std::option::Option<usize>', 'u32', 'std::option::Option<u32>'):
                continue
            n += 1
            ctx.functions.add(p)
            dom = dom or b.dominators()
            prior = [j for j, tt in b.calls() if FIELD_READS.search(tt['f'].get('fn', '') or '') and j in dom.get(i, ()) and j != i]
            ctx.check('%s:S05-16:total-minus-prefix:%s#%d' % (P, p, [x for x, _ in cs].index(i)), 'R-dom',
                      '%s reads the declared total length of its field only when nothing of the field was read before' % p.split('::')[-2 if p.endswith('try_from_reader') else -1],
                      not prior, function=p, site=site(b, i),
                      missing=None if not prior else 'the size is the caller\'s total for the whole field, but %d read(s) of the same reader (first at %s) precede it on every path: the read overshoots by the octets already taken'
                      % (len(prior), site(b, prior[0])))
    ctx.floor(P + ':S05-16:floor', 'reads sized directly by a declared-total parameter', n, 2)


def header_freshness(ctx, P):
    """Every packet type keeps the header it was created/parsed with in a `packet_header` field, which `packet_header()` announces
    and which derived equality compares.  A `&mut self` method that changes another field whose encoding is not of fixed width must
    bring the stored length up to date on every path on which it succeeds (C05: `also after the object was modified through the
    public API`)."""
    f = ctx.f
    ser = set(r['impl_self'] for r in f.bodies.values() if r.get('impl_trait', '').endswith('ser::Serialize') and r.get('name') == 'write_len')
    hdr = {}
    for ap, a in f.adts.items():
        for v in a['vars']:
            if any(fl['n'] == 'packet_header' for fl in v['fields']) and ap in ser:
                hdr[ap] = {fl['n']: fl['ty'] for fl in v['fields']}
    ctx.floor(P + ':S05-9:floor:types', 'serialisable packet types that store their packet header', len(hdr), 15)
    # which &mut self methods refresh the header themselves
    cand = {}
    for p, r in sorted(f.bodies.items()):
        if r.get('derived') or '::tests::' in p or r['kind'] == 'Closure' or r['nargs'] < 1 or r.get('impl_trait', '').endswith('ops::Drop'):
            continue
        m = re.match(r"&(?:'\w+ )?mut ([\w:]+)", r['locals'][1]['ty'])
        if not m or m.group(1) not in hdr:
            continue
        cand[p] = (m.group(1), core.B(r))
    def refresh_blocks(b, adt, depth=0):
        out = [i for i, fl in _self_mutations(b) if fl.endswith('.packet_header')]
        for i, t in b.calls():
            res = t['f'].get('res') or t['f'].get('fn')
            if res in cand and res != b.path and depth < 2 and t['args'] and has_origin(b.operand_origins(t['args'][0]), r'param:1$'):
                cb = cand[res][1]
                inner = refresh_blocks(cb, adt, depth + 1)
                if inner and must_pass(cb, ok_exit_blocks(cb) or cb.returns(), inner)[0]:
                    out.append(i)
        return out
    n = 0
    for p, (adt, b) in sorted(cand.items()):
        muts = [(i, fl) for i, fl in _self_mutations(b) if not fl.endswith('.packet_header')]
        muts = [(i, fl) for i, fl in muts if not FIXED_WIDTH.match(hdr[adt].get(fl.split('.')[-1], '?'))]
        if not muts:
            ctx.functions.discard(p)
            continue
        n += 1
        key = '%s:S05-9:header-fresh:%s' % (P, p)
        desc = '%s changes %s and brings the stored packet length up to date on every successful path' % (p.split('::')[-1], sorted(set(fl.split('.')[-1] for _, fl in muts)))
        if p in LENGTH_INVARIANT:
            ctx.ok(key, 'R-pair', desc + ' — reviewed length-invariant: ' + LENGTH_INVARIANT[p], function=p)
            continue
        rb = refresh_blocks(b, adt)
        oks = ok_exit_blocks(b) or b.returns()
        bad = None
        for i, fl in muts:
            # from the mutation, an Ok exit must not be reachable without refreshing (a refresh that precedes the mutation in the same block chain counts only if it dominates the exit too)
            w = b.find_path(i, set(oks), removed=frozenset(x for x in rb if x != i))
            if w is not None and i not in rb:
                ok_before, _ = must_pass(b, [i], rb) if rb else (False, None)
                if not ok_before:
                    bad = (fl, w)
                    break
        if bad is None:
            ctx.ok(key, 'R-pair', desc, function=p, refresh=[site(b, x) for x in rb])
        else:
            ctx.violation(key, 'R-pair', desc, function=p, site=site(b, bad[1][0]), witness=fmt_path(b, bad[1]),
                          missing='the stored packet_header keeps the old length after %s changed: packet_header() announces a length that is not what is written, and the object no longer equals its re-parsed copy' % bad[0].split('.')[-1])
    ctx.floor(P + ':S05-9:floor:mutators', '&mut self methods of packet types that change a variable-width field', n, 6)


def version_conditional_fields(ctx, P):
    """RFC 9580 §5.5.3: the one-octet length of the S2K specifier (and the cumulative length octet) exist in v6 secret key packets
    only.  The parser reads them under `key_ver == V6`; the serialiser must write them under the same condition in every arm, or the
    library cannot read back what it wrote."""
    wb = ctx.body('types::params::encrypted_secret::EncryptedSecretParams::to_writer')
    pb = ctx.body('types::params::secret::parse_secret_fields')
    if wb is None or pb is None:
        return
    V6 = r'agg:types::packet::KeyVersion::V6$'
    wsites = [i for i, t in wb.calls(r'StringToKey::len$')]
    bad = [i for i in wsites if not [g for g, _ in guard_switches(wb, [i], [r'param:3$', V6])]]
    ctx.check(P + ':S05-10:s2k-length-octet:writer', 'R-sib', 'EncryptedSecretParams::to_writer writes the S2K specifier length octet only under `version == V6` (both in the AEAD and the CFB arm)',
              len(wsites) >= 2 and not bad, function=wb.path, site=site(wb, bad[0]) if bad else None)
    psites = [i for i, t in pb.calls(r'StringToKey::len$')]
    # the parser compares s2k.len() with the octet it read only if it read one: that read is controlled by key_ver == V6
    pg = [i for i, t in pb.switches() if has_origin(pb.switch_origins(i), r'param:1$') and has_origin(pb.switch_origins(i), V6)]
    ctx.check(P + ':S05-10:s2k-length-octet:parser', 'R-sib', 'parse_secret_fields reads the cumulative length octet and the two S2K specifier length octets under `key_ver == V6`',
              len(psites) >= 2 and len(pg) >= 3, function=pb.path, count=len(pg))
    lb = ctx.body('types::params::encrypted_secret::EncryptedSecretParams::write_len')
    if lb is not None:
        lg = [i for i, t in lb.switches() if has_origin(lb.switch_origins(i), r'param:2$') and has_origin(lb.switch_origins(i), V6)]
        wg = [i for i, t in wb.switches() if has_origin(wb.switch_origins(i), r'param:3$') and has_origin(wb.switch_origins(i), V6)]
        ctx.check(P + ':S05-10:version-tests-agree', 'R-sib', 'serialiser, length query and parser test the key version at the same three places (cumulative length, AEAD arm, CFB arm)',
                  len(lg) == len(wg) == len(pg) == 3, function=lb.path, table=dict(write_len=len(lg), to_writer=len(wg), parser=len(pg)))


def cumulative_count_check_agrees(ctx, P):
    """If the parser of the protection parameters checks the v6 cumulative count octet against a recomputed sum of field sizes, the
    number of ONE-OCTET fields it adds per protection variant must be the number of one-octet fields it has just read for that
    variant in a v6 packet (cipher, AEAD mode, S2K specifier length) - otherwise it refuses what the serialiser writes.  (No check at
    all - today's tree, the octet is only refused when 0 - is consistent by default.)"""
    pb = ctx.body('types::params::secret::parse_secret_fields')
    if pb is None:
        return
    dom = pb.dominators()
    V6 = r'agg:types::packet::KeyVersion::V6$'
    v6sw = [i for i, t in pb.switches() if has_origin(pb.switch_origins(i), r'param:1$') and has_origin(pb.switch_origins(i), V6)]
    reads = [(i, t) for i, t in pb.calls(r'BufReadParsing::read_u8$')]
    guarded = sorted((pb.line(i), i) for i, t in reads if any(g in dom.get(i, ()) for g in v6sw))
    if not guarded:
        ctx.missing(P + ':S05-10:count-octet:anchor', 'no v6-guarded one-octet read in parse_secret_fields')
        return
    cum = guarded[0][1]
    tok = r'cs:.*BufReadParsing::read_u8#%d$' % cum
    helpers = set()
    checks = []
    for i, t in pb.switches():
        og = pb.switch_origins(i)
        if not has_origin(og, tok):
            continue
        hs = [x[5:] for x in og if x.startswith('call:types::params::secret::') and ctx.f.body(x[5:]) is not None and x[5:] != pb.path]
        if (has_origin(og, r'op:Add') and has_origin(og, r'call:.*::(len|write_len)$')) or hs:
            checks.append(i)
            helpers.update(hs)
    if not checks:
        ctx.ok(P + ':S05-10:count-octet-check-agrees', 'R-sib', 'the v6 cumulative count octet is not compared with a recomputed sum (only refused when 0): nothing to agree with', function=pb.path)
        return
    # one-octet reads per S2kUsage arm (v6-conditional ones included; the usage octet and the cumulative octet themselves are read before the match)
    per_usage = collections.Counter()
    for i, t in reads:
        for a, vs in arm_context(pb, i, dom):
            if a == 'S2kUsage' and len(vs) == 1:
                per_usage[vs[0]] += 1
    # one-octet constants per S2kParams arm in the recomputed sum
    per_params = collections.Counter()
    back = pb.can_reach(set(checks))
    bodies = [(pb, dom, back)]
    for h in sorted(helpers):
        hb = ctx.wrap(ctx.f.body(h))
        bodies.append((hb, hb.dominators(), None))
    for xb, xdom, xback in bodies:
        for i, blk in enumerate(xb.blocks):
            if blk['c'] or (xback is not None and i not in xback):
                continue
            arms = [vs for a, vs in arm_context(xb, i, xdom) if a == 'S2kParams']
            if not arms:
                continue
            for st in blk['s']:
                r_ = st['r']
                if r_['k'] == 'bin' and r_['op'].startswith('Add'):
                    for o in r_['o']:
                        if 'k' in o and isinstance(o['k'].get('v'), int):
                            for v in min(arms, key=len):
                                per_params[v] += o['k']['v']
    bad = {}
    for v in ('Aead', 'Cfb', 'MalleableCfb', 'LegacyCfb'):
        if v in per_params or per_usage.get(v):
            if per_params.get(v, 0) != per_usage.get(v, 0):
                bad[v] = (per_params.get(v, 0), per_usage.get(v, 0))
    ctx.check(P + ':S05-10:count-octet-check-agrees', 'R-sib', 'per protection variant, the recomputed size checked against the v6 cumulative count octet counts as many one-octet fields as were read',
              not bad, function=pb.path, site=site(pb, checks[0]), table=dict(in_check=dict(per_params), read=dict(per_usage)),
              missing=None if not bad else 'one-octet fields (in the check, read from the packet): %s - a packet the serialiser writes is refused' % bad)


def raw_mpi_only_from_parsed_data(ctx, P):
    """`Mpi::from_raw` keeps its octets as they are, leading zero octets included; written out, such an MPI announces a bit count that
    covers fewer octets than follow (248 bits, 32 octets) and cannot be read back.  It may only carry octets that were STORED from a
    parsed MPI (the opaque material of an unsupported curve); the octets of a fixed-width scalar (`to_bytes*()`, `as_bytes()`) go
    through the stripping constructor `Mpi::from_slice`, as its sibling arms do."""
    n = 0
    bad = []
    for p, r in sorted(ctx.f.bodies.items()):
        if '::tests::' in p or r.get('derived'):
            continue
        b = ctx.wrap(r)
        cs = b.calls(r'types::mpi::Mpi::from_raw$')
        if not cs:
            ctx.functions.discard(p)
            continue
        for i, t in cs:
            n += 1
            og = b.operand_origins(t['args'][0]) if t['args'] else set()
            scalar = [x for x in og if re.search(r'^call:.*::(to_bytes_rev|to_bytes|as_bytes|to_bytes_be|to_be_bytes)$', x)]
            if scalar:
                bad.append((p, site(b, i), scalar[0][5:]))
    ctx.check(P + ':S05-11:raw-mpi-only-from-parsed-data', 'R-who', 'Mpi::from_raw is never handed the octets of a fixed-width scalar (%d call sites)' % n,
              not bad and n >= 1, function=bad[0][0] if bad else 'types::mpi::Mpi::from_raw', site=bad[0][1] if bad else None,
              missing=None if not bad else '%s passes the result of %s to Mpi::from_raw: a scalar whose top octet is zero is written as an MPI that cannot be read back' % (bad[0][0], bad[0][2]))


def mpi_padding_order(ctx, P):
    """An MPI arrives big endian with its leading zero octets stripped.  Code that needs the fixed-width little-endian scalar has to
    restore the width FIRST (left-pad the big-endian form) and reverse afterwards; padding the already reversed octets puts the
    zeros at the wrong end and changes the value (and the re-encoded MPI)."""
    n = 0
    for p, r in sorted(ctx.f.bodies.items()):
        if '::tests::' in p or r['kind'] == 'Closure':
            continue
        b = ctx.wrap(r)
        pads = b.calls(r'plain_secret::pad_key$')
        if not pads:
            continue
        revs = call_blocks(b, r'Iterator::rev$|slice::<impl \[T\]>::reverse$|\[T\]::reverse$')
        if not revs:
            continue
        n += 1
        ctx.functions.add(p)
        bad = [i for i, t in pads if has_origin(b.operand_origins(t['args'][0]), r'call:.*Iterator::rev$')]
        ctx.check('%s:S05-11:pad-before-reverse:%s' % (P, p), 'R-seq', '%s restores the fixed width of the big-endian MPI before it reverses the octets' % p.split('::')[-1],
                  not bad, function=p, site=site(b, bad[0]) if bad else None,
                  missing=None if not bad else 'pad_key is applied to the reversed octets: a scalar whose most significant octet is zero is read back shifted by one octet')
    ctx.floor(P + ':S05-11:floor', 'functions that both pad and reverse MPI octets', n, 1)


VERSION_ARM_EXCEPTIONS = {
    # RFC 9580 5.4: "version 4 keys use a version 3 One-Pass Signature packet (there is no version 4 OPS)"
    ('OnePassSignature::v3', 'KeyVersion', 'V4'),
}
VERSION_DISPATCH_REQUIRED = [
    # (function, callee / variant, version enum, arm): the parse-side dispatches confirmed on the reference tree
    ('packet::signature::de::v3_parser', 'Signature::v2', 'SignatureVersion', 'V2'),
    ('packet::signature::de::v3_parser', 'Signature::v3', 'SignatureVersion', 'V3'),
    ('packet::public_key_parser::parse', 'public_key_parser::public_key_parser_v2_v3', 'KeyVersion', 'V2'),
    ('packet::public_key_parser::parse', 'public_key_parser::public_key_parser_v2_v3', 'KeyVersion', 'V3'),
    ('packet::public_key_parser::parse', 'public_key_parser::public_key_parser_v4_v6', 'KeyVersion', 'V4'),
    ('packet::public_key_parser::parse', 'public_key_parser::public_key_parser_v4_v6', 'KeyVersion', 'V6'),
    ('packet::secret_key_parser::parse', 'secret_key_parser::private_key_parser_v2_v3', 'KeyVersion', 'V2'),
    ('packet::secret_key_parser::parse', 'secret_key_parser::private_key_parser_v4_v6', 'KeyVersion', 'V6'),
    ('types::fingerprint::Fingerprint::new', 'Fingerprint::V4', 'KeyVersion', 'V4'),
    ('types::fingerprint::Fingerprint::new', 'Fingerprint::V6', 'KeyVersion', 'V6'),
]


def version_named_dispatch(ctx, P):
    """R-sib over the whole crate: a function or variant whose name carries version numbers (`v3`, `to_writer_v4_v6`, `Fingerprint::V6`)
    that is used inside an arm of a match on a `*Version` enum is used in an arm of one of ITS versions; and the parse-side dispatches
    of the reference tree are all still there (a parser that sends every version to one constructor turns a v2 object into a v3 one,
    so it no longer re-serialises to the bytes it was read from)."""
    seen = set()
    n = 0
    for p, r in sorted(ctx.f.bodies.items()):
        if r.get('derived'):
            continue
        b = ctx.wrap(r)
        items = []
        for i, t in b.calls(r'(::|_)v\d$'):
            fn = t['f']['fn']
            items.append((i, '::'.join(fn.split('::')[-2:]), re.findall(r'v(\d)', fn.split('::')[-1])))
        for i, k, s in b.stmts(lambda s: s['r']['k'] == 'agg' and s['r'].get('ak') == 'adt' and re.match(r'V\d$', s['r'].get('v') or '')):
            items.append((i, s['r']['adt'].split('::')[-1] + '::' + s['r']['v'], [s['r']['v'][1:]]))
        if not items:
            ctx.functions.discard(p)
            continue
        dom = b.dominators()
        for i, what, nums in items:
            for a, vs in arm_context(b, i, dom):
                if not (a.endswith('Version') and vs and all(re.match(r'V\d$', v) for v in vs)):
                    continue
                n += 1
                enum = a.split('::')[-1]
                ok = any(('V' + x) in vs for x in nums) or any((what, enum, v) in VERSION_ARM_EXCEPTIONS for v in vs)
                for v in vs:
                    if ('V' + v[1:]) in ['V' + x for x in nums]:
                        seen.add((p, what, enum, v))
                if not ok:
                    ctx.violation('%s:S05-12:version-arm:%s:%s' % (P, p, what), 'R-sib', 'a version-named function / variant is used in an arm of its own version',
                                  function=p, site=site(b, i), missing='%s used in the %s arm %s' % (what, enum, '|'.join(vs)))
    ctx.floor(P + ':S05-12:floor', 'version-named uses inside version arms', n, 30)
    missing = [x for x in VERSION_DISPATCH_REQUIRED if x not in seen]
    ctx.check(P + ':S05-12:parse-side-dispatch-complete', 'R-sib', 'every version dispatch of the parsers still selects the constructor of that version (reference table of %d dispatches)' % len(VERSION_DISPATCH_REQUIRED),
              not missing, missing=['%s: %s not used in the %s::%s arm' % x for x in missing] or None)


def incremental_header_adjustments(ctx, P):
    """A mutator that adjusts the stored packet length by the encoded size of the element it adds or removes is right only where
    the serialiser writes that element.  The signature serialiser dispatches on the version; a version writer that never reads the
    mutated field (v2/v3 signatures have no subpacket areas) writes nothing for it, so the mutator must refuse those versions —
    otherwise packet_header() announces octets that are never written."""
    import json
    writers = {p: r for p, r in ctx.f.bodies.items() if re.search(r'packet::signature::config::SignatureConfig::to_writer_v[\d_v]+$', p)}
    if len(writers) < 2:
        ctx.missing(P + ':S05-13:writers', 'version writers of SignatureConfig not found')
        return
    n = 0
    for p, r in sorted(ctx.f.bodies.items()):
        if not p.startswith('packet::signature::types::Signature::') or r['kind'] == 'Closure' or r.get('derived'):
            continue
        b = ctx.wrap(r)
        hdr = [i for i, t in b.calls(r'PacketHeader::packet_length_mut$')]
        if not hdr:
            ctx.functions.discard(p)
            continue
        for i, t in b.calls(r'Vec::<T, A>::(insert|remove|push|pop|truncate|clear|retain)$'):
            og = b.operand_origins(t['args'][0])
            flds = sorted(set(m.group(1) for x in og for m in [re.match(r'field:SignatureConfig\.(\w+)$', x)] if m))
            for fld in flds:
                n += 1
                blind = sorted(w.split('::')[-1] for w, wr in writers.items() if ('.%s"' % fld) not in json.dumps(wr['blocks']))
                gs = guard_switches(b, [i], [r'call:.*SignatureConfig::version$|call:.*Signature::version$|field:SignatureConfig\.version_specific$'])
                ok = (not blind) or (bool(gs) and must_pass(b, [i], [g for g, _ in gs])[0])
                ctx.check('%s:S05-13:adjusts-only-what-is-written:%s:%s' % (P, p, fld), 'R-sib',
                          '%s adjusts the stored packet length for a change of %s only for versions whose writer emits that field' % (p.split('::')[-1], fld),
                          ok, function=p, site=site(b, i), guards=[site(b, g) for g, _ in gs],
                          missing=None if ok else '%s never writes %s, and the mutator does not refuse that version' % (', '.join(blind), fld))
    ctx.floor(P + ':S05-13:floor', 'signature mutators that adjust the stored length incrementally', n, 2)


def _direct_bin_const(b, o, defs, ops, depth=0):
    """The constant operand of the arithmetic operation that directly defines operand `o` (through copies / casts / `.0` of a checked op)."""
    for _ in range(8):
        if 'l' not in o:
            return None
        d = defs.get(o['l'])
        if d is None or d[1].get('k') == 'call':
            if d is not None and re.search(r'TryInto::try_into$|TryFrom::try_from$|From::from$|Into::into$|Try::branch$', d[1]['f'].get('fn', '')) and d[1]['args']:
                o = d[1]['args'][0]
                continue
            return None
        r = d[1]['r']
        if r['k'] in ('use', 'cast'):
            o = r['o'][0]
            continue
        if r['k'] == 'bin' and r['op'].replace('WithOverflow', '') in ops:
            cs = [x['k'].get('v') for x in r['o'] if 'k' in x]
            return cs[0] if cs else None
        return None
    return None


def image_header_length_formula(ctx, P):
    """The image header of a user attribute starts with its own length (little endian).  Per variant, the constant the parser
    subtracts from that length to find the opaque data equals the constant the writer adds to the data length (RFC 9580 5.12.1: the
    length counts itself, the version octet and, for version 1, the format octet)."""
    rb = ctx.body('packet::user_attribute::ImageHeader::try_from_reader')
    wb = ctx.body('<packet::user_attribute::ImageHeader as ser::Serialize>::to_writer')
    if rb is None or wb is None:
        return
    rdefs, wdefs = single_defs(rb), single_defs(wb)
    read = {}
    for i, t in rb.calls(r'BufReadParsing::(take_bytes|read_take)$'):
        c = _direct_bin_const(rb, t['args'][1], rdefs, ('Sub',))
        reach = rb.reach_from([i])
        for j, k, s_ in rb.constructs(r'user_attribute::ImageHeader(V1)?$'):
            if j in reach and s_['r']['v'] == 'Unknown':
                read[s_['r']['adt'].split('::')[-1] + '::Unknown'] = c
    wdom = wb.dominators()
    written = {}
    for i, t in wb.calls(r'WriteBytesExt::write_u16$'):
        c = _direct_bin_const(wb, t['args'][1], wdefs, ('Add',))
        ac = [(a, vs) for a, vs in arm_context(wb, i, wdom) if a.startswith('ImageHeader')]
        if ac:
            a, vs = ac[-1]
            written[a + '::' + vs[0]] = c
    ctx.check(P + ':S05-14:image-header-length-formula', 'R-table', 'per opaque image-header variant, the constant subtracted by the parser equals the constant added by the writer',
              bool(read) and read == written and None not in read.values(), function=wb.path, table=dict(parser=read, writer=written),
              missing=None if read == written else 'parser %s, writer %s' % (read, written))
    # the smallest header an opaque variant is written with is its constant (empty data): a lower bound that the parser puts on the
    # announced length before it builds that variant must not lie above it, or the library cannot read what it writes
    from rules.common import direct_cmp_switches, is_call_to
    rdom_ = rb.dominators()
    bounds = {}
    for g, t in rb.switches():
        kind, v = resolve_value(rb, t['o'], rdefs)
        if kind == 'rv' and v['k'] == 'bin' and v['op'] in ('Ge', 'Gt', 'Lt', 'Le'):
            sides = [resolve_value(rb, o, rdefs) for o in v['o']]
            for a, c in ((0, 1), (1, 0)):
                if sides[c][0] == 'const' and isinstance(sides[c][1], int) and has_origin(rb.operand_origins(v['o'][a]), r'call:.*read_le_u16$'):
                    # normalise to "length >= B is required"
                    op = v['op'] if a == 0 else {'Ge': 'Le', 'Gt': 'Lt', 'Lt': 'Gt', 'Le': 'Ge'}[v['op']]
                    B = sides[c][1] + (1 if op in ('Gt', 'Le') else 0)
                    bounds[g] = B
    too_high = {}
    for j, k, s_ in rb.constructs(r'user_attribute::ImageHeader(V1)?$'):
        if s_['r']['v'] != 'Unknown':
            continue
        name = s_['r']['adt'].split('::')[-1] + '::Unknown'
        c = read.get(name)
        for g, B in bounds.items():
            if c is not None and g in rdom_.get(j, ()) and B > c:
                too_high[name] = (B, c)
    ctx.check(P + ':S05-14:image-header-lower-bound', 'R-table', 'the parser asks no opaque image-header variant for more octets than the writer emits for it with empty data',
              not too_high and bool(bounds), function=rb.path, table={k: dict(required=v[0], smallest_written=v[1]) for k, v in too_high.items()} or dict(bounds=sorted(bounds.values())),
              missing=None if not too_high else 'announced length must be >= %d, but %s with empty data is written with length %d: the library refuses what it wrote' % (list(too_high.values())[0][0], list(too_high)[0], list(too_high.values())[0][1]))
    # a variant whose writer emits a CONSTANT length (the JPEG header is written as the fixed prefix `10 00 01 01`) may only be
    # built from a header whose parsed length was compared with that constant: otherwise a longer header is accepted, its surplus
    # octets silently become image data and it is written back (and hashed) with another length octet
    sinks = [j for j, k, s_ in rb.constructs(r'user_attribute::ImageHeaderV1$', 'Jpeg')]
    const_len = None
    for cpath, c in ctx.f.consts.items():
        if cpath.endswith('user_attribute::JPEG_HEADER_PREFIX'):
            const_len = c
    rdom(ctx, P + ':S05-14:constant-length-variant-checked', rb, sinks, [r'call:.*read_le_u16$', r'const:16:'],
         'the JPEG image header (written with the constant length 16) is only built from a parsed header length that was compared with 16')


def stored_length_encoding(ctx, P):
    """Objects that keep the length encoding they were read with (Subpacket.len, UserAttribute.subpacket_len) write that stored
    value back: in every arm of to_writer the length prefix written derives from the stored field, never from a fresh
    SubpacketLength::encode()."""
    for path, fld in (('<packet::user_attribute::UserAttribute as ser::Serialize>::to_writer', r'field:UserAttribute::(Image|Unknown)\.subpacket_len$'),
                      ('packet::signature::ser::<impl ser::Serialize for packet::signature::subpacket::Subpacket>::to_writer', r'field:Subpacket\.len$')):
        b = ctx.body(path)
        if b is None:
            continue
        lw = [(i, t) for i, t in b.calls(r'ser::Serialize::to_writer$') if 'SubpacketLength' in t['f'].get('selfty', '')]
        good = bool(lw) and all(has_origin(b.operand_origins(t['args'][0]), fld) for i, t in lw)
        fresh = b.calls(r'SubpacketLength::encode$')
        oks = ok_exit_blocks(b)
        every, _ = must_pass(b, oks, [i for i, t in lw]) if lw else (False, None)
        ctx.check('%s:S05-7:stored-length-encoding:%s' % (P, ('UserAttribute' if 'UserAttribute' in path else 'Subpacket')), 'origin',
                  'the length prefix written by %s is the stored (original) encoding on every path, not a re-encoded one' % ('UserAttribute' if 'UserAttribute' in path else 'Subpacket'),
                  good and not fresh and every, function=path, missing='SubpacketLength::encode() used in the writer' if fresh else None)


def stored_length_checked_against_data(ctx, P):
    """The other half of the stored-length design: a Subpacket keeps the length field it was read with and writes it back, so the
    parser may only hand out a subpacket whose stored length IS the length of its data - `subpacket()` compares the announced length
    with `data.write_len()` (rejecting) on every way to an Ok result.  A bound of the announced length by the enclosing area does not
    replace it: the nested `Take` readers end a short body without an error."""
    b = ctx.body('packet::signature::de::subpacket')
    if b is None:
        ctx.missing(P + ':S05-7:stored-length-equals-data', 'packet::signature::de::subpacket not found')
        return
    from rules.common import err_exit_blocks
    oks = [i for i in ok_exit_blocks(b) if i not in set(err_exit_blocks(b))]
    G = [g for g, _ in guard_switches(b, oks, [r'call:.*SubpacketLength::len$', r'call:.*Serialize::write_len$'])]
    dom = b.dominators()
    ok, why, where = False, 'no rejecting comparison of the announced length with write_len() of the parsed data', None
    for S, t in b.switches():
        info = enum_switch_info(b, S)
        if not info or not info[0].endswith('result::Result') or not any(S in dom.get(g, ()) for g in G):
            continue
        if not must_pass(b, oks, [S])[0]:
            continue
        for j, _ in b.succ(S):
            if edge_variants(b, S, j) == ['Ok']:
                wit = b.find_path(j, set(oks), removed=frozenset(G))
                ok = wit is None
                if not ok:
                    why, where = 'a parsed (Ok) subpacket reaches the return without the comparison', site(b, S)
    ctx.check(P + ':S05-7:stored-length-equals-data', 'R-dom', 'subpacket() hands out a parsed subpacket only after comparing the announced length with the serialized length of its data (rejecting)',
              ok and bool(G), function=b.path, site=where, missing=None if ok else why)


def tag_tables(ctx, P):
    b1 = ctx.body('<types::packet::Tag as std::convert::From<u8>>::from')
    b2 = ctx.body('types::packet::<impl std::convert::From<types::packet::Tag> for u8>::from')
    if b1 is None or b2 is None:
        return
    t1 = int_to_variant_table(b1)
    enc = variant_to_int_table(b2)
    rfc = {1: 'PublicKeyEncryptedSessionKey', 2: 'Signature', 3: 'SymKeyEncryptedSessionKey', 4: 'OnePassSignature', 5: 'SecretKey', 6: 'PublicKey',
           7: 'SecretSubkey', 8: 'CompressedData', 9: 'SymEncryptedData', 10: 'Marker', 11: 'LiteralData', 12: 'Trust', 13: 'UserId', 14: 'PublicSubkey',
           17: 'UserAttribute', 18: 'SymEncryptedProtectedData', 19: 'ModDetectionCode', 21: 'Padding'}
    dec = {}
    for lo, hi, vs in t1:
        for v in range(lo, hi + 1):
            dec[v] = vs
    bad = {v: dec.get(v) for v, n in rfc.items() if dec.get(v) != (n,)}
    ctx.check(P + ':S05-4:tag-decode', 'R-table', 'packet type ids 1..14, 17..19, 21 decode to the RFC 9580 §5 packet types (20 = documented GnuPG AEAD)',
              not bad and dec.get(20) == ('GnupgAeadData',), function=b1.path, missing=bad or None)
    inv = {}
    for v, n in rfc.items():
        e = enc.get(n)
        if e != v:
            inv[n] = e
    ctx.check(P + ':S05-4:tag-roundtrip', 'R-table', 'u8::from(Tag::from(id)) == id for every assigned packet type id', not inv, function=b2.path, missing=inv or None)
    rng = {(lo, hi): vs for lo, hi, vs in t1 if hi - lo > 0}
    ctx.check(P + ':S05-4:tag-ranges', 'R-table', 'unassigned critical 22..39, unassigned non-critical 40..59, experimental 60..63, invalid 64..255',
              rng.get((22, 39)) == ('UnassignedCritical',) and rng.get((40, 59)) == ('UnassignedNonCritical',) and rng.get((60, 63)) == ('Experimental',)
              and rng.get((64, 255)) == ('Invalid',), function=b1.path, table={str(k): v for k, v in rng.items()})


READS = {'read_u8': 1, 'read_be_u16': 2, 'read_le_u16': 2, 'read_be_u32': 4}


def opaque_layout(ctx, P):
    """Opaque `Other` variants: fixed octets consumed before rest() == fixed octets written before write_all(data)."""
    targets = [('packet::public_key_encrypted_session_key::PublicKeyEncryptedSessionKey', 'Other', 'data'),
               ('packet::sym_key_encrypted_session_key::SymKeyEncryptedSessionKey', 'Other', 'data')]
    n = 0
    for adt, var, fld in targets:
        short = adt.split('::')[-1]
        # reader: the body that constructs the variant
        reader = None
        for p, r in ctx.f.bodies.items():
            if r.get('derived') or not p.startswith(adt.rsplit('::', 1)[0]) or 'arbitrary' in p:
                continue
            b = ctx.wrap(r)
            cons = b.constructs(adt.replace('(', r'\(') + '$', var)
            if cons and b.calls(r'BufReadParsing::rest$'):
                reader = (b, cons)
            elif not cons:
                ctx.functions.discard(p)
        wpath = '<%s as ser::Serialize>::to_writer' % adt
        wb = ctx.body(wpath)
        if reader is None or wb is None:
            ctx.missing('%s:S05-6:opaque:%s' % (P, short), 'reader or writer of %s::%s not found' % (short, var))
            continue
        n += 1
        b, cons = reader
        cblk = cons[0][0]
        dom = b.dominators()
        rd = 0
        for i, t in b.calls(r'BufReadParsing::(read_u8|read_be_u16|read_le_u16|read_be_u32)$'):
            if i in dom[cblk]:
                rd += READS[t['f']['fn'].split('::')[-1]]
        for i, t in b.calls(r'BufReadParsing::read_arr$'):
            if i in dom[cblk]:
                m = re.search(r'read_arr::<(\d+)>', t['f']['full'])
                rd += int(m.group(1)) if m else 0
        # writer: fixed writes that dominate the write_all(data) in the Other arm
        wdom = wb.dominators()
        wr = None
        for i, t in wb.calls(r'io::Write::write_all$'):
            ac = arm_context(wb, i, wdom)
            if any(a == short and vs == [var] for a, vs in ac):
                wr = 0
                for j, tt in wb.calls(r'WriteBytesExt::(write_u8|write_u16|write_u32)$'):
                    if j in wdom[i]:
                        wr += serlen.FIXED[tt['f']['fn'].split('::')[-1]]
        ctx.check('%s:S05-6:opaque:%s' % (P, short), 'R-seq', '%s::%s is written with the same number of fixed octets (%s) it was parsed with' % (short, var, rd),
                  wr is not None and wr == rd, function=wpath, table=dict(read_fixed=rd, written_fixed=wr))
    ctx.floor(P + ':S05-6:floor', 'opaque variants checked', n, 2)
    # an opaque body followed by a separately stored trailing field: the writer emits body then field, so the parser must have
    # REMOVED the field's octet(s) from the body it stores (a peek stores the octet twice and every write/parse cycle grows the packet)
    TAILS = [('packet::one_pass_signature::OnePassSignature::try_from_reader', 'packet::one_pass_signature::OpsVersionSpecific', 'Unknown',
              '<packet::one_pass_signature::OnePassSignature as ser::Serialize>::to_writer', r'field:OnePassSignature\.last$')]
    CONSUMING = r'(Bytes|BytesMut)::(split_off|split_to|truncate|slice|advance)$|Buf::(get_u8|advance|split_to|copy_to_bytes)$|Vec::<.*>::(pop|truncate|split_off)$|::split_last$|::split_at$'
    for rp, adt, var, wp, fld in TAILS:
        rb = ctx.body(rp)
        wb = ctx.body(wp)
        if rb is None or wb is None:
            continue
        cons = rb.constructs(adt + '$', var)
        wr = [i for i, t in wb.calls(r'WriteBytesExt::write_u8$') if has_origin(wb.operand_origins(t['args'][1]), fld)]
        if not cons or not wr:
            ctx.missing('%s:S05-6:opaque-tail:%s' % (P, adt.split('::')[-1]), 'opaque construct or trailing-field write not found')
            continue
        rdom_ = rb.dominators()
        cblk = cons[0][0]
        rest = [i for i, t in rb.calls(r'BufReadParsing::rest$') if i in rdom_[cblk]]
        cut = [i for i, t in rb.calls(CONSUMING) if i in rdom_[cblk] and any(r in rdom_[i] for r in rest)]
        ctx.check('%s:S05-6:opaque-tail:%s' % (P, adt.split('::')[-1]), 'R-seq',
                  '%s::%s keeps an opaque body and a separately written trailing field: the parser removes the field from the body (a consuming call after rest() dominates the construct)' % (adt.split('::')[-1], var),
                  bool(rest) and bool(cut), function=rp, sites=[site(rb, i) for i in cut], writer=[site(wb, i) for i in wr],
                  missing=None if cut else 'the trailing field is read from the opaque body without being removed from it')


def dispatch(ctx, P):
    b = ctx.body('packet::packet_sum::Packet::from_reader')
    if b is None:
        return
    # tags with a parsing arm = variants of Packet constructed in from_reader (or via its closures/helpers)
    made = set()
    for r in [b.r] + ctx.f.closures_of(b.path):
        bb = ctx.wrap(r)
        for i, k, s in bb.constructs(r'packet::packet_sum::Packet$'):
            made.add(s['r']['v'])
        for i, t in bb.calls(r'convert::Into::into$|convert::From::from$|Result::<.*>::map$'):
            m = re.search(r'From<([\w:]+)>', t['f'].get('full', ''))
    adt = ctx.f.adts.get('packet::packet_sum::Packet')
    allv = set(v['n'] for v in adt['vars']) if adt else set()
    # `Ok(p.into())` forms construct through From impls: count switch arms on Tag instead
    arms = set()
    for i, t in b.switches():
        info = enum_switch_info(b, i)
        if info and info[0].endswith('types::packet::Tag'):
            explicit = {v for v, _ in t['targets']}
            arms |= {info[1][v] for v in explicit if v in info[1]}
    want = {'PublicKeyEncryptedSessionKey', 'Signature', 'SymKeyEncryptedSessionKey', 'OnePassSignature', 'SecretKey', 'PublicKey', 'SecretSubkey', 'CompressedData',
            'SymEncryptedData', 'Marker', 'LiteralData', 'Trust', 'UserId', 'PublicSubkey', 'UserAttribute', 'SymEncryptedProtectedData', 'ModDetectionCode', 'Padding', 'GnupgAeadData'}
    ctx.check(P + ':S05-5:dispatch', 'R-table', 'every assigned packet type has an explicit parsing arm in Packet::from_reader', want <= arms, function=b.path,
              missing=sorted(want - arms) or None, table=sorted(arms))


def dropped_prefix_octet_is_compared(ctx, P):
    """The native-point encodings (`0x40 || X`) are written with a constant first octet.  A reader of public key parameters that drops
    the first octet of the point it was given (`&p[1..]`) keeps only the rest: unless it has compared the dropped octet with something,
    ANY first octet is accepted and the value re-serializes with the constant - the accepted packet is not the packet that is written
    back (and hashed for fingerprints and signatures over the key).  In every function of types::params::public that indexes a slice
    with `1..`, a read of element `[0]` that reaches a comparison dominates that index."""
    from rules.common import single_defs
    n = 0
    for p, r in sorted(ctx.f.bodies.items()):
        if not p.startswith('types::params::public::') or '::tests::' in p:
            continue
        b = ctx.wrap(r)
        defs = single_defs(b)
        drops = []
        for i, t in b.calls(r'ops::Index::index$'):
            if 'RangeFrom' not in (t['f'].get('full') or '') or len(t['args']) < 2:
                continue
            k, v = resolve_value(b, t['args'][1], defs)
            if k == 'rv' and v['k'] == 'agg' and v.get('v') == 'RangeFrom' and v['o'] and 'k' in v['o'][0] and v['o'][0]['k'].get('v') == 1:
                drops.append(i)
        if not drops:
            continue
        dom = b.dominators()
        # reads of element [0]
        firsts = []
        for i, blk in enumerate(b.blocks):
            if blk['c']:
                continue
            for s in blk['s']:
                pl = s['r'].get('p') if s['r']['k'] in ('ref', 'copyderef') else (s['r']['o'][0] if s['r']['k'] == 'use' and s['r']['o'] and 'l' in s['r']['o'][0] else None)
                if not pl:
                    continue
                for e in pl['pr']:
                    m = re.match(r'\[_(\d+)\]$', e) if isinstance(e, str) else None
                    if m:
                        d = defs.get(int(m.group(1)))
                        if d and d[1].get('r', {}).get('k') == 'use' and 'k' in d[1]['r']['o'][0] and d[1]['r']['o'][0]['k'].get('v') == 0:
                            firsts.append((i, s['d']['l']))
                    elif isinstance(e, str) and re.match(r'\[0 of \d+\]$|\[0\]$', e):
                        firsts.append((i, s['d']['l']))
        # does the value read reach a comparison?
        compared = []
        for i0, L in firsts:
            T = {L}
            hit = False
            for _ in range(6):
                grew = False
                for i, blk in enumerate(b.blocks):
                    if blk['c']:
                        continue
                    for s in blk['s']:
                        ops = list(s['r'].get('o', ()))
                        if 'p' in s['r']:
                            ops.append(s['r']['p'])
                        if any('l' in o and o['l'] in T for o in ops):
                            if s['r']['k'] == 'bin' and s['r']['op'] in ('Eq', 'Ne'):
                                hit = True
                            if s['d']['l'] not in T:
                                T.add(s['d']['l']); grew = True
                    t = blk['t']
                    if t['k'] == 'switch' and t['o'].get('l') in T:
                        hit = True
                    if t['k'] == 'call' and re.search(r'PartialEq::(eq|ne)$', t['f'].get('fn', '') or '') and any(a.get('l') in T for a in t['args']):
                        hit = True
                if not grew:
                    break
            if hit:
                compared.append(i0)
        for i in drops:
            n += 1
            ok = any(c in dom.get(i, ()) or c == i for c in compared)
            ctx.check('%s:S05-17:dropped-prefix-compared:%s#%d' % (P, p, drops.index(i)), 'R-dom',
                      '%s compares the first octet of the point before it drops it' % '::'.join(p.split('::')[-2:]),
                      ok, function=p, site=site(b, i),
                      missing=None if ok else 'the first octet is dropped at %s without having been compared: any prefix is accepted and the point is written back with the constant one' % site(b, i))
    ctx.floor(P + ':S05-17:floor', 'readers of public parameters that drop the first octet of a point', n, 2)


def edges_pruned_for_version(b, version, param_rx=r'^param:\d+$'):
    """Edges of the body that cannot be taken when the KeyVersion the function was given equals `version`: the false / true edge of a
    test `v == KeyVersion::X` (derived PartialEq on a parameter) and the arms of a discriminant switch on it that name other variants.
    Conditions that are not such a test keep both edges."""
    defs = single_defs(b)
    removed = set()
    for i, t in b.switches():
        info = enum_switch_info(b, i)
        if info and info[0].endswith('KeyVersion') and has_origin(b.switch_origins(i), param_rx):
            for j, _ in b.succ(i):
                vs = edge_variants(b, i, j) or []
                if vs and version not in vs:
                    removed.add((i, j))
            continue
        if t.get('ty') != 'bool' or 'l' not in t['o']:
            continue
        # follow `Not` and copies back to the comparison call
        want, neg = t['o']['l'], False
        call = None
        for _ in range(4):
            d = defs.get(want)
            if d is None:
                break
            x = d[1]
            if x.get('k') == 'call':
                call = x
                break
            r = x['r']
            if r['k'] == 'un' and r['op'] == 'Not' and 'l' in r['o'][0]:
                neg = not neg
                want = r['o'][0]['l']
                continue
            if r['k'] == 'use' and 'l' in r['o'][0] and not r['o'][0]['pr']:
                want = r['o'][0]['l']
                continue
            break
        if call is None:
            continue
        m = re.search(r'PartialEq::(eq|ne)$', call['f'].get('fn', '') or '')
        if not m or 'KeyVersion' not in (call['f'].get('full') or '') or len(call['args']) != 2:
            continue
        consts, is_param = [], False
        for a in call['args']:
            og = b.operand_origins(a)
            cs = [o.split('::')[-1] for o in og if o.startswith('agg:types::packet::KeyVersion::')]
            if cs and not has_origin(og, param_rx):
                consts += cs
            elif has_origin(og, param_rx):
                is_param = True
        if not is_param or len(consts) != 1:
            continue
        truth = (consts[0] == version) != (m.group(1) == 'ne')
        truth = truth != neg
        for v, bb in t['targets']:
            if bool(v) != truth:
                removed.add((i, bb))
        hit = [bb for v, bb in t['targets'] if bool(v) == truth]
        if hit and t['else'] not in hit:
            removed.add((i, t['else']))
        removed -= set((i, bb) for bb in (hit or [t['else']]))
    # `matches!(v, A | B)` and `let legacy = v == A || v == B;` go through a bool local: the arms assign a constant (or the result of
    # another version test) to it and rejoin at a switch on that local - with the dead arms pruned, the assignments that are still
    # reachable all give one value
    def eq_value(call):
        m = re.search(r'PartialEq::(eq|ne)$', call['f'].get('fn', '') or '')
        if not m or 'KeyVersion' not in (call['f'].get('full') or '') or len(call['args']) != 2:
            return None
        consts, is_param = [], False
        for a in call['args']:
            og = b.operand_origins(a)
            cs = [o.split('::')[-1] for o in og if o.startswith('agg:types::packet::KeyVersion::')]
            if cs and not has_origin(og, param_rx):
                consts += cs
            elif has_origin(og, param_rx):
                is_param = True
        if not is_param or len(consts) != 1:
            return None
        return (consts[0] == version) != (m.group(1) == 'ne')

    def value_of(L, live, depth=0):
        """Truth value of bool local L under the version (over the assignments still reachable), or None."""
        if depth > 4:
            return None
        vals = set()
        for x, blk in enumerate(b.blocks):
            if blk['c'] or x not in live:
                continue
            for st in blk['s']:
                if st['d']['l'] != L or st['d']['pr']:
                    continue
                r = st['r']
                if r['k'] == 'use' and 'k' in r['o'][0] and isinstance(r['o'][0]['k'].get('v'), (bool, int)):
                    vals.add(bool(r['o'][0]['k']['v']))
                elif r['k'] == 'use' and 'l' in r['o'][0] and not r['o'][0]['pr']:
                    vals.add(value_of(r['o'][0]['l'], live, depth + 1))
                elif r['k'] == 'un' and r['op'] == 'Not' and 'l' in r['o'][0]:
                    v = value_of(r['o'][0]['l'], live, depth + 1)
                    vals.add(None if v is None else (not v))
                else:
                    vals.add(None)
            t = blk['t']
            if t['k'] == 'call' and not t['d']['pr'] and t['d']['l'] == L:
                vals.add(eq_value(t))
        if len(vals) == 1:
            return vals.pop()
        return None
    for _ in range(3):
        live = b.reach_from([0], removed_edges=frozenset(removed))
        for i, t in b.switches():
            if i not in live or t.get('ty') != 'bool' or 'l' not in t['o'] or t['o']['pr']:
                continue
            truth = value_of(t['o']['l'], live)
            if truth is None:
                continue
            hit = [bb for v, bb in t['targets'] if bool(v) == truth]
            for v, bb in t['targets']:
                if bool(v) != truth:
                    removed.add((i, bb))
            if hit and t['else'] not in hit:
                removed.add((i, t['else']))
            removed -= set((i, bb) for bb in (hit or [t['else']]))
    return removed


def unprotected_checksum_by_version(ctx, P):
    """RFC 9580 5.5.3: an unprotected v3 or v4 secret key carries a two-octet checksum after the key material (v6 does not).  Version 2
    keys have the version 3 format (RFC 4880 5.5.2) and the key parser routes both through the same code.  For which key versions the
    checksum is read, written and counted is decided by version tests in three functions: the three must take the checksum path for
    the same set of versions, and version 2 is in that set exactly when version 3 is - otherwise a v2 key that is accepted is written
    back without its checksum, with a length two short of what its header says."""
    sites = {
        'types::params::plain_secret::PlainSecretParams::try_from_reader': lambda b: [i for i, t in b.calls(r'BufReadParsing::read_arr$|BufReadParsing::read_be_u16$')],
        'types::params::plain_secret::PlainSecretParams::to_writer': lambda b: [i for i, t in b.calls(r'SimpleChecksum::to_writer$|WriteBytesExt::write_u16$')],
        'types::params::plain_secret::PlainSecretParams::write_len': lambda b: sorted(set(i for i, k, s in b.stmts(
            lambda s: s['r']['k'] == 'bin' and s['r']['op'].startswith('Add') and any('k' in o and o['k'].get('v') == 2 for o in s['r']['o'])))),
    }
    table = {}
    for path, find in sites.items():
        b = ctx.body(path)
        if b is None:
            ctx.missing(P + ':S05-18:anchor:' + path.split('::')[-1], path + ' not found')
            return
        ss = find(b)
        if not ss:
            ctx.missing(P + ':S05-18:anchor:' + path.split('::')[-1], 'checksum site not found in ' + path)
            return
        vs = []
        for v in ('V2', 'V3', 'V4', 'V6'):
            reach = b.reach_from([0], removed_edges=frozenset(edges_pruned_for_version(b, v)))
            if reach & set(ss):
                vs.append(v)
        table[path.split('::')[-1]] = vs
    vals = list(table.values())
    agree = all(v == vals[0] for v in vals)
    ctx.check(P + ':S05-18:checksum-versions-agree', 'R-sib', 'reader, writer and length query of unprotected secret key material take the checksum path for the same key versions',
              agree and vals[0] not in ([], ['V2', 'V3', 'V4', 'V6']), table=table,
              missing=None if agree else 'the three functions disagree on the versions that carry the checksum: %s' % table)
    same = all(('V2' in v) == ('V3' in v) for v in vals)
    ctx.check(P + ':S05-18:v2-as-v3', 'R-table', 'version 2 keys, which have the version 3 format and are parsed by the same code, carry the checksum exactly when version 3 keys do',
              same, table=table, function='types::params::plain_secret::PlainSecretParams::try_from_reader',
              missing=None if same else 'the checksum path is taken for %s: a version 2 key (accepted by the v2/v3 key parser) loses its two checksum octets - they are neither read nor checked nor written back' % vals[0])


def s2k_specifier_length_agrees(ctx, P):
    """`StringToKey::len()` feeds the one-octet "length of the S2K specifier" field of v6 secret key packets (written by
    EncryptedSecretParams::to_writer, compared by parse_secret_fields).  For every variant it answers for, it must be the number of
    octets `Serialize::to_writer` / `write_len` of the specifier produce (both sides evaluated per variant by the byte-count analysis)."""
    lb = ctx.f.bodies.get('types::s2k::StringToKey::len')
    wb = ctx.f.bodies.get('<types::s2k::StringToKey as ser::Serialize>::write_len')
    if lb is None or wb is None:
        ctx.missing(P + ':S05-10:s2k-specifier-length', 'StringToKey::len / write_len not found')
        return
    a = serlen.analyse_len(ctx.f, core.B(lb))
    w = serlen.analyse_len(ctx.f, core.B(wb))
    af = serlen.array_fields(ctx.f)
    serlen.normalise(a, {}, af)
    serlen.normalise(w, {}, af)

    def per_variant(side):
        out = collections.defaultdict(int)
        sym = set()
        for g, t in side.terms:
            for v in g[0]:
                if t[0] == 'const' and not g[1] and not g[2]:
                    out[v] += t[1]
                else:
                    sym.add(v)
        return out, sym
    la, sa = per_variant(a)
    lw, sw = per_variant(w)
    answered = sorted(v for v in la if v not in sa)
    bad = {v: (la[v], lw.get(v)) for v in answered if v in sw or la[v] != lw.get(v)}
    ctx.check(P + ':S05-10:s2k-specifier-length', 'R-len', 'StringToKey::len() equals the octets the specifier is written with, for every variant it answers for (%s)' % ', '.join(answered),
              len(answered) >= 4 and not bad and not a.unanalysed and not w.unanalysed, function='types::s2k::StringToKey::len', table={v: la[v] for v in answered},
              missing=None if (len(answered) >= 4 and not bad) else 'len() vs written octets per variant: %s' % {v: 'len %s, written %s' % x for v, x in bad.items()})


V2_V3_DIFFER = {   # reviewed: functions in which version 2 and version 3 legitimately take different paths
    '<packet::key::public::PubKeyInner as types::key_traits::KeyDetails>::fingerprint': 'the fingerprint value carries the key version: Fingerprint::V2 / Fingerprint::V3 (same MD5 digest)',
    'types::fingerprint::Fingerprint::new': 'constructor of the versioned fingerprint value: one arm per version',
}


def v2_judged_as_v3(ctx, P, floor=40):
    """Version 2 keys are version 3 keys with another version octet (RFC 4880 5.5.2); the library reads both with the same parsers and
    `legacy_key_id` / `fingerprint` treat them alike.  A version test that lets V2 take another path than V3 - a restriction that
    names only V3, a checksum that is only read for V3 - makes the v2 form of a key behave differently from its v3 form (accepted
    where v3 is refused, and then panicking in `legacy_key_id`; written back short).  For every function that tests a key version, the
    calls and constructions reachable when the version is V2 are those reachable when it is V3 (partial evaluation of `== KeyVersion::X`,
    discriminant switches and `matches!`), except in the reviewed functions whose result names the version."""
    n = 0
    src = r'^param:\d+$|field:.*\.version$|call:.*::version$'
    for p, r in sorted(ctx.f.bodies.items()):
        if '::tests::' in p or r.get('derived'):
            continue
        b = ctx.wrap(r)
        e2 = edges_pruned_for_version(b, 'V2', src)
        e3 = edges_pruned_for_version(b, 'V3', src)
        if not e2 and not e3:
            ctx.functions.discard(p)
            continue
        n += 1
        r2 = b.reach_from([0], removed_edges=frozenset(e2))
        r3 = b.reach_from([0], removed_edges=frozenset(e3))

        def sig(blocks):
            out = set()
            for x in blocks:
                blk = b.blocks[x]
                t = blk['t']
                if t['k'] == 'call' and not (re.search(r'PartialEq::(eq|ne)$', t['f'].get('fn', '') or '') and 'KeyVersion' in (t['f'].get('full') or '')):
                    out.add(('call', x))
                if t['k'] == 'return':
                    out.add(('ret', x))
                for st in blk['s']:
                    if st['r']['k'] == 'agg' and st['r'].get('ak') == 'adt':
                        out.add(('agg', x, st['r'].get('v')))
            return out
        d = sig(r2) ^ sig(r3)
        if p in V2_V3_DIFFER:
            ctx.ok('%s:S05-18:v2-as-v3:%s' % (P, p), 'R-table', 'reviewed: %s' % V2_V3_DIFFER[p], function=p)
            continue
        where = sorted(set(b.line(x[1]) for x in d))
        ctx.check('%s:S05-18:v2-as-v3:%s' % (P, p), 'R-table', '%s does the same for a version 2 key as for a version 3 key' % '::'.join(p.split('::')[-2:]),
                  not d, function=p, site='%s:%s' % (r['file'], where[0]) if where else None,
                  missing=None if not d else 'with version V2 other calls / constructions are reachable than with V3 (lines %s): the v2 form of a key is judged differently from its v3 form' % where[:6])
    ctx.floor(P + ':S05-18:v2-as-v3:floor', 'functions that test a key version', n, floor)


def sec1_points_have_the_uncompressed_length(ctx, P):
    """OpenPGP carries NIST curve points in the uncompressed SEC1 form only (`04 || X || Y`: 65 / 97 / 133 octets) and the library
    writes them that way.  `from_sec1_bytes` also decodes the compressed forms (`02/03 || X`): a reader that hands it the octets of the
    MPI as they came accepts a compressed point, which is then written back - and fingerprinted - uncompressed, i.e. as another packet.
    Every `from_sec1_bytes` call of the public-parameter readers gets a fixed-size array (the ECDSA readers: a short point cannot
    decode) or octets whose length was compared with a constant (rejecting) before."""
    from rules.common import direct_cmp_switches, is_call_to
    n = 0
    for p, r in sorted(ctx.f.bodies.items()):
        if not p.startswith('types::params::public::') or '::tests::' in p:
            continue
        b = ctx.wrap(r)
        cs = b.calls(r'from_sec1_bytes$')
        if not cs:
            continue
        defs = single_defs(b)
        dom = b.dominators()
        lens = [g for g, op, side in direct_cmp_switches(b, is_call_to(r'Mpi::len$|\]>::len$|::len$'), lambda c: isinstance(c, int) and c in (33, 49, 65, 67, 97, 133)) if op in ('Eq', 'Ne')]
        rejecting = set(g for g, _ in guard_switches(b, [i for i, _ in cs], []))
        for k, (i, t) in enumerate(cs):
            n += 1
            kind, v = resolve_value(b, t['args'][0], defs)
            fixed = False
            o = t['args'][0]
            for _ in range(5):
                d = defs.get(o.get('l')) if 'l' in o else None
                if d is None:
                    break
                x = d[1]
                if x.get('k') == 'call':
                    break
                rr = x['r']
                src = rr.get('p') if rr['k'] in ('ref', 'copyderef') else (rr['o'][0] if rr['k'] in ('use', 'cast') and rr['o'] and 'l' in rr['o'][0] else None)
                if src is None:
                    break
                ty = b.r['locals'][src['l']]['ty'] or ''
                if re.match(r'\[u8; \d+\]$', ty) and not [e for e in src['pr'] if e != '*']:
                    fixed = True
                    break
                o = dict(l=src['l'], pr=[])
            guarded = any(g in dom.get(i, ()) and g in rejecting for g in lens)
            if not guarded:
                # `ensure_eq!(p.len(), 65)` compares through references: recognised by what the branch condition derives from
                for g, _ in guard_switches(b, [i], [r'call:.*(Mpi::len|::len)$']):
                    og = b.switch_origins(g)
                    if g in dom.get(i, ()) and has_origin(og, r'const:(33|49|65|67|97|133):') and not has_origin(og, r'op:(Lt|Le|Gt|Ge)$'):
                        guarded = True
            ctx.check('%s:S05-19:sec1-point-length:%s#%d' % (P, p, k), 'R-dom', '%s decodes a SEC1 point of fixed (uncompressed) length only' % '::'.join(p.split('::')[-2:]),
                      fixed or guarded, function=p, site=site(b, i),
                      missing=None if (fixed or guarded) else 'from_sec1_bytes at %s is handed the MPI octets as they came: a compressed point (33 / 49 / 67 octets) is accepted and written back uncompressed' % site(b, i))
    ctx.floor(P + ':S05-19:floor', 'SEC1 point decodings in the public-parameter readers', n, 7)


def declared_key_material_fully_consumed(ctx, P):
    """A v6 key packet announces the octet count of its public key material.  The parsers read the material through a reader limited to
    that count (`read_take(pub_len)`); whatever the algorithm-specific reader leaves unread inside the limit is dropped when the
    limited reader goes away - the key is then written back (and fingerprinted) with another count than the packet had.  Every key
    parser that limits a reader by the announced count tests the limited reader for leftovers (rejecting) before it returns Ok."""
    from rules.c19 import _root_place
    from rules.common import err_exit_blocks
    n = 0
    for p, r in sorted(ctx.f.bodies.items()):
        if not re.match(r'packet::(public_key_parser|secret_key_parser)::', p) or '::tests::' in p:
            continue
        b = ctx.wrap(r)
        takes = [(i, t) for i, t in b.calls(r'BufReadParsing::read_take$')]
        if not takes or not b.calls(r'PublicParams::try_from_reader$'):
            continue
        defs = single_defs(b)
        oks = [x for x in ok_exit_blocks(b) if x not in set(err_exit_blocks(b))]
        for k, (i, t) in enumerate(takes):
            n += 1
            tl = t['d']['l']
            probes = [j for j, tt in b.calls(r'BufReadParsing::has_remaining$') if tt['args'] and (_root_place(b, tt['args'][0], defs) or (None,))[0] == tl]
            gs = []
            for j in probes:
                gs += [g for g, _ in guard_switches(b, oks, [r'cs:.*has_remaining#%d$' % j])]
            after = b.reach_from([t['t']]) if t.get('t') is not None else set()
            ok = bool(gs) and all(b.find_path(t['t'], {x}, removed=frozenset(gs)) is None for x in oks if x in after)
            ctx.check('%s:S05-20:declared-key-material-consumed:%s#%d' % (P, p, k), 'R-dom', '%s refuses a key whose announced material count is not used up by the algorithm-specific reader' % p.split('::')[-1],
                      ok, function=p, site=site(b, i),
                      missing=None if ok else 'the reader limited at %s is not tested for leftovers: surplus octets inside the announced count are dropped and the key gets another count (and fingerprint) when written' % site(b, i))
    ctx.floor(P + ':S05-20:floor', 'key parsers that limit a reader by the announced material count', n, 2)


def mpi_writer_refuses_what_the_reader_refuses(ctx, P):
    """The MPI reader refuses a bit count above MAX_EXTERN_MPI_BITS.  An Mpi built in memory (`Mpi::from_slice` of a long slice) can be
    longer; if the writer emits it anyway the library has written bytes it cannot parse back.  The writer compares the bit size it is
    about to announce with the same constant the reader compares the announced count with (rejecting)."""
    from rules.common import direct_cmp_switches, is_call_to
    rb = ctx.body('types::mpi::Mpi::try_from_reader')
    wb = ctx.body('<types::mpi::Mpi as ser::Serialize>::to_writer')
    if rb is None or wb is None:
        ctx.missing(P + ':S05-21:mpi-writer-bound', 'Mpi reader / writer not found')
        return
    defs = single_defs(rb)
    rc = set()
    for g, t in rb.switches():
        kind, v = resolve_value(rb, t['o'], defs)
        if kind == 'rv' and v['k'] == 'bin' and v['op'] in ('Gt', 'Ge', 'Lt', 'Le'):
            sides = [resolve_value(rb, o, defs) for o in v['o']]
            for a, c in ((0, 1), (1, 0)):
                if sides[c][0] == 'const' and isinstance(sides[c][1], int) and has_origin(rb.operand_origins(v['o'][a]), r'call:.*read_be_u16$'):
                    rc.add(sides[c][1])
    oks = ok_exit_blocks(wb)
    wc = set()
    for g, _ in guard_switches(wb, oks, [r'call:.*bit_size$']):
        og = wb.switch_origins(g)
        wc |= set(int(m.group(1)) for m in (re.match(r'const:(\d+):', x) for x in og) if m)
    ctx.check(P + ':S05-21:mpi-writer-bound', 'R-sib', 'Mpi::to_writer refuses a bit size above the bound at which Mpi::try_from_reader refuses an announced count',
              bool(rc) and bool(rc & wc), function=wb.path, table=dict(reader=sorted(rc), writer=sorted(wc)),
              missing=None if (rc and rc & wc) else 'the reader refuses counts above %s, the writer has no rejecting comparison of the bit size with that bound: an Mpi of more bits is written and cannot be read back' % sorted(rc))


def unprotected_checksum_on_every_ok_path(ctx, P):
    """For the key versions that carry it, the two-octet checksum of unprotected secret key material is COMPARED on every way to an Ok
    result of PlainSecretParams::try_from_reader (it is also what `unlock` of a usage-255 / legacy-cipher key relies on to refuse a
    wrong password or changed octets): with the version fixed to V2, V3 or V4 no path reaches a successful return around the
    comparison - an early `Ok` for "nothing left to read" would accept material whose checksum was cut off."""
    from rules.common import err_exit_blocks
    b = ctx.body('types::params::plain_secret::PlainSecretParams::try_from_reader')
    if b is None:
        ctx.missing(P + ':S05-18:checksum-on-every-ok-path', 'PlainSecretParams::try_from_reader not found')
        return
    cmpb = [i for i, t in b.calls(r'compare_checksum_simple$')]
    oks = [x for x in ok_exit_blocks(b) if x not in set(err_exit_blocks(b))]
    bad = {}
    for v in ('V2', 'V3', 'V4'):
        wit = b.find_path(0, set(oks), removed=frozenset(cmpb), removed_edges=frozenset(edges_pruned_for_version(b, v)))
        if wit is not None:
            bad[v] = fmt_path(b, wit)
    ctx.check(P + ':S05-18:checksum-on-every-ok-path', 'R-dom', 'for V2, V3 and V4 every successful return of PlainSecretParams::try_from_reader has compared the checksum',
              bool(cmpb) and bool(oks) and not bad, function=b.path, site=site(b, cmpb[0]) if cmpb else None, witness=next(iter(bad.values())) if bad else None,
              missing=None if not bad else 'with the version fixed to %s a path reaches Ok without the checksum comparison' % sorted(bad))


def mpi_constructors_normalise(ctx, P):
    """An `Mpi` holds its value without leading zero octets (the writer announces the bit size of what it holds and the reader strips
    them): every place that builds the struct takes the octets from `strip_leading_zeros` (`from_slice`), from the reader's own
    stripping, or is the documented raw constructor whose callers are checked separately (S05-11).  `BigUint::to_bytes_be()` of zero is
    `[0]` - a conversion that wraps it as it is writes `00 00 00`, which reads back as the empty MPI plus a stray octet."""
    n = 0
    for p, r in sorted(ctx.f.bodies.items()):
        if '::tests::' in p or r.get('derived'):
            continue
        b = ctx.wrap(r)
        for i, k, st in b.stmts(lambda st: st['r']['k'] == 'agg' and (st['r'].get('adt') or '') == 'types::mpi::Mpi'):
            n += 1
            if p.endswith('Mpi::from_raw'):
                ctx.ok('%s:S05-22:mpi-normalised:%s' % (P, p), 'R-who', 'Mpi::from_raw is the documented raw constructor (its callers: S05-11)', function=p)
                continue
            og = b.operand_origins(st['r']['o'][0]) if st['r']['o'] else set()
            ok = has_origin(og, r'call:.*(strip_leading_zeros|Mpi::from_slice|leading_zeros_offset)$')      # (a plain `advance(1)` strips one octet only)
            ctx.check('%s:S05-22:mpi-normalised:%s' % (P, p), 'R-who', '%s builds an Mpi from octets without leading zeros' % p.split(' as ')[0].lstrip('<').split('::')[-1] if False else '%s builds an Mpi from stripped octets' % p,
                      ok, function=p, site=site(b, i),
                      missing=None if ok else 'the octets come from %s without passing strip_leading_zeros: a value of zero is held as [0] and written as `00 00 00`' % sorted(x[5:] for x in og if x.startswith('call:'))[:2])
    ctx.floor(P + ':S05-22:floor', 'constructions of the Mpi struct', n, 3)
