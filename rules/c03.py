"""C03 Ciphertext integrity (DESIGN §5 C03)."""
import re
from rules.common import rdom, call_blocks, ok_exit_blocks, err_exit_blocks, site, direct_cmp_switches, is_call_to
from core import guard_switches, must_pass, fmt_path, has_origin

EXPLANATION = ("Decides structural clauses of C03, not the behaviour: SEIPDv1 — the `Done` state of the CFB stream decryptor is "
               "constructed only in finalize_data and, for the MDC-protected modes, only after a comparison deriving from the "
               "constant-time MDC compare and the SHA-1 finalisation with a rejecting edge; Read/BufRead expose buffer bytes only up "
               "to data_available in the Data state; in check-first mode data_available is never increased; the 22-octet hold-back "
               "guard dominates hashing; failures leave the state machine in Error. SEIPDv2 — fill_inner cannot return Ok after "
               "reading new ciphertext without decrypt/decrypt_last succeeding; is_source_done is set only on the decrypt_last path; "
               "decrypt_last binds total length and info as AD of the final tag; decrypt binds the chunk index into the nonce on "
               "every success path; AeadAlgorithm::decrypt_in_place returns Ok only from a primitive. Not decided: behaviour per flip position."
               ' Also: chunk nonce rewritten from the index by copy in both directions, drain loop before the final tag ends only at 0, Message::read does not take read(&mut []) for the end, and (shared with C09) no error of the decryptor stack is dropped.')
ASSUMPTIONS = ["sha1, subtle::ConstantTimeEq and the aead crates behave as named", "flow-insensitive origin analysis"]

SD = 'crypto::sym::decryptor::StreamDecryptorInner::<M, R>::'
AD = 'crypto::aead::decryptor::StreamDecryptor::<R>::'


def variant_switches(b, adt_suffix):
    """(block, {value: variant name}, terminator) for switches on the discriminant of a place of enum `adt_suffix`."""
    out = []
    for i, t in b.switches():
        o = t['o']
        if 'l' not in o:
            continue
        for s in b.blocks[i]['s']:
            if s['d']['l'] == o['l'] and s['r']['k'] == 'discr' and 'enum' in s['r'] and s['r']['enum']['adt'].endswith(adt_suffix):
                out.append((i, {v: n for v, n in s['r']['enum']['vars']}, t))
    return out


def assigns_to_field(b, field_suffix):
    """(block, stmt) of statements that store into a place whose last projection is the named field, either directly
    or through a `&mut` local that borrows it."""
    orig = b.origins()
    out = []
    # locals that are &mut borrows of exactly that field
    borrowers = set()
    for i, blk in enumerate(b.blocks):
        for s in blk['s']:
            r = s['r']
            if r['k'] == 'ref' and r['m'] == 'mut' and r['p']['pr'] and r['p']['pr'][-1].endswith(field_suffix) and not s['d']['pr']:
                borrowers.add(s['d']['l'])
    changed = True
    while changed:
        changed = False
        for blk in b.blocks:
            for s in blk['s']:
                r = s['r']
                if not s['d']['pr'] and s['d']['l'] not in borrowers:
                    src = None
                    if r['k'] == 'use' and 'l' in r['o'][0] and not r['o'][0]['pr']:
                        src = r['o'][0]['l']
                    elif r['k'] == 'ref' and r['p']['pr'] == ['*']:
                        src = r['p']['l']
                    if src in borrowers:
                        borrowers.add(s['d']['l'])
                        changed = True
    for i, blk in enumerate(b.blocks):
        if blk['c']:
            continue
        for s in blk['s']:
            d = s['d']
            if d['pr'] and d['pr'][-1].endswith(field_suffix):
                out.append((i, s))
            elif d['pr'] == ['*'] and d['l'] in borrowers:
                out.append((i, s))
    return out


def reach_with_const(b, start, local, value):
    """Blocks reachable from `start` knowing bool local == value (until it is reassigned): switches on the local or
    on Not(local) follow only the consistent edge."""
    seen = {start}
    st = [start]
    while st:
        i = st.pop()
        blk = b.blocks[i]
        t = blk['t']
        # is the local reassigned in this block (other than in start)?
        known = True
        if i != start:
            for s in blk['s']:
                if s['d']['l'] == local and not s['d']['pr']:
                    known = False
        succ = [j for j, _ in b.succ(i)]
        if known and t['k'] == 'switch' and 'l' in t['o']:
            ol = t['o']['l']
            val = None
            if ol == local:
                val = value
            else:
                for s in blk['s']:
                    if s['d']['l'] == ol and s['r']['k'] == 'un' and s['r']['op'] == 'Not' and s['r']['o'][0].get('l') == local:
                        val = 1 - value
                    if s['d']['l'] == ol and s['r']['k'] == 'use' and s['r']['o'][0].get('l') == local:
                        val = value
            if val is not None:
                tgt = None
                for v, bb in t['targets']:
                    if v == val:
                        tgt = bb
                if tgt is None:
                    tgt = t['else']
                succ = [tgt]
        if not known:
            # give up precision: plain reachability from here
            for j in b.reach_from([i]):
                if j not in seen:
                    seen.add(j)
            continue
        for j in succ:
            if j not in seen:
                seen.add(j)
                st.append(j)
    return seen


def header_fields(ctx, P):
    """Container header fields (cipher, AEAD mode, chunk size, salt) are bound into key derivation / AD only if a malformed
    value is an error: the config parsers must not default or swallow a field's parse error."""
    from rules import errs
    n = 0
    m = 0
    for p, r in sorted(ctx.f.bodies.items()):
        if re.search(r'packet::(sym_encrypted_protected_data|gnupg_aead)::\w*Config::try_from_reader$|packet::sym_encrypted_protected_data::Config::try_from_reader$', p):
            b = ctx.wrap(r)
            n += 1
            d = errs.discards(b)
            ctx.check('%s:header:no-defaulted-field:%s' % (P, p), 'R-err', 'no header field of %s is defaulted on a parse error (an out-of-range chunk size / algorithm octet is rejected)' % p.split('::')[-2],
                      not d, function=p, missing=['%s of %s' % (form, fn.split('::')[-1]) for i, form, fn in d] or None)
            # an octet that is converted to a typed header field reaches the conversion unmodified: a clamp / mask / arithmetic on
            # the way maps several wire values to one parsed value, so an altered octet can decrypt under the original's AD
            for i, t in b.calls(r'TryInto::try_into$|TryFrom::try_from$|From::from$'):
                full = t['f'].get('full', '')
                if not re.search(r'^<u8 as std::convert::TryInto<|^<[\w:]+ as std::convert::(Try)?From<u8>>', full):
                    continue
                m += 1
                og = b.operand_origins(t['args'][0])
                lossy = sorted(x for x in og if re.search(r'^call:.*::(min|max|clamp|saturating_\w+|wrapping_\w+|checked_\w+|rem_euclid)$|^op:|^const:', x))
                ctx.check('%s:header:octet-converted-unmodified:%s:%s' % (P, p, re.sub(r'.*<([\w:]+)>>.*', r'\1', full).split('::')[-1]), 'R-lost',
                          'the wire octet of a %s header field reaches its typed conversion unmodified (no clamp, mask or arithmetic: distinct octets stay distinct or are rejected)' % p.split('::')[-3],
                          not lossy, function=p, site=site(b, i), missing=lossy or None)
    ctx.floor(P + ':header:floor', 'SEIPD / GnuPG-AEAD config parsers', n, 1)
    ctx.floor(P + ':header:conversion-floor', 'typed conversions of header octets in the config parsers', m, 2)


def header_algorithms_used_as_given(ctx, P):
    """The cipher and AEAD ids of the container header enter the key derivation and the associated data (`info`): changing the octet
    in the header changes both, so the altered container fails.  That holds only while the decryptor uses the ids it was GIVEN: no
    constructor of a stream decryptor replaces an id by a constant (an alias table `Private100 => Gcm` makes two different headers
    decrypt alike).  Every algorithm argument of the AEAD set-up calls derives from the constructor's parameters only."""
    n = 0
    for p, r in sorted(ctx.f.bodies.items()):
        if '::tests::' in p or not p.startswith('crypto::aead::'):
            continue
        b = ctx.wrap(r)
        for i, t in b.calls(r'aead_setup_(rfc9580|gnupg)$'):
            n += 1
            bad = []
            for k, a in enumerate(t['args']):
                og = b.operand_origins(a)
                subst = sorted(x for x in og if re.match(r'agg:crypto::(aead::AeadAlgorithm|sym::SymmetricKeyAlgorithm|aead::ChunkSize)::', x))
                if subst:
                    bad.append((k, subst[:3]))
            ctx.check('%s:v2:algorithms-as-given:%s' % (P, p), 'origin', 'the algorithm ids handed to the AEAD set-up in %s are the ones the caller passed (no constant substituted)' % p.split('::')[-1],
                      not bad, function=p, site=site(b, i),
                      missing=None if not bad else 'argument %d of the set-up call can be the constant %s instead of the id from the header: two different headers derive the same key and associated data' % bad[0])
    ctx.floor(P + ':v2:algorithms-as-given:floor', 'AEAD set-up calls', n, 3)


def run(ctx):
    P = 'C03'
    header_fields(ctx, P)
    header_algorithms_used_as_given(ctx, P)
    seipdv1(ctx, P)
    read_mode_is_callers_choice(ctx, P)
    seipdv2(ctx, P)
    primitive(ctx, P)
    trailing(ctx, P)
    from rules import stream as _s
    _s.eof_kind_protocol(ctx, P)
    _s.packet_stream_end_at_boundary(ctx, P)
    _s.eof_helper_not_leaked(ctx, P)
    # no error of the integrity machinery is dropped on the way to the consumer (R-err of C09 restricted to the decryptor stack)
    from rules import stream
    stream.r_err(ctx, P, only=r'crypto::(aead|sym)::|composed::message::reader::(sym_encrypted|packet_body)|composed::message::(types|decrypt)|packet::many::', floor=250)


STREAMING_MAKERS = {
    # the unprotected (SED, no MDC) decryptor has nothing to check first; the mode is ignored for it
    'crypto::sym::SymmetricKeyAlgorithm::stream_decryptor_unprotected',
}


def read_mode_is_callers_choice(ctx, P):
    """'In the default SEIPDv1 mode not a single plaintext byte is released before the failure': release-before-check
    (Seipdv1ReadMode::Streaming) is reached only when the caller passed it.  Structural part: no library function constructs the
    Streaming value except the reviewed makers, and Default constructs CheckFirst — so the mode that reaches the decryptor is
    the caller's value or the default."""
    makers = {}
    default_ok = None
    for p, r in sorted(ctx.f.bodies.items()):
        b = ctx.wrap(r)
        cs = b.constructs(r'types::Seipdv1ReadMode$')
        if not cs:
            continue
        vs = sorted(set(s['r']['v'] for (_, _, s) in cs))
        if 'Default' in p and p.endswith('::default'):
            default_ok = (vs == ['CheckFirst'], p, vs)
            continue
        if 'Streaming' in vs:
            makers[p] = site(b, cs[0][0])
    extra = sorted(set(makers) - STREAMING_MAKERS)
    ctx.check(P + ':S03-9:streaming-mode-only-from-caller', 'R-who',
              'no library function constructs Seipdv1ReadMode::Streaming except the unprotected-data decryptor (release-before-check is the caller\'s explicit choice)',
              not extra and bool(set(makers) & STREAMING_MAKERS), makers=makers, missing=('constructed in ' + ', '.join('%s (%s)' % (p, makers[p]) for p in extra)) if extra else None)
    ctx.check(P + ':S03-9:default-mode-checks-first', 'R-table', 'Default for Seipdv1ReadMode is CheckFirst',
              default_ok is not None and default_ok[0], function=default_ok[1] if default_ok else None, variants=default_ok[2] if default_ok else None)


def seipdv1(ctx, P):
    # A2: who constructs Done
    makers = []
    for p, r in ctx.f.bodies.items():
        if 'crypto::sym::decryptor' not in p:
            continue
        b = ctx.wrap(r)
        if b.constructs(r'StreamDecryptorInner$', 'Done'):
            makers.append(p)
    ctx.check(P + ':v1:done-only-in-finalize', 'R-who', 'StreamDecryptorInner::Done is constructed only in finalize_data',
              makers == [SD + 'finalize_data'], table=makers)

    b = ctx.body(SD + 'finalize_data')
    if b is not None:
        sinks = [i for i, _, _ in b.constructs(r'StreamDecryptorInner$', 'Done')]
        vs = variant_switches(b, 'MaybeProtected')
        ctx.floor(P + ':v1:finalize:floor', 'switch on MaybeProtected in finalize_data', len(vs), 1)
        gs = [g for g, _ in guard_switches(b, sinks, [r'call:.*ConstantTimeEq::ct_eq$|call:.*PartialEq::eq$', r'call:.*(Digest|FixedOutput|DynDigest)::finalize'])]
        bad = None
        nprot = 0
        for i, names, t in vs:
            edges = [(v, bb) for v, bb in t['targets']] + [(None, t['else'])]
            for v, bb in edges:
                nm = names.get(v, 'otherwise') if v is not None else 'otherwise'
                explicit = set(names.get(x) for x, _ in t['targets'])
                if v is None:
                    covered = [n for n in names.values() if n not in explicit]
                else:
                    covered = [nm]
                if any(c.startswith('Protected') for c in covered):
                    nprot += 1
                    p_ = b.find_path(bb, set(sinks), removed=frozenset(gs))
                    if p_ is not None:
                        bad = (covered, p_)
        ctx.check(P + ':v1:finalize:mdc-guards-done', 'R-dom',
                  'in the MDC-protected arms of finalize_data, Done is reached only through a rejecting comparison deriving from the MDC compare and SHA-1 finalize',
                  bad is None and nprot >= 1 and bool(gs), function=b.path, guards=[site(b, g) for g in gs], sinks=[site(b, s) for s in sinks],
                  witness=fmt_path(b, bad[1]) if bad else None, missing=('arm %s reaches Done without the MDC check' % bad[0]) if bad else None)
        # A7: hasher fed with the MDC header before finalize
        fin = call_blocks(b, r'(Digest|FixedOutput)::finalize')
        upd = call_blocks(b, r'(Digest|Update)::update$')
        ok, wit = must_pass(b, fin, upd) if fin else (False, None)
        ctx.check(P + ':v1:finalize:header-hashed', 'R-seq', 'the two MDC header octets are fed to SHA-1 before finalize in finalize_data',
                  ok and bool(upd), function=b.path)
    sticky_errors(ctx, P)

    b = ctx.body(SD + 'fill_data')
    if b is not None:
        incs = assigns_to_field(b, 'StreamDecryptorInner::Data.data_available')
        ctx.floor(P + ':v1:fill_data:floor', 'stores to data_available in fill_data', len(incs), 2)
        # A4: check-first: is_last_read = const true on the CheckFirst arm
        # find bool locals assigned const 1 in a block and later switched on
        bad = []
        found = 0
        inc_blocks = set(i for i, _ in incs)
        for i, blk in enumerate(b.blocks):
            if blk['c']:
                continue
            for s in blk['s']:
                r = s['r']
                if r['k'] == 'use' and 'k' in r['o'][0] and r['o'][0]['k'].get('ty') == 'bool' and r['o'][0]['k'].get('v') == 1 and not s['d']['pr']:
                    loc = s['d']['l']
                    nm = b.r['locals'][loc].get('n')
                    if nm != 'is_last_read':
                        continue
                    found += 1
                    reach = reach_with_const(b, i, loc, 1)
                    hit = reach & inc_blocks
                    if hit:
                        bad.append(sorted(hit))
        # the const-true assignment must lie in the ProtectedCheckFirst arm: it is control-dependent on MaybeProtected
        ctx.check(P + ':v1:fill_data:checkfirst-releases-nothing', 'dataflow(const-prop)',
                  'on the check-first path (is_last_read = true) no store to data_available is reachable',
                  found >= 1 and not bad, function=b.path, count=found, missing=('data_available increased at %s' % [site(b, x) for h in bad for x in h]) if bad else None)
        # all increments are control dependent on a switch deriving from is_last_read
        for k, (i, s) in enumerate(incs):
            sw = [j for j, t in b.switches() if is_last_read_switch(b, j)]
            ok, wit = must_pass(b, [i], sw)
            ctx.check(P + ':v1:fill_data:release-guarded:%d' % k, 'R-dom', 'a store to data_available is control-dependent on the is_last_read test',
                      ok and bool(sw), function=b.path, site=site(b, i), witness=fmt_path(b, wit) if wit else None)
        # after the source was read, fill_data may only report `is_last_read` as computed from the read (or fail): a constant
        # `Ok(false)` after a read would keep the decryptor in Data forever and the MDC would never be compared
        reads = b.calls(r'fill_buffer_bytes$|fill_buffer$')
        after = b.reach_from([t['t'] for i, t in reads if t['t'] is not None])
        false_exits = [i for i, k, s in b.stmts(lambda s: s['d']['l'] == 0 and s['r']['k'] == 'agg' and s['r'].get('v') == 'Ok'
                                                 and s['r']['o'] and 'k' in s['r']['o'][0] and s['r']['o'][0]['k'].get('v') == 0)]
        late = [i for i in false_exits if i in after]
        ctx.check(P + ':v1:fill_data:no-constant-not-last-after-read', 'R-dom', 'fill_data never returns a constant "not the last read" after it has read from the source (exhaustion always leads to finalize_data)',
                  bool(reads) and not late, function=b.path, site=site(b, late[0]) if late else None, count=len(false_exits))
        upd, dg, can = holdback(ctx, P, b)
        # the hashed/released end is len - MDC_LEN
        subs = b.stmts(lambda s: s['r']['k'] == 'bin' and s['r']['op'] in ('Sub', 'SubWithOverflow') and any('k' in o and o['k'].get('v') == 22 for o in s['r']['o']))
        ctx.check(P + ':v1:fill_data:end-is-len-minus-22', 'origin', 'the release bound in fill_data is computed as len - MDC_LEN',
                  len(subs) >= 1, function=b.path, count=len(subs))

    # A3: Read impls expose only data_available bytes in Data state
    n = 0
    for p, r in ctx.f.bodies.items():
        if r.get('impl_self', '').startswith('crypto::sym::decryptor::StreamDecryptorInner<') and r.get('impl_trait') in ('std::io::Read', 'std::io::BufRead') and r.get('name') in ('read', 'fill_buf', 'read_to_end'):
            b = ctx.wrap(r)
            n += 1
            bad = []
            for i, t in b.calls(r'copy_to_slice$|Index::index$|extend_from_slice$|IndexMut::index_mut$'):
                ogs = set()
                for a in t['args']:
                    ogs |= b.operand_origins(a)
                if has_origin(ogs, r'field:StreamDecryptorInner::Data\.buffer$') and not has_origin(ogs, r'field:StreamDecryptorInner::Data\.data_available$'):
                    bad.append(site(b, i))
            ctx.check(P + ':v1:read-bounded:%s' % r['name'], 'origin', 'in the Data state %s hands out buffer bytes only up to data_available' % r['name'],
                      not bad, function=b.path, missing=bad)
    ctx.floor(P + ':v1:read-impls:floor', 'Read/BufRead impls of StreamDecryptorInner', n, 3)


def holdback(ctx, P, b):
    """The hold-back of the last MDC_LEN octets: hashing / release in fill_data is dominated by the exact `remaining() < MDC_LEN`
    rejection in every protected arm (finalize_data then computes `len - MDC_LEN` and splits there: shared with C04)."""
    # A5 hold-back
    c = ctx.f.consts.get('crypto::sym::decryptor::MDC_LEN')
    ctx.check(P + ':v1:mdc-len-22', 'R-table', 'MDC_LEN == 22 (tag, length, SHA-1)', c is not None and c['v'] == 22, table=c and c['v'])
    upd = call_blocks(b, r'(Digest|Update)::update$')
    dg = [i for i, op, _ in direct_cmp_switches(b, is_call_to(r'Buf::remaining$|BytesMut::len$'), lambda v: v == 22)]
    can = b.can_reach(set(upd))
    dg = [i for i in dg if any(j not in can for j, _ in b.succ(i))]
    ok, wit = must_pass(b, upd, dg)
    ctx.check(P + ':v1:fill_data:holdback-guard', 'R-dom', 'hashing/release in fill_data is dominated by the direct remaining() < MDC_LEN(22) rejection',
              ok and bool(dg) and bool(upd), function=b.path, guards=[site(b, g) for g in dg], sinks=[site(b, u) for u in upd],
              witness=fmt_path(b, wit) if wit else None)
    # ... and that rejection is EXACT: 21 held-back octets are refused, 22 (an MDC with no plaintext in front of it in this
    # fill - a message whose protected data ends exactly at a buffer refill) are accepted.  A stricter test refuses valid messages.
    exact = []
    for g, op, side in direct_cmp_switches(b, is_call_to(r'Buf::remaining$|BytesMut::len$'), lambda v: v == 22):
        if g not in dg:
            continue
        tt = b.blocks[g]['t']
        def taken(x, op=op, side=side, tt=tt, g=g):
            a, c = (x, 22) if side == 0 else (22, x)
            truth = {'Lt': a < c, 'Le': a <= c, 'Gt': a > c, 'Ge': a >= c, 'Eq': a == c, 'Ne': a != c}[op]
            # condition local may be negated before the switch
            neg = False
            for s_ in reversed(b.blocks[g]['s']):
                if s_['d']['l'] == tt['o'].get('l') and s_['r']['k'] == 'un' and s_['r']['op'] == 'Not':
                    neg = True
                break
            val = int(truth != neg)
            for v, bb in tt['targets']:
                if v == val:
                    return bb
            return tt['else']
        exact.append((taken(21) not in can, taken(22) in can))
    good = bool(exact) and any(r21 for r21, a22 in exact) and all(a22 for r21, a22 in exact)
    ctx.check(P + ':v1:fill_data:holdback-guard-exact', 'R-table', 'the hold-back rejection refuses 21 buffered octets and no comparison with MDC_LEN refuses 22 (exactly remaining() < MDC_LEN)',
              good, function=b.path, table=[list(x) for x in exact],
              missing=None if good else 'the comparison of remaining() with MDC_LEN is not `< 22`: a valid message whose last refill holds only the MDC is refused (or a short tail accepted)')
    return upd, dg, can


def is_last_read_switch(b, j):
    t = b.blocks[j]['t']
    o = t['o']
    if 'l' not in o:
        return False
    cand = {o['l']}
    for s in b.blocks[j]['s']:
        if s['d']['l'] == o['l'] and s['r']['k'] in ('un', 'use') and 'l' in s['r']['o'][0]:
            cand.add(s['r']['o'][0]['l'])
    return any(b.r['locals'][c].get('n') == 'is_last_read' for c in cand)


def sticky_errors(ctx, P):
    """The SEIPDv1/SED stream decryptor poisons itself before an error leaves it (a retry after an error can never end cleanly)."""
    sticky_errors_v2(ctx, P)
    b = ctx.body(SD + 'finalize_data')
    if b is not None:
        stick(ctx, P + ':v1:finalize:sticky-error', b)
    b = ctx.body(SD + 'advance_prefix')
    if b is not None:
        stick(ctx, P + ':v1:advance_prefix:sticky-error', b)

    b = ctx.body(SD + 'fill_inner')
    if b is not None:
        # Err from fill_data => *self = Error before returning
        ok = False
        det = {}
        for i, t in b.calls(r'StreamDecryptorInner.*::fill_data$'):
            d = t['d']['l']
            for j, tt in b.switches():
                if j in b.reach_from([t['t']]) and has_origin(b.switch_origins(j), r'call:.*::fill_data$'):
                    names = {}
                    for s in b.blocks[j]['s']:
                        if s['r']['k'] == 'discr' and 'enum' in s['r']:
                            names = {v: n for v, n in s['r']['enum']['vars']}
                    for v, bb in tt['targets']:
                        if names.get(v) == 'Err':
                            errset = [x for x, _, _ in b.constructs(r'StreamDecryptorInner$', 'Error')]
                            rets = b.returns()
                            p_ = b.find_path(bb, set(rets), removed=frozenset(errset))
                            ok = p_ is None and bool(errset)
                            det = dict(witness=fmt_path(b, p_) if p_ else None)
        ctx.check(P + ':v1:fill_inner:sticky-error', 'R-dom', 'an Err from fill_data sets the state to Error before it is returned', ok, function=b.path, **det)


def sticky_errors_v2(ctx, P):
    """The SEIPDv2 / AEAD stream decryptor remembers a failure: the function through which read() and fill_buf() obtain data
    (fill_inner) starts with a test of a bool latch field whose set edge returns Err, and every other Err exit of that function is
    preceded by setting the latch.  Without it, reading again after the final tag was rejected hands out the rest of the buffered
    plaintext and then ends cleanly."""
    rd = ctx.body('<crypto::aead::decryptor::StreamDecryptor<R> as std::io::Read>::read')
    fb = ctx.body('<crypto::aead::decryptor::StreamDecryptor<R> as std::io::BufRead>::fill_buf')
    if rd is None or fb is None:
        return
    def entry_of(x):
        return [t['f'].get('fn') for i, t in x.calls() if (t['f'].get('fn') or '').startswith(AD)][:1]
    e1, e2 = entry_of(rd), entry_of(fb)
    entry = e1[0] if e1 and e1 == e2 else AD + 'fill_inner'
    worker = aead_worker(ctx)
    b = ctx.body(entry)
    if b is None:
        return
    errs = err_exit_blocks(b)
    # candidate latch fields: bool fields of self stored with const true in this function
    stores = {}
    for i, k, s in b.stmts(lambda s: s['d']['l'] == 1 and len(s['d']['pr']) == 2 and s['d']['pr'][0] == '*' and s['r']['k'] == 'use'
                           and 'k' in s['r']['o'][0] and s['r']['o'][0]['k'].get('ty') == 'bool' and s['r']['o'][0]['k'].get('v') in (1, True)):
        stores.setdefault(s['d']['pr'][1], []).append(i)
    best = None
    for fld, sts in sorted(stores.items()):
        name = fld.split('.')[-1]
        gs = [g for g, rej in guard_switches(b, b.returns(), [r'field:StreamDecryptor\.%s$' % re.escape(name)]) ] if False else []
        # entry guard: a switch on the field one of whose edges leads only to Err exits
        guard = None
        for g, t in b.switches():
            if not has_origin(b.switch_origins(g), r'field:StreamDecryptor\.%s$' % re.escape(name)) or has_origin(b.switch_origins(g), r'^call:'):
                continue
            for j, _ in b.succ(g):
                reach = b.reach_from([j])
                rets = [x for x in b.returns() if x in reach]
                if any(e in reach for e in errs) and not [i for i, k_, s_ in b.constructs(r'std::result::Result$', 'Ok') if i in reach]:
                    guard = (g, j)
        if guard is None:
            continue
        latch_errs = set(e for e in errs if e in b.reach_from([guard[1]]))
        other = [e for e in errs if e not in latch_errs]
        ok, wit = must_pass(b, other, sts) if other else (False, None)
        best = (name, guard, ok, wit, len(other))
        if ok:
            break
    through = bool(e1) and e1 == e2
    if entry != worker:
        # the worker is reachable only through the latching entry
        callers = sorted(p for p, r in ctx.f.bodies.items() if p != worker and ctx.wrap(r).calls(re.escape(worker) + '$'))
        through = through and callers == [entry]
    ctx.check(P + ':v2:sticky-error', 'R-dom', 'the AEAD stream decryptor latches a failure: fill_inner rejects at entry once the latch is set, and every other error exit sets it first; read() and fill_buf() go through fill_inner',
              best is not None and best[2] and through, function=b.path, latch=best[0] if best else None, error_exits=best[4] if best else len(errs),
              witness=fmt_path(b, best[3]) if best and best[3] else None,
              missing=None if (best and best[2] and through) else ('no bool field of the decryptor is tested at entry with an error edge and set before the other %d error exits' % len(errs)))


def stick(ctx, key, b):
    """mem::replace(self, Error) happens before any fallible call: every Err exit passes through it."""
    reps = []
    for i, t in b.calls(r'std::mem::replace$'):
        og = set()
        for a in t['args']:
            og |= b.operand_origins(a)
        if has_origin(og, r'agg:.*StreamDecryptorInner::Error$'):
            reps.append(i)
    errs = err_exit_blocks(b)
    ok, wit = must_pass(b, errs, reps) if errs else (True, None)
    ctx.check(key, 'R-dom', 'every error exit of %s happens after the state was replaced by Error' % b.path.split('::')[-1],
              bool(reps) and ok, function=b.path, witness=fmt_path(b, wit) if wit else None)


def aead_worker(ctx):
    """The function of the AEAD stream decryptor that pulls ciphertext from the source (located by what it does, not by name)."""
    c = [p for p, r in sorted(ctx.f.bodies.items()) if p.startswith(AD) and r['kind'] != 'Closure' and ctx.wrap(r).calls(r'fill_buffer_bytes$')]
    return c[0] if len(c) == 1 else AD + 'fill_inner'


def seipdv2(ctx, P):
    worker = aead_worker(ctx)
    b = ctx.body(worker)
    if b is not None:
        oks = ok_exit_blocks(b)
        reads = b.calls(r'fill_buffer_bytes$')
        ctx.floor(P + ':v2:fill_inner:floor', 'fill_buffer_bytes call in aead fill_inner', len(reads), 1)
        gs = [g for g, _ in guard_switches(b, oks, [r'call:.*StreamDecryptor.*::decrypt(_last)?$'])]
        bad = None
        for i, t in reads:
            p_ = b.find_path(t['t'], set(oks), removed=frozenset(gs))
            if p_ is not None:
                bad = p_
        ctx.check(P + ':v2:fill_inner:ok-only-after-decrypt', 'R-dom',
                  'after reading ciphertext, fill_inner returns Ok only through decrypt()/decrypt_last() with the error propagated',
                  bad is None and bool(gs), function=b.path, guards=[site(b, g) for g in gs], witness=fmt_path(b, bad) if bad else None)
        # is_source_done := true only on the decrypt_last path
        st = assigns_to_field(b, 'StreamDecryptor.is_source_done')
        gl = [g for g, _ in guard_switches(b, oks, [r'call:.*StreamDecryptor.*::decrypt_last$'])]
        bad = None
        for i, s in st:
            p_ = b.find_path(i, set(oks), removed=frozenset(gl))
            if p_ is not None and not (i in gl):
                bad = p_
        ctx.check(P + ':v2:fill_inner:source-done-needs-final-tag', 'R-dom',
                  'once is_source_done is set, Ok is returned only if decrypt_last succeeded', bool(st) and bad is None and bool(gl), function=b.path,
                  witness=fmt_path(b, bad) if bad else None)
        dl = call_blocks(b, r'::decrypt_last$')
        dg = [i for i, op, _ in direct_cmp_switches(b, is_call_to(r'Buf::remaining$|BytesMut::len$'), lambda v: v == 16)]
        can = b.can_reach(set(dl))
        dg = [i for i in dg if any(j not in can for j, _ in b.succ(i))]
        ok, wit = must_pass(b, dl, dg)
        ctx.check(P + ':v2:fill_inner:enough-data-for-tag', 'R-dom', 'the direct remaining() < AEAD_TAG_SIZE(16) rejection dominates decrypt_last',
                  ok and bool(dg) and bool(dl), function=b.path, guards=[site(b, g) for g in dg], witness=fmt_path(b, wit) if wit else None)
    # who writes is_source_done
    writers = []
    for p, r in ctx.f.bodies.items():
        if not p.startswith('crypto::aead::decryptor::'):
            continue
        bb = ctx.wrap(r)
        if assigns_to_field(bb, 'StreamDecryptor.is_source_done') or any(
                s['r']['k'] == 'agg' and s['r'].get('adt', '').endswith('decryptor::StreamDecryptor') for blk in bb.blocks for s in blk['s']):
            writers.append(p)
    ctx.check(P + ':v2:who-writes-source-done', 'R-who', 'is_source_done is written only by fill_inner (and initialised by the constructors)',
              sorted(writers) == sorted([worker, AD + 'new_gnupg', AD + 'new_rfc9580']), table=sorted(writers))
    c = ctx.f.consts.get('crypto::aead::decryptor::AEAD_TAG_SIZE')
    ctx.check(P + ':v2:tag-size-16', 'R-table', 'AEAD_TAG_SIZE == 16', c is not None and c['v'] == 16)

    b = ctx.body(AD + 'decrypt_last')
    if b is not None:
        oks = ok_exit_blocks(b)
        rdom(ctx, P + ':v2:decrypt_last:final-tag-checked', b, oks, [r'call:.*AeadAlgorithm::decrypt_in_place$'],
             'decrypt_last returns Ok only after the final tag verified (error propagated)')
        for i, t in b.calls(r'AeadAlgorithm::decrypt_in_place$'):
            ad = b.operand_origins(t['args'][4])
            buf = b.operand_origins(t['args'][5])
            nonce = b.operand_origins(t['args'][3])
            ctx.check(P + ':v2:decrypt_last:ad-binds-length-and-info', 'origin', 'final tag AD derives from `written` (total plaintext octets) and the info octets',
                      has_origin(ad, r'field:StreamDecryptor\.written$') and has_origin(ad, r'call:.*ModeData::info$'), function=b.path, site=site(b, i))
            ctx.check(P + ':v2:decrypt_last:tag-is-split-off-tail', 'origin', 'the final tag buffer is the split-off AEAD_TAG_SIZE tail',
                      has_origin(buf, r'call:.*BytesMut::split_off$'), function=b.path, site=site(b, i))
            ctx.check(P + ':v2:decrypt_last:nonce', 'origin', 'final tag nonce derives from the running nonce', has_origin(nonce, r'call:.*ModeData::nonce$'), function=b.path)
        # all remaining ciphertext is decrypted first: loop guard on in_buffer_end before the final tag
        fin = call_blocks(b, r'AeadAlgorithm::decrypt_in_place$')
        lg = [i for i, t in b.switches() if has_origin(b.switch_origins(i), r'field:StreamDecryptor\.in_buffer_end$')]
        ok, wit = must_pass(b, fin, lg)
        ctx.check(P + ':v2:decrypt_last:drain-loop', 'R-dom', 'the final tag is checked only after the in_buffer_end > 0 loop', ok and bool(lg) and bool(b.calls(r'StreamDecryptor.*::decrypt$')), function=b.path)
        # ... and that loop is left only when NOTHING is left: the guard compares in_buffer_end with 0, so octets between the last chunk and
        # the final tag are handed to decrypt() (authenticated or rejected), never skipped
        zero = [g for g, op, side in direct_cmp_switches(b, lambda k, v: k == 'place' and bool(v.get('pr')) and v['pr'][-1].endswith('.in_buffer_end'), lambda c: c == 0)]
        other = [g for g in lg if g not in zero]
        okz, _ = must_pass(b, fin, zero) if zero else (False, None)
        ctx.check(P + ':v2:decrypt_last:drains-to-zero', 'R-dom', 'the drain loop before the final tag ends only at in_buffer_end == 0 (no ciphertext octet before the final tag is skipped)',
                  okz and not other, function=b.path, guards=[site(b, g) for g in zero],
                  missing=None if (okz and not other) else 'the loop guard is not a comparison of in_buffer_end with 0')

    b = ctx.body(AD + 'decrypt')
    if b is not None:
        oks = ok_exit_blocks(b)
        rdom(ctx, P + ':v2:decrypt:chunk-tag-checked', b, oks, [r'call:.*AeadAlgorithm::decrypt_in_place$'], 'decrypt returns Ok only after the chunk tag verified')
        for i, t in b.calls(r'AeadAlgorithm::decrypt_in_place$'):
            ctx.check(P + ':v2:decrypt:nonce-arg', 'origin', 'chunk nonce derives from mode_data.nonce()',
                      has_origin(b.operand_origins(t['args'][3]), r'call:.*ModeData::nonce$'), function=b.path, site=site(b, i))
            ctx.check(P + ':v2:decrypt:ad-arg', 'origin', 'chunk AD derives from mode_data.info()',
                      has_origin(b.operand_origins(t['args'][4]), r'call:.*ModeData::info$'), function=b.path, site=site(b, i))
        for fld in ('chunk_index', 'written'):
            st = [i for i, _ in assigns_to_field(b, 'StreamDecryptor.' + fld)]
            ok, wit = must_pass(b, oks, st)
            ctx.check(P + ':v2:decrypt:updates-%s' % fld, 'R-dom', 'every Ok exit of decrypt has updated %s' % fld, ok and bool(st), function=b.path,
                      witness=fmt_path(b, wit) if wit else None)
    chunk_nonce(ctx, P)


def chunk_encrypt_step(ctx):
    """The function of the SEIPDv2 stream encryptor that pulls the source and encrypts a data chunk (found by what it does, not by name)."""
    for p, r in sorted(ctx.f.bodies.items()):
        if p.startswith('crypto::aead::encryptor::StreamEncryptor::<R>::') and r['kind'] != 'Closure':
            b = ctx.wrap(r)
            if b.calls(r'AeadAlgorithm::encrypt_in_place$') and b.calls(r'util::fill_buffer$|io::Read::read$'):
                return b
    return None


def chunk_nonce(ctx, P):
    """RFC 9580 §5.13.2: the chunk nonce is the derived IV followed by the big-endian 64-bit chunk index.  Both stream directions
    overwrite the last eight nonce octets from the incremented index (copy, not a running XOR) on every successful step."""
    import re as _re
    for path, nm, fld in ((AD + 'decrypt', 'decrypt', r'field:ModeData::(Rfc9580|Gnupg)\.(nonce|info)$'),
                          (None, 'encrypt', r'field:StreamEncryptor\.nonce$')):
        b = ctx.body(path) if path else chunk_encrypt_step(ctx)
        if b is None:
            ctx.check(P + ':v2:%s:anchor' % nm, 'R-table', 'the chunk %s step is found' % nm, False, missing='no function of the stream %sor pulls the source and runs the chunk primitive' % nm[:-1] if nm == 'encrypt' else path)
            continue
        oks = ok_exit_blocks(b)
        cps = []
        for i, t in b.calls(r'copy_from_slice$'):
            og = set()
            for a in t['args']:
                og |= b.operand_origins(a)
            if has_origin(og, r'call:.*u64::to_be_bytes$|call:.*to_be_bytes$') and has_origin(og, fld):
                cps.append(i)
        xor = [i for i, k, s in b.stmts(lambda s: s['r']['k'] == 'bin' and s['r']['op'] == 'BitXor')]
        # the GnuPG flavour XORs the index into a fresh copy of the IV (documented); the RFC 9580 arm must not depend on XOR at all
        sinks = oks if nm == 'decrypt' else [i for i, t in b.calls(r'AeadAlgorithm::encrypt_in_place$')] or oks
        # a helper that receives the nonce may do the rewrite (one level): it must copy to_be_bytes of its index parameter
        helper = []
        for i, t in b.calls():
            callee = t['f'].get('res') or t['f'].get('fn')
            if callee in ctx.f.bodies and callee != b.path and any(has_origin(b.operand_origins(a), fld) for a in t['args']):
                hb = ctx.wrap(ctx.f.bodies[callee])
                hc = [j for j, tt in hb.calls(r'copy_from_slice$')
                      if has_origin(set().union(*[hb.operand_origins(a) for a in tt['args']]), r'call:.*to_be_bytes$')]
                if hc and must_pass(hb, hb.returns(), hc)[0]:
                    cps.append(i)
                elif hb.stmts(lambda s: s['r']['k'] == 'bin' and s['r']['op'] == 'BitXor'):
                    helper.append(callee)
        if nm == 'decrypt':
            ok, wit = must_pass(b, oks, cps + xor)
        else:
            # after every encrypted chunk the nonce is rewritten before the function can return Ok
            ok, wit = True, None
            for e in [i for i, t in b.calls(r'AeadAlgorithm::encrypt_in_place$')]:
                w = b.find_path(b.blocks[e]['t']['t'], set(oks), removed=frozenset(cps))
                if w is not None and len(cps) == 0:
                    ok, wit = False, w
        ctx.check(P + ':v2:%s:nonce-gets-chunk-index' % nm, 'R-dom', 'every successful %s step rewrites the last eight nonce octets from the incremented chunk index (copy of to_be_bytes)' % nm,
                  ok and len(cps) >= 1 and not helper, function=b.path, witness=fmt_path(b, wit) if wit else None, count=len(cps),
                  missing=('%s combines the index into the nonce with XOR instead of overwriting the last eight octets' % helper) if helper else None)
        inc = [i for i, k, s in b.stmts(lambda s: s['r']['k'] == 'bin' and s['r']['op'].startswith('Add') and any('k' in o and o['k'].get('v') == 1 for o in s['r']['o']))
               if has_origin(b.operand_origins(b.blocks[i]['s'][k]['r']['o'][0]), r'field:.*\.chunk_index$')]
        ctx.check(P + ':v2:%s:chunk-index-incremented' % nm, 'R-table', 'the chunk index advances by exactly one per chunk in %s' % nm, len(inc) >= 1, function=b.path)


def primitive(ctx, P):
    b = ctx.body('crypto::aead::AeadAlgorithm::decrypt_in_place')
    if b is None:
        return
    oks = ok_exit_blocks(b)
    prim = call_blocks(b, r'AeadInPlace::decrypt_in_place$')
    ctx.floor(P + ':prim:floor', 'primitive decrypt_in_place calls (3 modes x 3 key sizes)', len(prim), 9)
    ok, wit = must_pass(b, oks, prim)
    ctx.check(P + ':prim:ok-only-from-primitive', 'R-dom', 'AeadAlgorithm::decrypt_in_place has no Ok exit that bypasses a primitive call', ok, function=b.path,
              witness=fmt_path(b, wit) if wit else None)
    # the returned value derives from the primitive's result (map_err pass-through)
    good = True
    for i in oks:
        t = b.blocks[i]['t']
        if t['k'] == 'call' and t['d']['l'] == 0:
            og = set()
            for a in t['args']:
                og |= b.operand_origins(a)
            good &= has_origin(og, r'call:.*AeadInPlace::decrypt_in_place$')
        else:
            good = False
    ctx.check(P + ':prim:result-is-primitive-result', 'origin', 'the value returned is the primitive result mapped with map_err', good and bool(oks), function=b.path)
    # each primitive call receives the caller's nonce, AD and buffer
    bad = []
    for i, t in b.calls(r'AeadInPlace::decrypt_in_place$'):
        a = t['args']
        if not (has_origin(b.operand_origins(a[1]), r'param:4') and has_origin(b.operand_origins(a[2]), r'param:5') and has_origin(b.operand_origins(a[3]), r'param:6')):
            bad.append(site(b, i))
    ctx.check(P + ':prim:args-forwarded', 'origin', 'every primitive call gets the nonce, associated data and buffer parameters', not bad, function=b.path, missing=bad)


def trailing(ctx, P):
    # Message::{read, fill_buf, read_to_end}: zero-length / end results come after check_trailing_data
    n = 0
    for p, r in ctx.f.bodies.items():
        if r.get('impl_self', '').startswith('composed::message::types::Message<') and r.get('impl_trait') in ('std::io::Read', 'std::io::BufRead') and r.get('name') in ('read', 'fill_buf', 'read_to_end', 'read_to_string'):
            b = ctx.wrap(r)
            cs = b.calls(r'check_trailing_data$')
            n += 1 if cs else 0
            if not cs:
                ctx.functions.discard(p)
                continue
            # the error of check_trailing_data is propagated
            oks = ok_exit_blocks(b)
            gs = guard_switches(b, oks, [r'call:.*check_trailing_data$'])
            ctx.check(P + ':trailing:%s' % r['name'], 'R-dom', 'Message::%s propagates the trailing-data check' % r['name'], bool(gs), function=b.path,
                      guards=[site(b, g) for g, _ in gs])
    ctx.floor(P + ':trailing:floor', 'Message Read/BufRead methods calling check_trailing_data', n, 3)
    # a 0-octet result of read() means end of stream only if octets were asked for: the end-of-stream action of Message::read (which
    # parses whatever follows in the source as trailing packets) must not be triggered by a read into an empty buffer
    for p, r in ctx.f.bodies.items():
        if r.get('impl_self', '').startswith('composed::message::types::Message<') and r.get('impl_trait') == 'std::io::Read' and r.get('name') == 'read':
            b = ctx.wrap(r)
            cs = call_blocks(b, r'check_trailing_data$')
            gs = [g for g, _ in guard_switches(b, cs, [r'param:2$', r'call:.*(is_empty|::len)$|len$'])] if cs else []
            ok, wit = must_pass(b, cs, gs) if gs else (False, None)
            ctx.check(P + ':trailing:read:not-on-empty-request', 'R-dom', 'Message::read runs its end-of-stream check only when a non-empty buffer was offered (read(&mut []) returning 0 is not the end)',
                      ok, function=b.path, site=site(b, cs[0]) if cs else None,
                      missing=None if ok else '`if read == 0 { check_trailing_data() }` also fires for an empty `buf`: mid-stream it parses message data as trailing packets and fails with "unexpected trailing bytes found"')
    # sibling rule: all three consumer paths of Message (read, read_to_end, fill_buf) carry the check
    have = set()
    for p, r in ctx.f.bodies.items():
        if r.get('impl_self', '').startswith('composed::message::types::Message<') and r.get('impl_trait') in ('std::io::Read', 'std::io::BufRead') \
                and ctx.wrap(r).calls(r'check_trailing_data$'):
            have.add(r.get('name'))
    ctx.check(P + ':trailing:all-consumer-paths', 'R-sib', 'read, read_to_end and fill_buf of Message all end through check_trailing_data (no consumer path reports a clean end over trailing data)',
              {'read', 'read_to_end', 'fill_buf'} <= have, table=sorted(have), missing=sorted({'read', 'read_to_end', 'fill_buf'} - have) or None)
