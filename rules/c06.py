"""C06 Signature completeness — NARROW structural clauses only (DESIGN §11.8)."""
from rules import sig, c11, c14, c16

EXPLANATION = ("Decides narrow structural clauses of C06, not sign/verify agreement on all inputs: sign-side and verify-side twins feed the same "
               "abstract sequence of frames to the digest (key frames, certification prefixes, hashed fields, trailer, v6 salt first); every site "
               "that canonicalises document data selects it by the signature type being Text and targets CRLF; the streaming canonicaliser used "
               "by the signers adds nothing at end of input and keeps its carry discipline (shared with C14) so that it cannot differ from the "
               "reader-based canonicaliser of the verifiers by construction of an extra octet; the cleartext framework signs the very form its "
               "verifier derives; the key/signature version guards of the sign side and the verify side are both present (what is signed is not "
               "refused for its version). Not decided: equality of the canonicalisers on every input and chunking.")
ASSUMPTIONS = ["origin analysis is flow-insensitive", "digest crates are deterministic"]


def run(ctx):
    P = 'C06'
    c11.twins(ctx, P)
    c11.hashed_subpackets_all_fed(ctx, P)
    sig.text_mode_selection(ctx, P)
    sig.salt_fed_at_every_hasher(ctx, P)
    sig.salt_length_checked_where_hashed(ctx, P)
    sig.hash_dispatch_tables_agree(ctx, P)
    sig.onepass_match_depends_on_header_fields_only(ctx, P)
    c11.salt_tables(ctx, P)
    c14.hasher_rules(ctx, P)
    c14.reader_rules(ctx, P)
    c14.one_batch_routine(ctx, P)
    c16.same_form(ctx, P)
    c16.trim_set(ctx, P)
    sig.s15_4_version_alignment_verify(ctx, P)
    sig.s15_5_version_alignment_sign(ctx, P)
    sig.s02_11_every_key_tries_every_signature(ctx, P)
    sig.s02_9_parallel_slots(ctx, P)
    # what a verifier refuses in the subpacket areas (unknown critical subpacket, issuer fingerprint of another version) the signer
    # refuses too, because both make that decision in the one function all of them pass: hash_signature_data (shared with C15)
    from rules import c15
    c15.s15_6(ctx, P)
