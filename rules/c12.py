"""C12 Symmetric and KDF constructions — NARROW structural claim (framing constants, field order, single derivation).

The digest / ciphertext values themselves are not decided (DESIGN §5 C12): only the part of the construction that is visible
as constants and argument order in the code, and the fact that both directions use one derivation (or agree as siblings)."""
import re
from rules.common import (call_blocks, ok_exit_blocks, site, arm_context, single_defs, resolve_value)
from core import guard_switches, must_pass, fmt_path, has_origin

EXPLANATION = ("Decides narrow structural clauses of C12, not the byte streams: the inputs of the KDF / AEAD constructions are assembled from "
               "the RFC 9580 constants in the RFC order — HKDF info of SEIPDv2 = (packet type, 0x02, cipher, AEAD mode, chunk size), of SKESK "
               "v6 = (packet type, 0x06, cipher, mode) and v5 AD = (packet type, 0x05, cipher, mode), identically on the encrypt and decrypt "
               "side; the coded S2K count decodes as (16 + (c & 15)) << ((c >> 4) + 6); every S2K round hashes its zero-octet prefix before "
               "salt then passphrase; the iterated count is raised to at least one full salt+passphrase; the MDC trailer octets are 0xD3 0x14 "
               "on both sides; the ECDH KDF input is 00 00 00 01 || Z || param with param = (OID length, OID, 18, 03 01 hash cipher, the "
               "anonymous-sender string, fingerprint); encryptor and decryptor share aead_setup_rfc9580. Not decided: equality of the "
               "resulting keys / ciphertexts with an independent implementation for every parameter point.")
ASSUMPTIONS = ["hkdf, sha2, aes-kw, argon2 crates implement their primitives", "constants are compared as written in the code (values, order), not their effect"]


def array_elems(b, s, defs):
    out = []
    for o in s['r']['o']:
        k, v = resolve_value(b, o, defs)
        if k == 'const':
            out.append(v)
        else:
            og = b.operand_origins(o)
            toks = sorted(x for x in og if x.startswith(('param:', 'call:', 'field:')))
            out.append('|'.join(t.split('::')[-1] if t.startswith('call:') else t for t in toks)[:80])
    return out


def arrays(b, n):
    defs = single_defs(b)
    return [(i, array_elems(b, s, defs)) for i, k, s in b.stmts(lambda s: s['r']['k'] == 'agg' and s['r'].get('ak') == 'array' and len(s['r']['o']) == n)]


def run(ctx):
    P = 'C12'
    seipdv2(ctx, P)
    skesk(ctx, P)
    algorithm_tables(ctx, P)
    from rules import tables
    tables.bit_counts_round_up(ctx, P)
    derived_key_sized_by_the_cipher_in_use(ctx, P)
    from rules import c11 as _c11
    _c11.hash_tables(ctx, P)        # digest_size() decides how many S2K hash contexts are run and where each output is cut
    from rules.tables import rfc_id_tables
    rfc_id_tables(ctx, P, only=r'SymmetricKeyAlgorithm|AeadAlgorithm|HashAlgorithm|PublicKeyAlgorithm')
    secret_key_aead(ctx, P)
    s2k(ctx, P)
    mdc(ctx, P)
    ecdh(ctx, P)
    from rules import c03
    c03.chunk_nonce(ctx, P)


def seipdv2(ctx, P):
    # -- SEIPDv2 HKDF info ------------------------------------------------------------------------------------
    b = ctx.body('crypto::aead::aead_setup_rfc9580')
    if b is not None:
        arrs = arrays(b, 5)
        good = False
        for i, el in arrs:
            good |= ('encode' in str(el[0]) and el[1] == 2 and 'param:1' in str(el[2]) and 'param:2' in str(el[3]) and 'param:3' in str(el[4]))
        ctx.check(P + ':seipdv2:hkdf-info', 'R-table', 'SEIPDv2 HKDF info is (packet type, 0x02, cipher, AEAD mode, chunk size) in this order', good, function=b.path,
                  table=[el for i, el in arrs])
        hk = b.calls(r'Hkdf::<.*>::new$|hkdf::Hkdf')
        ex = b.calls(r'::expand$')
        salt_ikm = any(has_origin(b.operand_origins(t['args'][0]), r'param:4$') and has_origin(b.operand_origins(t['args'][1]), r'param:5$') for i, t in hk if len(t['args']) > 1)
        ctx.check(P + ':seipdv2:hkdf-salt-ikm', 'origin', 'HKDF is keyed with (salt, session key) and expanded with the info', bool(hk) and bool(ex) and salt_ikm, function=b.path)
        subs = b.stmts(lambda s: s['r']['k'] == 'bin' and s['r']['op'] in ('Sub', 'SubWithOverflow') and any('k' in o and o['k'].get('v') == 8 for o in s['r']['o'][1:]))
        ctx.check(P + ':seipdv2:iv-is-nonce-minus-8', 'R-table', 'the derived IV part is nonce_size - 8 octets (the last 8 carry the chunk index)', bool(subs) and bool(b.calls(r'AeadAlgorithm::nonce_size$')), function=b.path)
    users = sorted(p for p, r in ctx.f.bodies.items() if ctx.wrap(r).calls(r'aead::aead_setup_rfc9580$'))
    ctx.check(P + ':seipdv2:single-derivation', 'R-who', 'the SEIPDv2 encryptor and decryptor share aead_setup_rfc9580',
              any('encryptor' in u for u in users) and any('decryptor' in u for u in users), table=users)
    for u in users:
        if 'encryptor' not in u and 'decryptor' not in u:
            ctx.functions.discard(u)
    # RFC 9580 5.13.2: the plaintext is cut into chunks and "a final, zero-octet chunk" carries only the final tag.  A data chunk is
    # never empty: the encryptor must not run a 0-octet read through the chunk encryption (that emits a stray 16-octet chunk and
    # advances the chunk index, so the final tag is computed for index k+1 - another stream than the RFC one for payloads that end
    # on a chunk boundary).  The chunk encryption is dominated by a direct test of the read count against 0.
    from rules import panics
    from rules.common import direct_cmp_switches
    from rules.c03 import chunk_encrypt_step
    eb = chunk_encrypt_step(ctx)
    if eb is None:
        ctx.check(P + ':seipdv2:no-empty-data-chunk', 'R-dom', 'the SEIPDv2 chunk encryption step is found', False, missing='no function of the stream encryptor pulls the source and runs the chunk primitive')
    else:
        pulls = eb.calls(r'util::fill_buffer$|io::Read::read$')
        cp = set()
        for i, t in pulls:
            cp |= panics.copies_of(eb, t['d']['l'])
        after = eb.reach_from([t['t'] for i, t in pulls if t['t'] is not None]) if pulls else set()
        sinks = [i for i, t in eb.calls(r'AeadAlgorithm::encrypt_in_place$') if i in after]
        can = eb.can_reach(set(sinks))
        guards = []
        for g, op, side in direct_cmp_switches(eb, lambda k, v: k == 'place' and 'l' in v and v['l'] in cp, lambda c: c == 0):
            if any(j not in can for j, _ in eb.succ(g)):
                guards.append(g)
        ok, wit = must_pass(eb, sinks, guards, start=eb.blocks[pulls[0][0]]['t']['t']) if (sinks and pulls) else (False, None)
        ctx.check(P + ':seipdv2:no-empty-data-chunk', 'R-dom', 'the SEIPDv2 encryptor encrypts a chunk only after testing that the read delivered octets (a 0-octet read leads to the final tag, not to an empty chunk)',
                  ok and bool(guards), function=eb.path, site=site(eb, sinks[0]) if sinks else None, witness=fmt_path(eb, wit) if wit else None,
                  missing=None if (ok and guards) else 'no direct `read == 0` test between the read and the chunk encryption: a payload that ends on a chunk boundary gets an extra empty chunk')


RFC_KEY_SIZE = {'Plaintext': 0, 'IDEA': 16, 'TripleDES': 24, 'CAST5': 16, 'Blowfish': 16, 'AES128': 16, 'AES192': 24, 'AES256': 32, 'Twofish': 32,
                'Camellia128': 16, 'Camellia192': 24, 'Camellia256': 32}
RFC_BLOCK_SIZE = {'Plaintext': 0, 'IDEA': 8, 'TripleDES': 8, 'CAST5': 8, 'Blowfish': 8, 'AES128': 16, 'AES192': 16, 'AES256': 16, 'Twofish': 16,
                  'Camellia128': 16, 'Camellia192': 16, 'Camellia256': 16}
RFC_AEAD_NONCE = {'Eax': 16, 'Ocb': 15, 'Gcm': 12}


def algorithm_tables(ctx, P):
    """RFC 9580 §9.3 / §5.13: key and block sizes per cipher, nonce sizes per AEAD mode (tables read off the match arms)."""
    from rules.tables import variant_to_int_table
    for path, want, nm in (('crypto::sym::SymmetricKeyAlgorithm::key_size', RFC_KEY_SIZE, 'key-size'),
                           ('crypto::sym::SymmetricKeyAlgorithm::block_size', RFC_BLOCK_SIZE, 'block-size'),
                           ('crypto::aead::AeadAlgorithm::nonce_size', RFC_AEAD_NONCE, 'aead-nonce-size'),
                           ('crypto::aead::AeadAlgorithm::iv_size', RFC_AEAD_NONCE, 'aead-iv-size')):
        b = ctx.body(path)
        if b is None:
            ctx.missing(P + ':alg-table:' + nm, path + ' not found')
            continue
        t = variant_to_int_table(b)
        bad = {v: t.get(v) for v, n in want.items() if t.get(v) != n}
        extra = {v: n for v, n in t.items() if v not in want and n not in (0, 'derived')}
        ctx.check(P + ':alg-table:' + nm, 'R-table', '%s per algorithm equals the RFC 9580 table; unknown / private ids get 0' % nm, not bad and not extra, function=path,
                  table=t, missing=(bad or extra) or None)


def secret_key_aead(ctx, P):
    """RFC 9580 §3.7.2.1: HKDF info and the first octet of the associated data of AEAD-protected secret key material are the
    packet type ID in OpenPGP format, i.e. 0xC0 | tag of the packet that is protected (0xC5 secret key, 0xC7 secret subkey) —
    computed from the tag parameter, not a constant per call."""
    b = ctx.body('types::params::plain_secret::s2k_usage_aead')
    if b is None:
        return
    ors = [(i, s_) for i, k, s_ in b.stmts(lambda s: s['r']['k'] == 'bin' and s['r']['op'] == 'BitOr'
                                          and any('k' in o and o['k'].get('v') == 0xC0 for o in s['r']['o']))]
    good_or = [i for i, s_ in ors if any(has_origin(b.operand_origins(o), r'param:2$') and has_origin(b.operand_origins(o), r'callres:.*From<types::packet::Tag> for u8>::from$') for o in s_['r']['o'] if 'l' in o)]
    a4 = arrays(b, 4)
    a1 = arrays(b, 1)
    def from_tag(i, idx, n):
        for bi, k, st in b.stmts(lambda s: s['r']['k'] == 'agg' and s['r'].get('ak') == 'array' and len(s['r']['o']) == n):
            if bi == i:
                og = b.operand_origins(st['r']['o'][idx])
                return has_origin(og, r'op:BitOr$') and has_origin(og, r'const:192:u8$') and has_origin(og, r'param:2$')
        return False
    info_ok = any(from_tag(i, 0, 4) and 'version' in str(el[1]) and 'param:4' in str(el[2]) and 'param:5' in str(el[3]) for i, el in a4)
    ad_ok = any(from_tag(i, 0, 1) for i, el in a1)
    ctx.check(P + ':secret-aead:type-id-from-tag', 'R-table', 'the packet type ID octet is 0xC0 | u8::from(secret_tag) (distinct for secret keys and secret subkeys)', bool(good_or), function=b.path)
    ctx.check(P + ':secret-aead:hkdf-info', 'R-table', 'HKDF info is (type id, key version, cipher, AEAD mode) with the type id computed from the tag', info_ok, function=b.path, table=[el for i, el in a4])
    ctx.check(P + ':secret-aead:ad-starts-with-type-id', 'R-table', 'the associated data starts with the same type id octet, followed by the serialised public key', ad_ok and bool(b.calls(r'Serialize::to_writer$')), function=b.path)


def skesk(ctx, P):
    # -- SKESK v5 / v6 info, both directions ------------------------------------------------------------------
    tabs = {}
    for path in ('packet::sym_key_encrypted_session_key::SymKeyEncryptedSessionKey::decrypt', 'packet::sym_key_encrypted_session_key::SymKeyEncryptedSessionKey::encrypt_v6'):
        b = ctx.body(path)
        if b is None:
            continue
        arrs = arrays(b, 4)
        tabs[path.split('::')[-1]] = sorted(set((el[1],) + tuple('encode' in str(el[0]) and 1 or 0 for _ in [0]) for i, el in arrs if isinstance(el[1], int)))
    ctx.check(P + ':skesk:info-versions', 'R-sib', 'SKESK info / AD arrays are (packet type, version, cipher, mode): version octets 5 and 6 on the decrypt side, 6 on the v6 encrypt side',
              tabs.get('decrypt') == [(5, 1), (6, 1)] and tabs.get('encrypt_v6') == [(6, 1)], table={k: [list(x) for x in v] for k, v in tabs.items()})


def s2k(ctx, P):
    # -- S2K ---------------------------------------------------------------------------------------------------
    cands = [p for p in ctx.f.bodies if p.endswith('derive_key::decode_count')]
    b = ctx.body(cands[0]) if cands else None
    if b is not None:
        consts = sorted(o['k']['v'] for blk in b.blocks for s in blk['s'] if s['r']['k'] == 'bin' for o in s['r']['o'] if 'k' in o and 'v' in o['k'])
        ops = sorted(set(s['r']['op'].replace('WithOverflow', '').replace('Unchecked', '') for blk in b.blocks for s in blk['s'] if s['r']['k'] == 'bin'))
        eb = ctx.f.consts.get('types::s2k::EXPBIAS')
        ctx.check(P + ':s2k:decode-count', 'R-table', 'coded count decodes as (16 + (c & 15)) << ((c >> 4) + EXPBIAS) with EXPBIAS == 6',
                  {4, 15, 16} <= set(consts) and {'Add', 'BitAnd', 'Shl', 'Shr'} <= set(ops) and eb is not None and eb['v'] == 6, function=b.path, table=dict(consts=consts, ops=ops, expbias=eb and eb['v']))
    else:
        ctx.missing(P + ':s2k:decode-count', 'decode_count not found')
    b = ctx.body('types::s2k::StringToKey::derive_key')
    if b is not None:
        dom = b.dominators()
        ups = b.calls(r'DynDigest::update$')
        nh = call_blocks(b, r'HashAlgorithm::new_hasher$')
        # zero prefix fed first in each round: the first update after new_hasher takes the zeros buffer
        zero_first = False
        for i, t in ups:
            og = b.operand_origins(t['args'][1])
            if has_origin(og, r'call:.*vec::from_elem$') and not has_origin(og, r'param:2$'):
                ok, _ = must_pass(b, [j for j, _ in ups if j != i], [i])
                zero_first = zero_first or ok
        ctx.check(P + ':s2k:zero-prefix-first', 'R-seq', 'every S2K round feeds its zero-octet prefix to the fresh hasher before salt / passphrase', zero_first and bool(nh), function=b.path)
        # salted arm: salt then passphrase
        order_ok = True
        seen = 0
        for arm in ('Salted',):
            arm_ups = [(i, t) for i, t in ups if any(a == 'StringToKey' and vs == [arm] for a, vs in arm_context(b, i, dom))]
            salt = [i for i, t in arm_ups if has_origin(b.operand_origins(t['args'][1]), r'field:StringToKey::Salted\.salt$')]
            pw = [i for i, t in arm_ups if has_origin(b.operand_origins(t['args'][1]), r'param:2$') and not has_origin(b.operand_origins(t['args'][1]), r'field:StringToKey::Salted\.salt$')]
            seen += len(salt) + len(pw)
            ok, _ = must_pass(b, pw, salt) if pw and salt else (False, None)
            order_ok &= ok
        ctx.check(P + ':s2k:salt-before-passphrase', 'R-seq', 'salted S2K hashes the salt before the passphrase', order_ok and seen >= 2, function=b.path)
        # iterated: count raised to at least one full salt+passphrase
        defs = single_defs(b)
        clamp = False
        for i, t in b.switches():
            og = b.switch_origins(i)
            if has_origin(og, r'call:.*decode_count$') and has_origin(og, r'op:Lt$|op:Gt$|op:Le$|op:Ge$'):
                # one edge assigns count from data_size (a local that is the sum of two lengths)
                # ... and the value the count is compared with is the very value it is raised to (not, say, the passphrase length alone)
                def root_local(o):
                    for _ in range(6):
                        if 'l' not in o or o['pr']:
                            return None
                        d = defs.get(o['l'])
                        if d is None or d[1].get('k') == 'call' or d[1]['r']['k'] != 'use' or 'l' not in d[1]['r']['o'][0] or d[1]['r']['o'][0]['pr']:
                            return o['l']
                        o = d[1]['r']['o'][0]
                    return None
                cmp_other = None
                for s0 in reversed(b.blocks[i]['s']):
                    if s0['r']['k'] == 'bin' and s0['r']['op'] in ('Lt', 'Le', 'Gt', 'Ge'):
                        for o in s0['r']['o']:
                            if not has_origin(b.operand_origins(o), r'call:.*decode_count$'):
                                cmp_other = root_local(o)
                        break
                for j, _ in b.succ(i):
                    for s in b.blocks[j]['s']:
                        if s['r']['k'] == 'use' and 'l' in s['r']['o'][0] and not s['d']['pr']:
                            src = b.origins()[s['r']['o'][0]['l']]
                            if has_origin(src, r'op:Add') and has_origin(src, r'call:.*::len$') and not has_origin(src, r'call:.*decode_count$'):
                                if cmp_other is not None and root_local(s['r']['o'][0]) == cmp_other:
                                    clamp = True
        ctx.check(P + ':s2k:count-at-least-one-pass', 'R-dom', 'iterated S2K raises the decoded count to salt.len() + passphrase.len() when it is smaller (one full pass is always hashed)', clamp, function=b.path)


def mdc(ctx, P):
    # -- MDC trailer octets on both sides ---------------------------------------------------------------------------
    dec = ctx.body('crypto::sym::decryptor::StreamDecryptorInner::<M, R>::finalize_data')
    enc = [p for p in ctx.f.bodies if 'crypto::sym::encryptor' in p]
    def u8consts(b):
        out = set()
        for blk in b.blocks:
            for s in blk['s']:
                for o in s['r'].get('o', ()):
                    if 'k' in o and o['k'].get('ty') == 'u8' and 'v' in o['k']:
                        out.add(o['k']['v'])
            t = blk['t']
            if t['k'] == 'call':
                for a in t['args']:
                    if 'k' in a and a['k'].get('ty') == 'u8' and 'v' in a['k']:
                        out.add(a['k']['v'])
        for pb in (b.r.get('promoted') or []):
            for blk in pb:
                for s in blk['s']:
                    for o in s['r'].get('o', ()):
                        if 'k' in o and o['k'].get('ty') == 'u8' and 'v' in o['k']:
                            out.add(o['k']['v'])
        return out
    dec_ok = dec is not None and {0xD3, 0x14} <= u8consts(dec)
    enc_ok = any({0xD3, 0x14} <= u8consts(ctx.wrap(ctx.f.bodies[p])) for p in enc)
    for p in enc:
        ctx.functions.discard(p) if not ({0xD3, 0x14} <= u8consts(ctx.wrap(ctx.f.bodies[p]))) else None
    ctx.check(P + ':seipdv1:mdc-octets', 'R-sib', 'the MDC trailer header is 0xD3 0x14 on the decrypt side (compared) and on the encrypt side (written)', dec_ok and enc_ok)


def ecdh(ctx, P):
    # -- ECDH KDF ---------------------------------------------------------------------------------------------------
    b = ctx.body('crypto::ecdh::kdf')
    if b is not None:
        a4 = [el for i, el in arrays(b, 4)]
        ctx.check(P + ':ecdh:kdf-counter', 'R-table', 'the ECDH KDF input starts with the counter 00 00 00 01', [0, 0, 0, 1] in a4, function=b.path, table=a4)
        a3 = arrays(b, 3)
        order = any('param:2' in str(el[1]) and 'param:4' in str(el[2]) for i, el in a3)
        ctx.check(P + ':ecdh:kdf-order', 'R-seq', 'the KDF hashes counter || shared secret || param', order, function=b.path, table=[el for i, el in a3])
    b = ctx.body('crypto::ecdh::build_ecdh_param')
    if b is not None:
        a4 = [el for i, el in arrays(b, 4)]
        kp = any(el[0] == 3 and el[1] == 1 and 'param:3' in str(el[2]) and 'param:2' in str(el[3]) for el in a4)
        ctx.check(P + ':ecdh:kdf-params', 'R-table', 'KDF parameters are 03 01 <hash> <cipher>', kp, function=b.path, table=a4)
        a6 = [el for i, el in arrays(b, 6)]
        order = any('param:1' in str(el[1]) and 'param:4' in str(el[5]) for el in a6)
        ctx.check(P + ':ecdh:param-order', 'R-seq', 'param = OID length, OID, public-key algorithm, KDF parameters, anonymous-sender string, fingerprint', order, function=b.path, table=a6)
        anon = ctx.f.consts.get('crypto::ecdh::ANON_SENDER')
    # Z is the fixed-size x coordinate: it reaches the KDF without passing through an MPI (whose leading zero octets are stripped,
    # 1 exchange in 256) — RFC 9580 11.5: "ZB ... the fixed-size octet string"
    nz = 0
    for p, r in sorted(ctx.f.bodies.items()):
        if not re.match(r'crypto::ecdh::derive_shared_secret\w*$', p.split('::<')[0]) or r['kind'] == 'Closure':
            continue
        bb = ctx.wrap(r)
        nz += 1
        og = set()
        for i in bb.returns():
            pass
        og = bb.operand_origins({'l': 0, 'pr': []})
        lossy = sorted(x for x in og if re.search(r'^call:.*(types::mpi::Mpi::(from_slice|from_raw|from)$|strip_leading_zeros$|BigUint::(from_bytes_be|to_bytes_be)$|<types::mpi::Mpi as std::convert::From)', x))
        ctx.check('%s:ecdh:shared-secret-fixed-width:%s' % (P, p), 'R-lost', 'the ECDH shared secret returned by %s keeps its fixed width (it does not pass through an MPI / integer form that drops leading zero octets)' % p.split('::')[-1],
                  not lossy, function=p, missing=lossy or None)
    ctx.floor(P + ':ecdh:shared-secret-floor', 'functions deriving the ECDH shared secret', nz, 2)
    # PKCS#5 unpadding of the unwrapped session key (RFC 9580 11.5 / RFC 8018): the padding octet N is in 1..=len; N = 0 is not a
    # padding at all - accepting it returns the whole unwrapped block as key material, which an RFC implementation refuses
    b = ctx.body('crypto::ecdh::derive_session_key')
    if b is not None:
        from rules.common import rdom, call_blocks
        sinks = call_blocks(b, r'Vec::<.*>::truncate$')
        # a DIRECT comparison of the padding octet with 0 (or `< 1`), not merely something that derives from it
        from rules.common import direct_cmp_switches
        from core import must_pass, guard_switches, fmt_path
        def is_pad(kind, v):
            return kind == 'place' and 'l' in v and has_origin(b.operand_origins(v), r'call:.*(::last|::expect)$') \
                and (b.r['locals'][v['l']]['ty'] in ('&u8', 'u8'))
        cands = []
        for i, op, side in direct_cmp_switches(b, is_pad, lambda c: c in (0, 1)):
            cands.append(i)
        rejecting = set(g for g, _ in guard_switches(b, sinks, []))
        gs = [i for i in cands if i in rejecting]
        ok, wit = must_pass(b, sinks, gs) if sinks else (False, None)
        ctx.check(P + ':ecdh:unpad-lower-bound', 'R-dom', 'ECDH unpadding refuses a padding octet of 0 (no padding) before it truncates the unwrapped key',
                  bool(sinks) and ok, function=b.path, site=site(b, sinks[0]) if sinks else None, witness=fmt_path(b, wit),
                  missing=None if (sinks and ok) else 'no rejecting comparison of the padding octet itself with 0 on the way to truncate(): `00` as last octet is read as "no padding" and the whole block becomes the key')
        rdom(ctx, P + ':ecdh:unpad-upper-bound', b, sinks, [r'call:.*(::last|::expect)$', r'call:.*::len$|op:PtrMetadata|len'],
             'ECDH unpadding refuses a padding octet larger than the unwrapped block before it truncates')
        # ... and every padding octet is compared with N (RFC 8018: N octets of value N): the verdict that guards truncate() comes from
        # an `any` / `all` over the padding, or from a loop variable that ACCUMULATES (is computed from its own previous value) - a loop
        # that merely assigns `verdict = f(octet)` keeps the verdict of the last octet, which is N itself
        import callgraph
        edges = {i: set(j for j, _ in b.succ(i)) for i in range(len(b.blocks)) if not b.blocks[i]['c']}
        loops = [set(c) for c in callgraph.sccs(edges) if len(c) > 1]
        good, lastwins = [], []
        for g in sorted(rejecting):
            og = b.switch_origins(g)
            if has_origin(og, r'call:.*Iterator::(any|all)$'):
                good.append(g)
                continue
            # locals feeding the condition that are assigned inside a loop
            from rules.common import single_defs, resolve_value
            t = b.blocks[g]['t']
            seen, work = set(), [t['o']['l']] if 'l' in t['o'] else []
            while work:
                L = work.pop()
                if L in seen:
                    continue
                seen.add(L)
                for x, k, st in b.stmts(lambda st: st['d']['l'] == L and not st['d']['pr']):
                    for o in st['r'].get('o', ()):
                        if 'l' in o and not o['pr']:
                            work.append(o['l'])
            for L in seen:
                ins = [(x, st) for x, k, st in b.stmts(lambda st: st['d']['l'] == L and not st['d']['pr']) if any(x in lp for lp in loops)]
                if not ins or g in [x for lp in loops for x in lp]:
                    continue
                selfdep = any(any(o.get('l') == L for o in st['r'].get('o', ())) for x, st in ins)
                (good if selfdep else lastwins).append(g)
        every = bool(good) and must_pass(b, sinks, good)[0] if sinks else False
        ctx.check(P + ':ecdh:unpad-every-octet', 'R-dom', 'ECDH unpadding truncates only after a verdict over EVERY padding octet (any/all over the padding, or an accumulating loop variable)',
                  every, function=b.path, site=site(b, lastwins[0]) if lastwins else (site(b, sinks[0]) if sinks else None),
                  missing=None if every else ('the verdict tested at %s is assigned inside a loop without depending on its previous value: only the last octet decides' % site(b, lastwins[0])
                                              if lastwins else 'no rejecting check of the padding body dominates truncate()'))
    users = sorted(p for p, r in ctx.f.bodies.items() if ctx.wrap(r).calls(r'crypto::ecdh::(kdf|build_ecdh_param)$') and 'ecdh' in p)
    ctx.check(P + ':ecdh:single-derivation', 'R-who', 'ECDH encryption and decryption derive the KEK through the same build_ecdh_param + kdf',
              any(u.endswith('derive_session_key') for u in users) and any(u.endswith('encrypt') for u in users), table=users)


def derived_key_sized_by_the_cipher_in_use(ctx, P):
    """Every password-derived key (S2K output) is as long as the key of the cipher that is named next to it - for secret-key
    protection the `sym_alg` of the very S2kParams variant, for SKESK the packet's cipher - on the locking AND on the unlocking side.
    The length handed to `StringToKey::derive_key` derives from `key_size()` of that cipher, never from a constant algorithm."""
    n = 0
    for p, r in sorted(ctx.f.bodies.items()):
        if '::tests::' in p:
            continue
        b = ctx.wrap(r)
        for k, (i, t) in enumerate(b.calls(r'StringToKey::derive_key$')):
            if len(t['args']) < 3:
                continue
            n += 1
            og = b.operand_origins(t['args'][2])
            const_alg = sorted(x for x in og if re.match(r'agg:crypto::sym::SymmetricKeyAlgorithm::', x))
            ok = has_origin(og, r'call:.*SymmetricKeyAlgorithm::key_size$') and not const_alg
            ctx.check('%s:s2k:derived-length-from-cipher:%s#%d' % (P, p, k), 'origin', 'the length of the key derived in %s is key_size() of the cipher in use' % '::'.join(p.split('::')[-2:]),
                      ok, function=p, site=site(b, i),
                      missing=None if ok else 'the requested length derives from %s: the other side derives key_size() of the cipher in use, so keys for any other cipher differ' % (const_alg or 'something else than key_size()'))
    ctx.floor(P + ':s2k:derived-length:floor', 'derive_key call sites', n, 8)
