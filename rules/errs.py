"""R-err: error discipline — no I/O / library error is dropped (DESIGN §4.6)."""
import re
from rules.common import site

DISC = re.compile(r'Result::<.*>::(ok|is_ok|is_err|unwrap_or|unwrap_or_default|unwrap_or_else|map_or|map_or_else|is_ok_and|is_err_and|err)$')
LOGMAC = {'debug', 'warn', 'log', 'trace', 'info', 'error', '$crate::log', '$crate::__log'}


def uses_of(b, l, depth=0, seen=None):
    """Uses of local l, following moves / copies / borrows into other temporaries (3 hops)."""
    seen = seen if seen is not None else set()
    if l in seen or depth > 3:
        return []
    seen.add(l)
    out = []
    for i, blk in enumerate(b.blocks):
        if blk['c']:
            continue
        for s in blk['s']:
            r = s['r']
            ops = list(r.get('o', ()))
            if 'p' in r:
                ops.append(r['p'])
            hit = any(o.get('l') == l for o in ops)
            if hit:
                if r['k'] in ('use', 'ref', 'copyderef', 'cast') and not s['d']['pr'] and s['d']['l'] != 0:
                    sub = uses_of(b, s['d']['l'], depth + 1, seen)
                    out += sub if sub else [('dead-copy', i, s)]
                else:
                    out.append(('stmt', i, s))
            if s['d']['l'] == l and s['d']['pr']:
                out.append(('stmt', i, s))
        t = blk['t']
        if t['k'] == 'call':
            for a in t['args']:
                if a.get('l') == l:
                    out.append(('call', i, t))
            if 'ind' in t['f'] and t['f']['ind'].get('l') == l:
                out.append(('call', i, t))
        if t['k'] == 'switch' and t['o'].get('l') == l:
            out.append(('switch', i, t))
        if t['k'] == 'drop' and t['p']['l'] == l:
            pass
    return out


def discards(b, scope_callee=None):
    """Call sites in body b whose Result (io::Error / crate Error) is discarded.  Returns list of (block, form, callee)."""
    out = []
    for i, t in b.calls():
        rty = t.get('rty', '')
        if not rty.startswith('std::result::Result<'):
            continue
        io_like = 'std::io::Error' in rty or 'errors::Error' in rty or 'crypto::aead::Error' in rty
        if t.get('mac') and any(m in LOGMAC for m in t['mac']):
            continue
        fn = t['f'].get('fn', '')
        if re.search(r'Result::<.*>::(map_err|map|and_then|or_else|as_ref|as_mut|inspect_err)$|convert::(Into::into|From::from)$|Try::branch$|FromResidual::from_residual$|clone::Clone::clone$', fn):
            continue  # adaptors: the value flows on, its consumer is examined instead
        d = t['d']
        if d['pr'] or d['l'] == 0:
            continue
        us = uses_of(b, d['l'])
        real = [u for u in us if u[0] != 'dead-copy']
        if not real and io_like:
            out.append((i, 'unused', fn))
            continue
        hit = False
        if not io_like and not real:
            continue   # unused non-I/O results (infallible conversions etc.) are not error discards
        # `is_ok()` / `is_err()` only look at the result (`&self`): when the value is also consumed elsewhere (returned, matched, `?`)
        # the error is not dropped by the look
        peek = lambda u: u[0] == 'call' and re.search(r'Result::<.*>::(is_ok|is_err)$', u[2]['f'].get('fn', '') or '')
        consumed = any(not peek(u) for u in real)
        for k, j, x in real:
            if consumed and peek((k, j, x)):
                continue
            if k == 'call' and DISC.search(x['f'].get('fn', '')):
                out.append((i, x['f']['fn'].split('::')[-1], fn))
                hit = True
                break
        if hit:
            continue
        if not io_like:
            continue
        # match with an Err arm that ignores the payload and continues on a non-error path
        md = match_drop(b, d['l'])
        if md is not None:
            out.append((i, 'match-drop', fn))
    return out


def match_drop(b, l):
    from rules.common import ok_exit_blocks, err_exit_blocks
    for j, blk in enumerate(b.blocks):
        if blk['c'] or blk['t']['k'] != 'switch':
            continue
        t = blk['t']
        for s in blk['s']:
            if s['d']['l'] == t['o'].get('l') and s['r']['k'] == 'discr' and s['r']['p']['l'] == l and not s['r']['p']['pr'] and 'enum' in s['r'] \
                    and s['r']['enum']['adt'].endswith('result::Result'):
                tgt = None
                for v, bb in t['targets']:
                    if v == 1:
                        tgt = bb
                if tgt is None:
                    explicit = {v for v, _ in t['targets']}
                    if 1 not in explicit:
                        tgt = t['else']
                if tgt is None:
                    continue
                region = b.reach_from([tgt], removed=frozenset([j]))
                reads = False
                for x in region:
                    for s2 in b.blocks[x]['s']:
                        r = s2['r']
                        ops = list(r.get('o', ()))
                        if 'p' in r:
                            ops.append(r['p'])
                        for o in ops:
                            if o.get('l') == l and o.get('pr') and o['pr'][0] == '@Err':
                                reads = True
                    tt = b.blocks[x]['t']
                    if tt['k'] == 'call':
                        for a in tt['args']:
                            if a.get('l') == l and a.get('pr') and a['pr'][0] == '@Err':
                                reads = True
                if reads:
                    continue
                oks = set(ok_exit_blocks(b)) - set(err_exit_blocks(b))
                rets = set(b.returns())
                # does the Err arm continue on a path that is not an error return?
                if (region & oks) or (not err_exit_blocks(b) and (region & rets)):
                    return j
    return None


def load_reviewed(path):
    rev = {}
    try:
        for line in open(path):
            line = line.strip()
            if not line or line.startswith('#'):
                continue
            key, _, reason = line.partition(' | ')
            rev[key.strip()] = reason.strip()
    except FileNotFoundError:
        pass
    return rev


def err_to_ok(b):
    """io::Result call sites whose Err edge reaches a successful exit without passing a branch on the error kind."""
    from rules.common import ok_exit_blocks, err_exit_blocks
    from core import has_origin
    out = []
    oks = set(ok_exit_blocks(b)) - set(err_exit_blocks(b))
    if not oks:
        return out
    kinds = None
    for i, t in b.calls():
        rty = t.get('rty', '')
        if not (rty.startswith('std::result::Result<') and 'std::io::Error' in rty):
            continue
        d = t['d']
        if d['pr'] or d['l'] == 0:
            continue
        for j, blk in enumerate(b.blocks):
            if blk['c'] or blk['t']['k'] != 'switch':
                continue
            tt = blk['t']
            for s in blk['s']:
                if s['d']['l'] == tt['o'].get('l') and s['r']['k'] == 'discr' and s['r']['p']['l'] == d['l'] and not s['r']['p']['pr']:
                    tgt = None
                    for v, bb in tt['targets']:
                        if v == 1:
                            tgt = bb
                    if tgt is None and 1 not in {v for v, _ in tt['targets']}:
                        tgt = tt['else']
                    if tgt is None:
                        continue
                    if kinds is None:
                        kinds = [g for g, tx in b.switches() if has_origin(b.switch_origins(g), r'call:.*Error::kind$')]
                    p = b.find_path(tgt, oks, removed=frozenset([j] + kinds))
                    if p is not None:
                        out.append((i, 'err-to-ok', t['f'].get('fn', '')))
    return out
