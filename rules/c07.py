"""C07 Generated keys are valid (DESIGN §5 C07) — narrow structural clauses only."""
import re
from rules import sig
from rules.common import rdom, call_blocks, ok_exit_blocks, site, arm_context, single_defs, resolve_value
from core import guard_switches, must_pass, fmt_path, has_origin

EXPLANATION = ("Decides narrow structural clauses of C07, not key validity: in SecretKeyParams::generate every KeyFlags setter is fed from the "
               "capability it names (certify/sign/authentication from the same-named field, encrypt_comms/encrypt_storage from "
               "is_communication()/is_storage() of can_encrypt) for the primary key and for every subkey; the embedded back-signature is "
               "produced on the branch of the same can_sign field that sets the sign flag, wrapped in Some and returned with the subkey; the "
               "subkey-binding helper pushes an EmbeddedSignature subpacket into the hashed area on the Some edge; the builder validates "
               "before building; the sign side applies the key/signature version alignment guards (shared with C15). Not decided: anything "
               "value-dependent (leading-zero MPIs/scalars, re-import equality, usability)."
               ' Also: certificate assembly (metadata table from the requested fields, v6 direct-key signature, user-id self-signature arms, IsPrimary on every path), back-signature made before locking, builder validation treats an unset version like the default, and (shared with C05) R-len over key-material types plus stored-header freshness.')
ASSUMPTIONS = ["derive_builder expands build() as written in the crate's configuration"]

GEN = 'composed::key::builder::SecretKeyParams::generate'

SETTERS = {
    'set_certify': r'field:(SecretKeyParams|SubkeyParams)\.can_certify$',
    'set_sign': r'field:(SecretKeyParams|SubkeyParams)\.can_sign$',
    'set_authentication': r'field:(SecretKeyParams|SubkeyParams)\.can_authenticate$',
    'set_encrypt_comms': r'call:.*EncryptionCaps::is_communication$',
    'set_encrypt_storage': r'call:.*EncryptionCaps::is_storage$',
}
FORBID = {
    'set_encrypt_comms': r'call:.*EncryptionCaps::is_storage$',
    'set_encrypt_storage': r'call:.*EncryptionCaps::is_communication$',
}


def run(ctx):
    P = 'C07'
    bodies = [r for p, r in ctx.f.bodies.items() if p == GEN or r.get('parent') == GEN]
    ctx.floor(P + ':generate:floor', 'bodies of SecretKeyParams::generate (function + closures)', len(bodies), 2)
    nset = 0
    sub = None
    for r in bodies:
        b = ctx.wrap(r)
        for i, t in b.calls(r'KeyFlags::set_[a-z_]+$'):
            nm = t['f']['fn'].split('::')[-1]
            if nm not in SETTERS:
                continue
            nset += 1
            og = b.operand_origins(t['args'][1])
            good = has_origin(og, SETTERS[nm]) and not (nm in FORBID and has_origin(og, FORBID[nm]))
            if nm.startswith('set_encrypt'):
                good &= has_origin(og, r'field:(SecretKeyParams|SubkeyParams)\.can_encrypt$')
            ctx.check('%s:flags:%s:%s' % (P, nm, 'subkey' if r['kind'] == 'Closure' else 'primary'), 'origin',
                      'KeyFlags::%s is fed from the capability it names (%s)' % (nm, 'subkey closure' if r['kind'] == 'Closure' else 'primary key'),
                      good, function=b.path, site=site(b, i))
        if b.calls(r'SecretSubkey::sign_primary_key_binding$'):
            sub = b
    ctx.floor(P + ':flags:floor', 'KeyFlags setter calls in generate', nset, 9)
    if sub is None:
        ctx.missing(P + ':backsig:closure', 'per-subkey closure calling sign_primary_key_binding not found')
    else:
        b = sub
        bs = call_blocks(b, r'SecretSubkey::sign_primary_key_binding$')
        defs = single_defs(b)
        cond = []
        for i, t in b.switches():
            k, v = resolve_value(b, t['o'], defs)
            if k == 'place' and v.get('pr') and v['pr'][-1].endswith('SubkeyParams.can_sign'):
                cond.append(i)
        ok, wit = must_pass(b, bs, cond)
        ctx.check(P + ':backsig:guarded-by-can_sign', 'R-dom', 'the back-signature is produced on a branch of SubkeyParams.can_sign (the field that also sets the sign flag)',
                  ok and bool(cond), function=b.path, guards=[site(b, c) for c in cond])
        # on the true edge the result is wrapped in Some and is part of the returned tuple
        some = [i for i, k, s in b.stmts(lambda s: s['r']['k'] == 'agg' and s['r'].get('v') == 'Some' and s['r'].get('adt', '').endswith('Option'))
                if has_origin(b.operand_origins(b.blocks[i]['s'][k]['r']['o'][0]), r'call:.*sign_primary_key_binding$')]
        ret = [i for i, k, s in b.stmts(lambda s: s['r']['k'] == 'agg' and s['r'].get('ak') == 'tuple' and len(s['r']['o']) == 3)
               if has_origin(b.operand_origins(b.blocks[i]['s'][k]['r']['o'][2]), r'call:.*sign_primary_key_binding$')]
        ctx.check(P + ':backsig:returned-with-subkey', 'origin', 'the back-signature is wrapped in Some and returned as the third component next to the subkey', bool(some) and bool(ret), function=b.path)
        # every true edge of the can_sign branch reaches the back-signature call (no way to set sign without it)
        for c in cond:
            t = b.blocks[c]['t']
            te = t['else']
            reach = b.reach_from([te], removed=frozenset([c]))
            ctx.check(P + ':backsig:true-edge-signs', 'R-dom', 'the can_sign == true edge always calls sign_primary_key_binding', any(x in reach for x in bs) and
                      b.find_path(te, set(ok_exit_blocks(b)), removed=frozenset(bs + [g for g, _ in guard_switches(b, ok_exit_blocks(b), [r'call:.*sign_primary_key_binding$'])])) is None,
                      function=b.path)
    # subkey binding helper embeds the back-signature
    b = ctx.body('packet::key::public::PublicSubkey::sign')
    if b is not None:
        emb = [i for i, k, s in b.constructs(r'SubpacketData$', 'EmbeddedSignature')]
        ok = bool(emb) and all(has_origin(b.operand_origins(s['r']['o'][0]), r'param:7$') for i, k, s in b.constructs(r'SubpacketData$', 'EmbeddedSignature'))
        ctx.check(P + ':binding:embeds-backsig', 'origin', 'PublicSubkey::sign wraps its `embedded` parameter into an EmbeddedSignature subpacket', ok, function=b.path)
        push = [i for i, t in b.calls(r'Vec::<.*>::push$') if has_origin(b.operand_origins(t['args'][1]), r'agg:.*SubpacketData::EmbeddedSignature$')]
        sinks = call_blocks(b, r'SignatureConfig::sign_subkey_binding$')
        dom = b.dominators()
        some_edge = all(any(adt == 'Option' and vs == ['Some'] for adt, vs in arm_context(b, p, dom)) for p in push)
        tgt = all(any(e.endswith('SignatureConfig.hashed_subpackets') for e in (b.blocks[p]['t']['args'][0].get('pr') or []) ) or
                  has_origin(b.operand_origins(b.blocks[p]['t']['args'][0]), r'field:SignatureConfig\.hashed_subpackets$') for p in push)
        ctx.check(P + ':binding:pushed-to-hashed-area', 'R-dom', 'the EmbeddedSignature subpacket is pushed to the hashed area on the Some edge, before signing', bool(push) and some_edge and tgt and bool(sinks), function=b.path)
    # the secret-subkey wrapper passes `embedded` through
    for p, r in sorted(ctx.f.bodies.items()):
        if p.endswith('SecretSubkey::sign') and 'packet::key::secret' in p:
            b = ctx.wrap(r)
            cs = b.calls(r'PublicSubkey::sign$')
            ok = bool(cs) and all(has_origin(b.operand_origins(t['args'][6]), r'param:7$') for i, t in cs if len(t['args']) > 6)
            ctx.check(P + ':binding:secret-wrapper-forwards', 'origin', 'SecretSubkey::sign forwards the embedded back-signature to PublicSubkey::sign', ok, function=p)
    # builder: build() validates
    cands = [p for p in ctx.f.bodies if p.endswith('SecretKeyParamsBuilder::build')]
    for p in cands:
        b = ctx.body(p)
        oks = ok_exit_blocks(b)
        rdom(ctx, P + ':builder:validate-dominates-build', b, oks, [r'call:.*SecretKeyParamsBuilder::validate$'], 'SecretKeyParamsBuilder::build succeeds only after validate() (error propagated)')
    ctx.floor(P + ':builder:floor', 'SecretKeyParamsBuilder::build', len(cands), 1)
    for p in [p for p in ctx.f.bodies if p.endswith('SecretKeyParamsBuilder::validate')]:
        b = ctx.body(p)
        # the builder keeps `version: Option<KeyVersion>`; build() turns None into KeyVersion::default().  A validation rule that
        # compares the Option with Some(V) silently skips the defaulted case (contradiction with the `match` above it, whose
        # catch-all arm treats None like the default version).
        raw = [i for i, t in b.calls(r'PartialEq::(eq|ne)$') if 'Option<types::packet::KeyVersion>' in (t['f'].get('selfty') or '')
               and has_origin(b.operand_origins(t['args'][0]), r'field:SecretKeyParamsBuilder\.version$')]
        ctx.check(P + ':builder:version-default-consistent', 'R-sib', 'validate() judges an unset key version like the default version build() will use (no `version == Some(..)` comparison that skips None)',
                  not raw, function=p, site=site(b, raw[0]) if raw else None,
                  missing='`self.version == Some(V)` is false for an unset version although build() will produce the default version' if raw else None)
        errs_ = [i for i, t in b.switches() if has_origin(b.switch_origins(i), r'field:SecretKeyParamsBuilder\.primary_user_id$')]
        oks = ok_exit_blocks(b)
        rej = [g for g, _ in guard_switches(b, oks, [r'field:SecretKeyParamsBuilder\.primary_user_id$'])]
        ctx.check(P + ':builder:v4-needs-primary-user-id', 'R-dom', 'validate() has a rejecting branch on primary_user_id (v4 keys need the self-certification that carries flags and preferences)',
                  bool(rej), function=p)
    sig.s15_5_version_alignment_sign(ctx, P)
    certificate_assembly(ctx, P)
    lock_after_backsig(ctx, P, sub)
    # export / re-import of a generated key needs truthful lengths for every key-material type (R-len of C05, key types only)
    from rules import c05
    c05.r_len(ctx, P, only=r'crypto::\w+::SecretKey|types::params|packet::key|composed::signed_key|composed::key|types::mpi|PublicParams|SecretParams|types::s2k', floors=(70, 30))
    c05.header_freshness(ctx, P)
    c05.mpi_padding_order(ctx, P)
    c05.raw_mpi_only_from_parsed_data(ctx, P)


META = {'KeyFlags': 'keyflags', 'Features': 'features', 'PreferredSymmetricAlgorithms': 'preferred_symmetric_algorithms',
        'PreferredHashAlgorithms': 'preferred_hash_algorithms', 'PreferredCompressionAlgorithms': 'preferred_compression_algorithms',
        'PreferredAeadAlgorithms': 'preferred_aead_algorithms'}
KSIGN = 'composed::key::shared::KeyDetails::sign'


def certificate_assembly(ctx, P):
    """How KeyDetails::sign assembles the self-signatures of a generated key: the requested flags / features / preferences are
    carried by a self-signature for every key version, and the primary user id is marked primary on every path."""
    main = ctx.body(KSIGN)
    if main is None:
        return
    clos = {r['path']: ctx.wrap(r) for r in ctx.f.closures_of(KSIGN)}
    # which closure builds the metadata subpackets, and from which KeyDetails fields
    meta = None
    for cp, cb in clos.items():
        if cb.constructs(r'SubpacketData$', 'KeyFlags'):
            meta = cp
    ctx.check(P + ':cert:metadata-closure', 'R-table', 'KeyDetails::sign has one helper closure that builds the metadata subpackets', meta is not None, function=KSIGN)
    if meta is None:
        return
    cb = clos[meta]
    upv = None
    for i, k, st in main.stmts(lambda s: s['r']['k'] == 'agg' and s['r'].get('ak') == 'closure' and s['r'].get('adt') == meta):
        upv = [sorted(x[len('field:KeyDetails.'):] for x in main.operand_origins(o) if x.startswith('field:KeyDetails.')) for o in st['r']['o']]
    table = {}
    for i, k, st in cb.constructs(r'SubpacketData$'):
        v = st['r']['v']
        if v in META and st['r']['o']:
            idx = [int(x[6:]) for x in cb.operand_origins(st['r']['o'][0]) if re.match(r'field:\d+$', x)]
            table[v] = sorted(set(f for j in idx if upv and j < len(upv) for f in upv[j]))
    bad = {v: table.get(v) for v, fld in META.items() if table.get(v) != [fld]}
    ctx.check(P + ':cert:metadata-from-requested-fields', 'R-table',
              'the metadata closure builds KeyFlags / Features / the four preference subpackets, each from the KeyDetails field of the same name (flags and preferences are those requested)',
              not bad, function=meta, table=table, missing=bad or None)
    basic = [cp for cp, c2 in clos.items() if cp != meta and c2.constructs(r'SubpacketData$', 'IssuerFingerprint') and not c2.calls(r'SignatureConfig::sign_')]
    dom = main.dominators()
    # v6: a direct-key signature with the metadata
    sk = call_blocks(main, r'SignatureConfig::sign_key$')
    mcalls = [i for i, t in main.calls(r'ops::Fn::call$') if t['f'].get('res') == meta]
    ok, wit = must_pass(main, sk, mcalls) if sk else (False, None)
    v6 = all(any(adt == 'KeyVersion' and vs == ['V6'] for adt, vs in arm_context(main, i, dom)) or
             any(has_origin(main.switch_origins(g), r'agg:.*KeyVersion::V6$') for g, _ in guard_switches(main, [i], [r'call:.*KeyDetails::version$'])) for i in sk)
    ctx.check(P + ':cert:v6-direct-key-signature-carries-metadata', 'R-dom',
              'a direct-key self-signature is made under a key-version == V6 branch and its hashed area comes from the metadata closure', ok and bool(sk) and v6, function=KSIGN,
              site=site(main, sk[0]) if sk else None)
    # every user-id self-certification takes its hashed area from the metadata closure except under the V6 arm
    n = 0
    for b in [main] + [c for cp, c in sorted(clos.items())]:
        sc = call_blocks(b, r'SignatureConfig::sign_certification$')
        if not sc:
            continue
        n += 1
        d2 = b.dominators()
        # the helper calls that sit in an arm of `match key.version()` (the v6 direct-key signature calls the metadata helper outside any such arm)
        in_arm = lambda i: any(adt == 'KeyVersion' for adt, vs in arm_context(b, i, d2))
        m2 = [i for i, t in b.calls(r'ops::Fn::call$') if t['f'].get('res') == meta and in_arm(i)]
        b2 = [i for i, t in b.calls(r'ops::Fn::call$') if t['f'].get('res') in basic and in_arm(i)]
        ok1, _ = must_pass(b, sc, m2 + b2)
        only_v6 = all(any(adt == 'KeyVersion' and vs == ['V6'] for adt, vs in arm_context(b, i, d2)) for i in b2)
        non_v6 = all(any(adt == 'KeyVersion' and 'V4' in vs and 'V6' not in vs for adt, vs in arm_context(b, i, d2)) for i in m2) and bool(m2)
        ctx.check('%s:cert:userid-selfsig-subpackets:%s' % (P, b.path.split('::')[-1]), 'R-dom',
                  'user-id self-certification in %s: the hashed area is the metadata set for every key version except V6 (where the direct-key signature carries it)' % b.path.split('::')[-1],
                  ok1 and only_v6 and non_v6, function=b.path, site=site(b, sc[0]))
    ctx.floor(P + ':cert:userid-selfsig:floor', 'bodies making user-id self-certifications in KeyDetails::sign', n, 2)
    # primary user id is marked primary on every path
    sc = call_blocks(main, r'SignatureConfig::sign_certification$')
    ip = []
    for i, k, st in main.constructs(r'SubpacketData$', 'IsPrimary'):
        o = st['r']['o'][0]
        if 'k' in o and o['k'].get('v') in (1, True):
            ip.append(i)
    pushes = [i for i, t in main.calls(r'Vec::<.*>::push$') if has_origin(main.operand_origins(t['args'][1]), r'agg:.*SubpacketData::IsPrimary$')
              and (any(e.endswith('SignatureConfig.hashed_subpackets') for e in (t['args'][0].get('pr') or [])) or has_origin(main.operand_origins(t['args'][0]), r'field:SignatureConfig\.hashed_subpackets$'))]
    ok, wit = must_pass(main, sc, pushes) if sc and pushes else (False, None)
    ctx.check(P + ':cert:primary-userid-marked', 'R-dom', 'the self-certification of the primary user id carries IsPrimary(true) in its hashed area on every path (all key versions)',
              ok and bool(ip), function=KSIGN, witness=fmt_path(main, wit) if wit else None)


def lock_after_backsig(ctx, P, sub):
    """The embedded back-signature is made by the subkey itself: if the subkey is locked before that call, the password handed to
    sign_primary_key_binding must be the subkey's own passphrase; otherwise the call must precede locking."""
    if sub is None:
        return
    b = sub
    locks = call_blocks(b, r'SecretSubkey::set_password(_with_s2k)?$')
    signs = b.calls(r'SecretSubkey::sign_primary_key_binding$')
    ctx.check(P + ':backsig:lock-site', 'R-seq', 'the per-subkey closure locks the subkey when a passphrase was requested', bool(locks), function=b.path)
    # each key is locked with the passphrase requested FOR IT: the subkey closure passes SubkeyParams.passphrase, the primary
    # SecretKeyParams.passphrase
    for l in locks:
        pw = b.operand_origins(b.blocks[l]['t']['args'][1])
        ctx.check(P + ':lock:subkey-own-passphrase', 'origin', 'the subkey is locked with the passphrase requested for this subkey (SubkeyParams.passphrase)',
                  has_origin(pw, r'field:SubkeyParams\.passphrase$'), function=b.path, site=site(b, l),
                  missing=None if has_origin(pw, r'field:SubkeyParams\.passphrase$') else 'password operand derives from %s' % sorted(x for x in pw if x.startswith(('field:', 'param:')))[:4])
    gb = ctx.body(GEN)
    if gb is not None:
        for i, t in gb.calls(r'SecretKey::set_password(_with_s2k)?$'):
            pw = gb.operand_origins(t['args'][1])
            ctx.check(P + ':lock:primary-own-passphrase', 'origin', 'the primary key is locked with SecretKeyParams.passphrase', has_origin(pw, r'field:SecretKeyParams\.passphrase$'),
                      function=gb.path, site=site(gb, i))
    for i, t in signs:
        after_lock = any(b.find_path(b.blocks[l]['t']['t'], {i}) is not None for l in locks)
        pw = b.operand_origins(t['args'][-1])
        own = has_origin(pw, r'field:SubkeyParams\.passphrase$')
        ctx.check(P + ':backsig:signed-while-unlockable', 'R-seq',
                  'sign_primary_key_binding runs before the subkey is locked, or is given the subkey\'s own passphrase',
                  (not after_lock) or own, function=b.path, site=site(b, i),
                  missing=None if ((not after_lock) or own) else 'the subkey is locked first and the back-signature is requested with a password that does not derive from SubkeyParams.passphrase')
