"""C07 Generated keys are valid (DESIGN §5 C07) — narrow structural clauses only."""
import re
from rules import sig
from rules.common import rdom, call_blocks, ok_exit_blocks, site, arm_context, single_defs, resolve_value
from core import guard_switches, must_pass, fmt_path, has_origin

EXPLANATION = ("Decides narrow structural clauses of C07, not key validity: in SecretKeyParams::generate every KeyFlags setter is fed from the "
               "capability it names (certify/sign/authentication from the same-named field, encrypt_comms/encrypt_storage from "
               "is_communication()/is_storage() of can_encrypt) for the primary key and for every subkey; the embedded back-signature is "
               "produced on the branch of the same can_sign field that sets the sign flag, wrapped in Some and returned with the subkey; the "
               "subkey-binding helper pushes an EmbeddedSignature subpacket into the hashed area on the Some edge; the builder validates "
               "before building; the sign side applies the key/signature version alignment guards (shared with C15). Not decided: anything "
               "value-dependent (leading-zero MPIs/scalars, re-import equality, usability).")
ASSUMPTIONS = ["derive_builder expands build() as written in the crate's configuration"]

GEN = 'composed::key::builder::SecretKeyParams::generate'

SETTERS = {
    'set_certify': r'field:(SecretKeyParams|SubkeyParams)\.can_certify$',
    'set_sign': r'field:(SecretKeyParams|SubkeyParams)\.can_sign$',
    'set_authentication': r'field:(SecretKeyParams|SubkeyParams)\.can_authenticate$',
    'set_encrypt_comms': r'call:.*EncryptionCaps::is_communication$',
    'set_encrypt_storage': r'call:.*EncryptionCaps::is_storage$',
}
FORBID = {
    'set_encrypt_comms': r'call:.*EncryptionCaps::is_storage$',
    'set_encrypt_storage': r'call:.*EncryptionCaps::is_communication$',
}


def run(ctx):
    P = 'C07'
    bodies = [r for p, r in ctx.f.bodies.items() if p == GEN or r.get('parent') == GEN]
    ctx.floor(P + ':generate:floor', 'bodies of SecretKeyParams::generate (function + closures)', len(bodies), 2)
    nset = 0
    sub = None
    for r in bodies:
        b = ctx.wrap(r)
        for i, t in b.calls(r'KeyFlags::set_[a-z_]+$'):
            nm = t['f']['fn'].split('::')[-1]
            if nm not in SETTERS:
                continue
            nset += 1
            og = b.operand_origins(t['args'][1])
            good = has_origin(og, SETTERS[nm]) and not (nm in FORBID and has_origin(og, FORBID[nm]))
            if nm.startswith('set_encrypt'):
                good &= has_origin(og, r'field:(SecretKeyParams|SubkeyParams)\.can_encrypt$')
            ctx.check('%s:flags:%s:%s' % (P, nm, 'subkey' if r['kind'] == 'Closure' else 'primary'), 'origin',
                      'KeyFlags::%s is fed from the capability it names (%s)' % (nm, 'subkey closure' if r['kind'] == 'Closure' else 'primary key'),
                      good, function=b.path, site=site(b, i))
        if b.calls(r'SecretSubkey::sign_primary_key_binding$'):
            sub = b
    ctx.floor(P + ':flags:floor', 'KeyFlags setter calls in generate', nset, 9)
    if sub is None:
        ctx.missing(P + ':backsig:closure', 'per-subkey closure calling sign_primary_key_binding not found')
    else:
        b = sub
        bs = call_blocks(b, r'SecretSubkey::sign_primary_key_binding$')
        defs = single_defs(b)
        cond = []
        for i, t in b.switches():
            k, v = resolve_value(b, t['o'], defs)
            if k == 'place' and v.get('pr') and v['pr'][-1].endswith('SubkeyParams.can_sign'):
                cond.append(i)
        ok, wit = must_pass(b, bs, cond)
        ctx.check(P + ':backsig:guarded-by-can_sign', 'R-dom', 'the back-signature is produced on a branch of SubkeyParams.can_sign (the field that also sets the sign flag)',
                  ok and bool(cond), function=b.path, guards=[site(b, c) for c in cond])
        # on the true edge the result is wrapped in Some and is part of the returned tuple
        some = [i for i, k, s in b.stmts(lambda s: s['r']['k'] == 'agg' and s['r'].get('v') == 'Some' and s['r'].get('adt', '').endswith('Option'))
                if has_origin(b.operand_origins(b.blocks[i]['s'][k]['r']['o'][0]), r'call:.*sign_primary_key_binding$')]
        ret = [i for i, k, s in b.stmts(lambda s: s['r']['k'] == 'agg' and s['r'].get('ak') == 'tuple' and len(s['r']['o']) == 3)
               if has_origin(b.operand_origins(b.blocks[i]['s'][k]['r']['o'][2]), r'call:.*sign_primary_key_binding$')]
        ctx.check(P + ':backsig:returned-with-subkey', 'origin', 'the back-signature is wrapped in Some and returned as the third component next to the subkey', bool(some) and bool(ret), function=b.path)
        # every true edge of the can_sign branch reaches the back-signature call (no way to set sign without it)
        for c in cond:
            t = b.blocks[c]['t']
            te = t['else']
            reach = b.reach_from([te], removed=frozenset([c]))
            ctx.check(P + ':backsig:true-edge-signs', 'R-dom', 'the can_sign == true edge always calls sign_primary_key_binding', any(x in reach for x in bs) and
                      b.find_path(te, set(ok_exit_blocks(b)), removed=frozenset(bs + [g for g, _ in guard_switches(b, ok_exit_blocks(b), [r'call:.*sign_primary_key_binding$'])])) is None,
                      function=b.path)
    # subkey binding helper embeds the back-signature
    b = ctx.body('packet::key::public::PublicSubkey::sign')
    if b is not None:
        emb = [i for i, k, s in b.constructs(r'SubpacketData$', 'EmbeddedSignature')]
        ok = bool(emb) and all(has_origin(b.operand_origins(s['r']['o'][0]), r'param:7$') for i, k, s in b.constructs(r'SubpacketData$', 'EmbeddedSignature'))
        ctx.check(P + ':binding:embeds-backsig', 'origin', 'PublicSubkey::sign wraps its `embedded` parameter into an EmbeddedSignature subpacket', ok, function=b.path)
        push = [i for i, t in b.calls(r'Vec::<.*>::push$') if has_origin(b.operand_origins(t['args'][1]), r'agg:.*SubpacketData::EmbeddedSignature$')]
        sinks = call_blocks(b, r'SignatureConfig::sign_subkey_binding$')
        dom = b.dominators()
        some_edge = all(any(adt == 'Option' and vs == ['Some'] for adt, vs in arm_context(b, p, dom)) for p in push)
        tgt = all(any(e.endswith('SignatureConfig.hashed_subpackets') for e in (b.blocks[p]['t']['args'][0].get('pr') or []) ) or
                  has_origin(b.operand_origins(b.blocks[p]['t']['args'][0]), r'field:SignatureConfig\.hashed_subpackets$') for p in push)
        ctx.check(P + ':binding:pushed-to-hashed-area', 'R-dom', 'the EmbeddedSignature subpacket is pushed to the hashed area on the Some edge, before signing', bool(push) and some_edge and tgt and bool(sinks), function=b.path)
    # the secret-subkey wrapper passes `embedded` through
    for p, r in sorted(ctx.f.bodies.items()):
        if p.endswith('SecretSubkey::sign') and 'packet::key::secret' in p:
            b = ctx.wrap(r)
            cs = b.calls(r'PublicSubkey::sign$')
            ok = bool(cs) and all(has_origin(b.operand_origins(t['args'][6]), r'param:7$') for i, t in cs if len(t['args']) > 6)
            ctx.check(P + ':binding:secret-wrapper-forwards', 'origin', 'SecretSubkey::sign forwards the embedded back-signature to PublicSubkey::sign', ok, function=p)
    # builder: build() validates
    cands = [p for p in ctx.f.bodies if p.endswith('SecretKeyParamsBuilder::build')]
    for p in cands:
        b = ctx.body(p)
        oks = ok_exit_blocks(b)
        rdom(ctx, P + ':builder:validate-dominates-build', b, oks, [r'call:.*SecretKeyParamsBuilder::validate$'], 'SecretKeyParamsBuilder::build succeeds only after validate() (error propagated)')
    ctx.floor(P + ':builder:floor', 'SecretKeyParamsBuilder::build', len(cands), 1)
    sig.s15_5_version_alignment_sign(ctx, P)
