"""R-table instances: reader/writer code tables extracted from MIR (value-set propagation + arm context)."""
import re
import core
from valueset import VS, param_root, field_root
from rules.common import arm_context, enum_switch_info, edge_variants, site, single_defs, resolve_value
from core import has_origin


def variant_outcome(b):
    def oc(trace, v):
        out = set()
        for i in trace:
            for s in b.blocks[i]['s']:
                if s['d']['l'] == 0 and not s['d']['pr']:
                    if s['r']['k'] == 'agg' and s['r'].get('ak') == 'adt':
                        out.add(s['r']['v'])
                    if s['r']['k'] == 'setdiscr':
                        out.add(s['r']['v'])
        return tuple(sorted(out))
    return oc


def int_to_variant_table(b, domain_max=255, param=1):
    """For `fn(int) -> Enum`: list of (lo, hi, variant names)."""
    vs = VS(b, param_root(param), domain_max)
    return vs.classify(variant_outcome(b))


def variant_to_int_table(b):
    """For `fn(&Enum) -> int` written as a match: {variant: const | 'derived'} from the arms of the first switch on the
    discriminant of the parameter."""
    dom = b.dominators()
    out = {}
    for i, blk in enumerate(b.blocks):
        if blk['c']:
            continue
        srcs = []
        for s in blk['s']:
            if s['d']['l'] == 0 and not s['d']['pr']:
                r = s['r']
                if r['k'] == 'use' and 'k' in r['o'][0] and 'v' in r['o'][0]['k']:
                    srcs.append(r['o'][0]['k']['v'])
                elif r['k'] in ('use', 'cast', 'bin', 'un'):
                    srcs.append('derived')
        t = blk['t']
        if t['k'] == 'call' and t['d']['l'] == 0 and not t['d']['pr']:
            srcs.append('derived')
        if not srcs:
            continue
        ac = [(adt, vs) for adt, vs in arm_context(b, i, dom)]
        for adt, vs in ac[-1:]:
            for v in vs or []:
                out[v] = srcs[0]
    return out


def s2k_usage_tables(ctx, P):
    """octet -> S2kUsage (From<u8>) ; S2kUsage arm -> S2kParams variant constructed (parse_secret_fields) ;
    S2kParams -> octet (From<&S2kParams> for u8).  The composition must be the identity on {0, 1..=252, 253, 254, 255}."""
    b1 = ctx.body('<types::s2k::S2kUsage as std::convert::From<u8>>::from')
    b2 = ctx.body('types::params::secret::parse_secret_fields')
    b3 = ctx.body('types::s2k::<impl std::convert::From<&types::s2k::S2kParams> for u8>::from')
    if b1 is None or b2 is None or b3 is None:
        return
    t1 = int_to_variant_table(b1)
    rfc = [(0, 0, ('Unprotected',)), (1, 252, ('LegacyCfb',)), (253, 253, ('Aead',)), (254, 254, ('Cfb',)), (255, 255, ('MalleableCfb',))]
    ctx.check(P + ':S05-4:usage-octet-decode', 'R-table', 'usage octet -> S2kUsage partition equals RFC 9580 §3.7.2.1 {0, 1..252, 253, 254, 255}',
              t1 == rfc, function=b1.path, table=[list(x) for x in t1])
    # parse_secret_fields: which S2kParams variants are constructed under which S2kUsage arm
    dom = b2.dominators()
    t2 = {}
    for i, k, s in b2.constructs(r'types::s2k::S2kParams$'):
        arms = [vs for adt, vs in arm_context(b2, i, dom) if adt == 'S2kUsage']
        for a in (min(arms, key=len) if arms else ['?']):
            t2.setdefault(a, set()).add(s['r']['v'])
    # unit variant Unprotected may be a setdiscr / aggregate without fields
    for i, k, s in b2.stmts(lambda s: s['r']['k'] == 'setdiscr' and s['r']['v'] == 'Unprotected'):
        arms = [vs for adt, vs in arm_context(b2, i, dom) if adt == 'S2kUsage']
        for a in (min(arms, key=len) if arms else ['?']):
            t2.setdefault(a, set()).add('Unprotected')
    bad = {a: sorted(v) for a, v in t2.items() if v != {a}}
    ctx.check(P + ':S05-4:usage-to-params', 'R-table',
              'parse_secret_fields constructs, for every S2kUsage arm, the S2kParams variant of the same usage (octet is preserved on re-serialisation and selects the right unlock arm)',
              not bad and set(t2) == {'Unprotected', 'LegacyCfb', 'Aead', 'Cfb', 'MalleableCfb'}, function=b2.path,
              table={a: sorted(v) for a, v in t2.items()}, missing=bad)
    t3 = variant_to_int_table(b3)
    want = {'Unprotected': 0, 'LegacyCfb': 'derived', 'Aead': 253, 'Cfb': 254, 'MalleableCfb': 255}
    ctx.check(P + ':S05-4:params-to-octet', 'R-table', 'S2kParams -> usage octet table equals {Unprotected:0, LegacyCfb:cipher id, Aead:253, Cfb:254, MalleableCfb:255}',
              t3 == want, function=b3.path, table=t3)
    # composition
    comp_ok = True
    for lo, hi, vs in t1:
        for v in vs:
            for pv in t2.get(v, ()):
                back = t3.get(pv)
                if back == 'derived':
                    comp_ok &= (v == 'LegacyCfb' and pv == 'LegacyCfb')
                else:
                    comp_ok &= (back is not None and lo <= back <= hi)
    ctx.check(P + ':S05-4:usage-roundtrip', 'R-table', 'encode(parse(decode(octet))) = octet for every usage octet class', comp_ok and bool(t2),
              table=dict(decode=[list(x) for x in t1], parse={a: sorted(v) for a, v in t2.items()}, encode=t3))


def lossless_bool_subpackets(ctx, P):
    """Boolean subpackets (exportable, revocable, primary user id) are re-serialised as 0/1 when a signature is hashed or written,
    so the parser must not collapse other octet values into a boolean: it either rejects them or the re-encoding differs from the
    packet (a signature would verify over bytes that are not in the packet; parse/serialise would not be inverse)."""
    from rules.common import single_defs, resolve_value
    from valueset import VS, param_root
    n = 0
    for p, r in sorted(ctx.f.bodies.items()):
        if not p.startswith('packet::signature::de::') or r.get('kind') == 'Closure':
            continue
        b = ctx.wrap(r)
        defs = single_defs(b)
        sites = []
        for i, k, s in b.constructs(r'SubpacketData$'):
            if len(s['r']['o']) != 1:
                continue
            o = s['r']['o'][0]
            ty = b.r['locals'][o['l']]['ty'] if 'l' in o and not o['pr'] else None
            if ty != 'bool':
                continue
            sites.append((i, s['r']['v'], o))
        if not sites:
            ctx.functions.discard(p)
            continue
        for i, var, o in sites:
            n += 1
            kind, v = resolve_value(b, o, defs)
            key = '%s:S05-8:lossless-bool:%s' % (P, var)
            desc = 'the boolean octet of a %s subpacket is parsed without collapsing values other than 0/1' % var
            if kind == 'rv' and v['k'] == 'bin' and v['op'] in ('Eq', 'Ne', 'Gt', 'Ge', 'Lt', 'Le'):
                ctx.violation(key, 'R-table', desc, function=p, site='%s:%d' % (b.r['file'], b.line(i)),
                              missing='`octet %s const` maps 254 octet values to one boolean; hashing/serialising re-encodes them as 0/1' % v['op'])
                continue
            # value comes out of a helper (through `?`): the helper must partition 0 / 1 / rest with rest -> Err
            og = b.operand_origins(o)
            helpers = [t[5:] for t in og if t.startswith('call:') and ctx.f.body(t[5:]) is not None and t[5:].startswith('packet::signature::de::')]
            ok = False
            tab = None
            for h in helpers:
                hb = ctx.wrap(ctx.f.body(h))
                vs = VS(hb, param_root(1), 255)
                def oc(trace, val, hb=hb):
                    ev = set()
                    for j in trace:
                        for s2 in hb.blocks[j]['s']:
                            if s2['d']['l'] == 0 and s2['r']['k'] == 'agg' and s2['r'].get('v') in ('Ok', 'Err'):
                                x = s2['r']['o'][0]
                                ev.add(s2['r']['v'] + (':%s' % x['k'].get('v') if 'k' in x and 'v' in x['k'] else ''))
                    return tuple(sorted(ev))
                tab = vs.classify(oc)
                if [(lo, hi) for lo, hi, _ in tab] == [(0, 0), (1, 1), (2, 255)] and tab[0][2] == ('Ok:0',) and tab[1][2] == ('Ok:1',) and tab[2][2] == ('Err',):
                    ok = True
            ctx.check(key, 'R-table', desc, ok, function=p, site='%s:%d' % (b.r['file'], b.line(i)), table=[list(x) for x in tab] if tab else None)
    ctx.floor(P + ':S05-8:floor', 'boolean subpacket parse sites', n, 3)
    # the same rule for flag octets reduced to a bool anywhere in the subpacket parser (functions AND closures, e.g.
    # `read_u8().map(|v| v == 0x80)` for the notation flags): a bool computed by comparing a parsed octet with a constant must
    # not be returned or stored - every other octet value collapses into `false` and is re-encoded as a different octet
    from rules import panics
    hits = []
    for p, r in sorted(ctx.f.bodies.items()):
        if not p.startswith('packet::signature::de::'):
            continue
        b = ctx.wrap(r)
        for i, blk in enumerate(b.blocks):
            if blk['c']:
                continue
            for st in blk['s']:
                rr = st['r']
                if rr['k'] == 'bin' and rr['op'] in ('Eq', 'Ne') and any('k' in o and o['k'].get('ty') == 'u8' for o in rr['o']):
                    dep = panics.forward_from(b, st['d']['l'])
                    to_ret = 0 in dep and b.r['locals'][0]['ty'] == 'bool'
                    to_agg = any(s2['r']['k'] == 'agg' and s2['r'].get('ak') == 'adt' and panics._mentions(s2['r'].get('o', []), dep)
                                 for bl in b.blocks if not bl['c'] for s2 in bl['s'])
                    if to_ret or to_agg:
                        hits.append((p, b, i))
    ctx.check(P + ':S05-8:no-octet-collapsed-to-bool', 'R-table', 'no parsed octet of a signature subpacket is reduced to a boolean by `== constant` and then kept (it is matched value by value, other values rejected)',
              not hits, function=hits[0][0] if hits else 'packet::signature::de', site=site(hits[0][1], hits[0][2]) if hits else None,
              missing=None if not hits else 'the flag octet is kept as `octet == const`: every other value is hashed and written back as a different octet than the packet contains')


def bitfield_parse_total(ctx, P):
    """S05-8 (bit level): a `#[bitfield]` type decoded with its generated `from_bits` keeps only the bits of its *named* fields
    (the generated body starts from 0 and calls one setter per field; padding fields get none).  A parser that builds a value the
    library later re-serialises (and hashes) must therefore not go through a `from_bits` that leaves bits uncovered: the dropped
    bits come back as 0 - a different octet than the packet contains.  Covered bits are read off the generated MIR
    (`(bits >> k) & (MAX >> (W - w))` before each setter call)."""
    from rules.panics import const_eval
    cover = {}
    for p, r in sorted(ctx.f.bodies.items()):
        if not p.endswith('::from_bits'):
            continue
        b = ctx.wrap(r)
        if not any('bitfield' in (t.get('mac') or []) for _, t in b.calls()):
            ctx.functions.discard(p)
            continue
        defs = single_defs(b)
        width = {'u8': 8, 'u16': 16, 'u32': 32, 'u64': 64}.get(b.r['locals'][1]['ty'])
        bits = set()
        ok = width is not None
        for i, t in b.calls(r'::set_\w+$'):
            if len(t['args']) < 2:
                continue
            # argument 1 = `(x >> k) & mask [!= 0]`
            k, v = resolve_value(b, t['args'][1], defs)
            if k == 'rv' and v['k'] == 'bin' and v['op'] == 'Ne':
                k, v = resolve_value(b, v['o'][0], defs)
            if k == 'rv' and v['k'] == 'cast':
                k, v = resolve_value(b, v['o'][0], defs)
            if not (k == 'rv' and v['k'] == 'bin' and v['op'] == 'BitAnd'):
                ok = False
                continue
            sh, mask = None, None
            for o in v['o']:
                kk, vv = resolve_value(b, o, defs)
                if kk == 'rv' and vv['k'] == 'bin' and vv['op'] == 'Shr':
                    c0 = const_eval(b, vv['o'][0], defs)
                    c1 = const_eval(b, vv['o'][1], defs)
                    if c0 is not None and c1 is not None:
                        mask = c0 >> c1
                    elif c1 is not None:
                        sh = c1
                elif kk == 'const':
                    mask = vv
            if sh is None or mask is None:
                ok = False
                continue
            for j in range(64):
                if (mask >> j) & 1:
                    bits.add(sh + j)
        cover[p] = (ok, width, bits)
    ctx.floor(P + ':S05-8:bitfield:floor', 'generated bitfield decoders', len(cover), 4)
    lossy = {p: sorted(set(range(w)) - bits) for p, (ok, w, bits) in cover.items() if ok and w and set(range(w)) - bits}
    unread = [p for p, (ok, w, bits) in cover.items() if not ok]
    ctx.check(P + ':S05-8:bitfield:decoders-read', 'R-table', 'the covered bits of every generated bitfield decoder could be read off its body', not unread,
              function=unread[0] if unread else 'from_bits', missing=unread or None)
    # parsers = functions that pull octets from a reader / slice and call a lossy decoder
    hits = []
    for p, r in sorted(ctx.f.bodies.items()):
        if p.endswith('::from_bits') or '::tests::' in p:
            continue
        b = None
        for lp in lossy:
            rx = re.escape(lp) + '$'
            bb = ctx.wrap(r) if b is None else b
            b = bb
            cs = bb.calls(rx)
            if not cs:
                continue
            for i, t in cs:
                og = bb.operand_origins(t['args'][0]) if t['args'] else set()
                wire = any(re.search(r'^call:.*(read_u8|read_le_u16|read_be_u16|read_u16|read_be_u32|get_u8|get_u16|rest|read_array|read_arr)$', x) for x in og)
                if wire:
                    hits.append((p, bb, i, lp))
        if b is not None and not any(h[0] == p for h in hits):
            ctx.functions.discard(p)
    ctx.check(P + ':S05-8:bitfield:parse-keeps-every-bit', 'R-table',
              'no parser decodes wire octets through a generated `from_bits` that drops bits (%d decoders, %d of them lossy)' % (len(cover), len(lossy)),
              not hits, function=hits[0][0] if hits else 'from_bits', site=site(hits[0][1], hits[0][2]) if hits else None,
              missing=None if not hits else '%s goes through %s which leaves bits %s at 0: reserved bits of the parsed octets are written back and hashed as 0'
              % (', '.join(sorted(set(h[0] for h in hits))), hits[0][3], lossy[hits[0][3]]))


RFC_IDS = {   # RFC 9580 §9.1–9.6, §5.2.1 (enum discriminants = wire ids)
    'crypto::public_key::PublicKeyAlgorithm': {'RSA': 1, 'RSAEncrypt': 2, 'RSASign': 3, 'ElgamalEncrypt': 16, 'DSA': 17, 'ECDH': 18, 'ECDSA': 19, 'Elgamal': 20,
                                               'DiffieHellman': 21, 'EdDSALegacy': 22, 'X25519': 25, 'X448': 26, 'Ed25519': 27, 'Ed448': 28},
    'crypto::sym::SymmetricKeyAlgorithm': {'Plaintext': 0, 'IDEA': 1, 'TripleDES': 2, 'CAST5': 3, 'Blowfish': 4, 'AES128': 7, 'AES192': 8, 'AES256': 9, 'Twofish': 10,
                                           'Camellia128': 11, 'Camellia192': 12, 'Camellia256': 13},
    'crypto::hash::HashAlgorithm': {'Md5': 1, 'Sha1': 2, 'Ripemd160': 3, 'Sha256': 8, 'Sha384': 9, 'Sha512': 10, 'Sha224': 11, 'Sha3_256': 12, 'Sha3_512': 14},
    'crypto::aead::AeadAlgorithm': {'Eax': 1, 'Ocb': 2, 'Gcm': 3},
    'packet::signature::types::SignatureType': {'Binary': 0, 'Text': 1, 'Standalone': 2, 'CertGeneric': 16, 'CertPersona': 17, 'CertCasual': 18, 'CertPositive': 19,
                                                'SubkeyBinding': 24, 'KeyBinding': 25, 'Key': 31, 'KeyRevocation': 32, 'SubkeyRevocation': 40, 'CertRevocation': 48,
                                                'Timestamp': 64, 'ThirdParty': 80},
    'types::compression::CompressionAlgorithm': {'Uncompressed': 0, 'ZIP': 1, 'ZLIB': 2, 'BZip2': 3},
    'types::packet::KeyVersion': {'V2': 2, 'V3': 3, 'V4': 4, 'V5': 5, 'V6': 6},
}


def rfc_id_tables(ctx, P, only=None):
    """Wire ids of the algorithm / type enums (their discriminants, which num_enum encodes and decodes) equal the RFC 9580 registries."""
    for adt, want in RFC_IDS.items():
        if only and not re.search(only, adt):
            continue
        a = ctx.f.adts.get(adt)
        if a is None:
            ctx.missing('%s:ids:%s' % (P, adt.split('::')[-1]), adt + ' not found')
            continue
        got = {v['n']: v['d'] for v in a['vars'] if not v['fields']}
        bad = {n: got.get(n) for n, d in want.items() if got.get(n) != d}
        clash = sorted(n for n, d in got.items() if n not in want and d in want.values())
        ctx.check('%s:ids:%s' % (P, adt.split('::')[-1]), 'R-table', 'wire ids of %s equal the RFC 9580 registry' % adt.split('::')[-1], not bad and not clash, function=adt,
                  table=got, missing=(bad or clash) or None)


def bit_counts_round_up(ctx, P):
    """A count of bits becomes a count of octets by rounding UP (`(n + 7) / 8`): an MPI of 521 bits has 66 octets, a P-521 coordinate
    too.  Every division by 8 / shift by 3 whose operand derives from a bit count that need not be a multiple of 8 - a count read from
    the input, or a crate accessor whose table of values contains one that is not (ECCCurve::nbits: 521) - has the `+ 7` in it."""
    from rules.common import single_defs
    n = 0
    bitfn = {}
    for p, r in ctx.f.bodies.items():
        if re.search(r'::(nbits|bits|bit_len|bit_size|bit_length)$', p) and '::tests::' not in p:
            try:
                tab = variant_to_int_table(ctx.wrap(r))
            except Exception:
                tab = {}
            vals = [v for v in tab.values() if isinstance(v, int)]
            if any(v % 8 for v in vals) or not vals:
                bitfn[p] = vals
    for p, r in sorted(ctx.f.bodies.items()):
        if '::tests::' in p or r.get('derived'):
            continue
        b = ctx.wrap(r)
        m = 0
        for i, k, st in b.stmts(lambda st: st['r']['k'] == 'bin' and st['r']['op'] in ('Div', 'Shr', 'ShrUnchecked')):
            o = st['r']['o']
            c = o[1]['k'].get('v') if 'k' in o[1] else None
            if not ((st['r']['op'] == 'Div' and c == 8) or (st['r']['op'] != 'Div' and c == 3)):
                continue
            og = b.operand_origins(o[0])
            from_bits = [x for x in og if x.startswith('call:') and (x[5:] in bitfn or re.search(r'::(nbits|bit_len|bit_size|bit_length)$', x))]
            from_wire = has_origin(og, r'call:.*BufReadParsing::read_(be_)?u(16|32)$') and not has_origin(og, r'op:(BitAnd|Shl)$')
            if not from_bits and not from_wire:
                continue
            n += 1
            m += 1
            ok = has_origin(og, r'const:7:')
            ctx.check('%s:bits-to-octets-round-up:%s#%d' % (P, p, m), 'R-table', 'the bit count converted to octets in %s is rounded up (+ 7 before / 8)' % '::'.join(p.split('::')[-2:]),
                      ok, function=p, site='%s:%s' % (r['file'], st['ln']),
                      missing=None if ok else 'a bit count (%s) is divided by 8 without adding 7 first: a count that is not a multiple of 8 (521) loses its last octet' % (from_bits or ['read from the input'])[0])
    ctx.floor(P + ':bits-to-octets:floor', 'conversions of a bit count to an octet count', n, 1)


def eval_u8_decoder(f, path, value, depth=0):
    """Constant folding of a small pure decoder `fn(u8) -> Result<Enum, _>` / `-> Enum` for one input value: integer statements,
    comparisons, `switchInt`, variant aggregates; a call to another crate function with the same shape is followed (2 levels), any other
    call ends the evaluation with ('other', callee).  Returns ('Ok', variant) | ('Err',) | ('variant', name) | ('other', why)."""
    r = f.bodies.get(path)
    if r is None or depth > 2:
        return ('other', 'no body')
    env = {1: value}
    agg = {}
    blocks = r['blocks']
    i = 0
    for _ in range(200):
        blk = blocks[i]
        for st in blk['s']:
            d, rv = st['d'], st['r']
            if d['pr']:
                continue
            def val(o):
                if 'k' in o:
                    v = o['k'].get('v')
                    return int(v) if isinstance(v, (bool, int)) else None
                if o.get('pr'):
                    return None
                return env.get(o['l'])
            if rv['k'] == 'use':
                o = rv['o'][0]
                if 'l' in o and not o['pr'] and o['l'] in agg:
                    agg[d['l']] = agg[o['l']]
                else:
                    env[d['l']] = val(o)
            elif rv['k'] == 'cast':
                env[d['l']] = val(rv['o'][0])
            elif rv['k'] == 'un':
                v = val(rv['o'][0])
                env[d['l']] = None if v is None else (int(not v) if rv['op'] == 'Not' else None)
            elif rv['k'] == 'bin':
                a, b2 = val(rv['o'][0]), val(rv['o'][1])
                op = rv['op']
                if a is None or b2 is None:
                    env[d['l']] = None
                else:
                    env[d['l']] = {'BitAnd': a & b2, 'BitOr': a | b2, 'BitXor': a ^ b2, 'Eq': int(a == b2), 'Ne': int(a != b2), 'Lt': int(a < b2), 'Le': int(a <= b2),
                                   'Gt': int(a > b2), 'Ge': int(a >= b2), 'Add': a + b2, 'Sub': a - b2, 'Shr': a >> b2 if b2 < 64 else 0, 'Shl': (a << b2) & 0xFF if b2 < 64 else 0}.get(op.replace('Unchecked', '').replace('WithOverflow', ''))
            elif rv['k'] == 'agg' and rv.get('ak') == 'adt':
                inner = [agg.get(o['l']) for o in rv['o'] if 'l' in o and not o['pr']]
                agg[d['l']] = (rv.get('adt', '').split('::')[-1], rv.get('v'), inner[0] if inner else None)
            else:
                env[d['l']] = None
        t = blk['t']
        if t['k'] == 'goto':
            i = t['t']
        elif t['k'] == 'switch':
            o = t['o']
            v = env.get(o['l']) if ('l' in o and not o['pr']) else None
            if v is None:
                return ('other', 'switch on an unknown value')
            nxt = [bb for c, bb in t['targets'] if c == v]
            i = nxt[0] if nxt else t['else']
        elif t['k'] == 'return':
            a = agg.get(0)
            if a is None:
                return ('other', 'no aggregate returned')
            if a[0] == 'Result':
                return ('Ok', a[2][1]) if (a[1] == 'Ok' and a[2]) else ('Err',)
            return ('variant', a[1])
        elif t['k'] == 'call':
            callee = t['f'].get('res') or t['f'].get('fn')
            if callee in f.bodies and len(t['args']) == 1 and not t['d']['pr']:
                a0 = t['args'][0]
                v = env.get(a0['l']) if ('l' in a0 and not a0['pr']) else None
                if v is not None:
                    res = eval_u8_decoder(f, callee, v, depth + 1)
                    if res[0] in ('Ok', 'Err', 'variant'):
                        if t['d']['l'] == 0:
                            if t.get('t') is not None and blocks[t['t']]['t']['k'] == 'return' and not blocks[t['t']]['s']:
                                return res
                        return ('other', 'result of %s used further' % callee)
            return ('Err',) if re.search(r'Error', callee or '') else ('other', callee)
        else:
            return ('other', t['k'])
    return ('other', 'too long')


def revocation_class_decoded_exactly(ctx, P):
    """A Revocation Key subpacket is hashed from its PARSED fields (class, algorithm, fingerprint) and the class is written as the
    discriminant of the enum: the decoder `u8 -> RevocationKeyClass` has to be exact - the only octets it accepts are the two
    discriminants, each mapped to itself - or octets that differ in the "reserved" bits hash alike and a changed class octet in the
    hashed area goes unnoticed.  Decided by constant folding of the decoder for all 256 octets."""
    path = '<types::revocation_key::RevocationKeyClass as std::convert::TryFrom<u8>>::try_from'
    if path not in ctx.f.bodies:
        ctx.missing(P + ':S05-8:revocation-class-exact', 'TryFrom<u8> for RevocationKeyClass not found')
        return
    adt = ctx.f.adts.get('types::revocation_key::RevocationKeyClass')
    table, other = {}, {}
    for v in range(256):
        res = eval_u8_decoder(ctx.f, path, v)
        if res[0] == 'Ok':
            table[v] = res[1]
        elif res[0] != 'Err':
            other[v] = res[1]
    want = {0x80: 'Default', 0xC0: 'Sensitive'}
    ctx.check(P + ':S05-8:revocation-class-exact', 'R-table', 'the revocation key class octet is decoded exactly: 0x80 -> Default, 0xC0 -> Sensitive, everything else refused',
              table == want and not other, function=path, table={hex(k): v for k, v in sorted(table.items())[:8]},
              missing=None if (table == want and not other) else ('the decoder could not be evaluated for %d octets (%s)' % (len(other), list(other.values())[:1]) if other
                                                                  else 'accepted octets: %d (e.g. %s) - octets that only differ in reserved bits decode to the same class and hash alike' % (len(table), [hex(k) for k in sorted(table)[:5]])))
