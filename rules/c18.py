"""C18 Recipients (DESIGN §5 C18) — narrow: a session key is accepted only after its plausibility / integrity check."""
import re
from rules.common import (rdom, call_blocks, ok_exit_blocks, site, arm_context, enum_switch_info, edge_variants,
                          direct_cmp_switches, is_call_to, accept_edge, single_defs, resolve_value)
from core import guard_switches, must_pass, fmt_path, has_origin

EXPLANATION = ("Decides structural clauses of C18, not the behaviour: in PlainSecretParams::decrypt every session key cut out of "
               "public-key-decrypted octets is returned only after checksum::simple (error propagated), after the length guards, and for "
               "v3 ESKs after rejecting the Plaintext algorithm; the X25519 arm accepts only the (ESK type, algorithm present) cells "
               "(V3_4, Some) and (V6, None); SymKeyEncryptedSessionKey::decrypt returns a v4 key only after the key-size plausibility "
               "branch and v5/v6 keys only after AEAD decryption succeeded; TheRing::find_session_key returns a key from the comparison "
               "section only after three rejecting consistency branches; absence of a key is Error::MissingKey; try_decrypt never pairs a "
               "failure with a session key; PKESK::match_identity compares with the key's own id / fingerprint. Not decided: that each "
               "recipient can decrypt, decoy/ordering behaviour.")
ASSUMPTIONS = ["checksum::simple and AeadAlgorithm::decrypt_in_place do what their names say"]


def structural_equality(ctx, P):
    """The conflict check compares session keys with `!=`: that comparison must be the derived, structural one (a hand-written
    eq that e.g. ignores lengths would make conflicting keys compare equal)."""
    for ty in ('composed::message::decrypt::PlainSessionKey', 'composed::message::decrypt::RawSessionKey'):
        impls = [i for i in ctx.f.impls if i.get('self_adt') == ty and i.get('trait') == 'std::cmp::PartialEq']
        ok = bool(impls) and all(i.get('derived') for i in impls)
        ctx.check('%s:ring:derived-eq:%s' % (P, ty.split('::')[-1]), 'R-who', 'PartialEq of %s is the derived structural comparison' % ty.split('::')[-1], ok,
                  missing=None if ok else 'hand-written PartialEq: the session-key conflict check no longer compares whole keys', count=len(impls))


def run(ctx):
    P = 'C18'
    structural_equality(ctx, P)
    plain_decrypt(ctx, P)
    skesk_decrypt(ctx, P)
    ring(ctx, P)
    subkey_search(ctx, P)
    per_esk_key_status_reset(ctx, P)
    pkesk_identity(ctx, P)
    locked_flag_of_same_key(ctx, P)
    checksum_helpers(ctx, P)
    mpi_length_not_exact(ctx, P)
    unlock_failure_in_outer_result(ctx, P)
    from rules import tables
    tables.bit_counts_round_up(ctx, P)
    # a recipient field that does not parse must not silently become "no recipient" (the wildcard that matches every key): no error
    # is dropped while the identifiers of ESK packets are read (R-err of C09 restricted to those parsers)
    from rules import stream
    stream.r_err(ctx, P, only=r'packet::(public_key_encrypted_session_key|sym_key_encrypted_session_key)::|types::(pkesk|fingerprint|key_id)::', floor=250)


def unlock_failure_in_outer_result(ctx, P):
    """`DecryptionKey::decrypt` returns `Result<Result<PlainSessionKey>>`: the OUTER error means "this password does not unlock the
    key" - the ring then tries the next candidate password - the INNER error means "unlocked, but this is not the recipient's key".
    An implementation that unlocks must hand the result of `unlock` back as its own (outer) result; wrapping a helper's collapsed
    result into `Ok(..)` moves a wrong-password failure into the inner channel and the ring stops after the first candidate."""
    n = 0
    def reaches_unlock(path, depth=0):
        r = ctx.f.body(path)
        if r is None or depth > 2:
            return False
        bb = ctx.wrap(r)
        for _, t in bb.calls():
            fn = t['f'].get('fn', '') or ''
            if re.search(r'::unlock$', fn):
                return True
            if depth < 2 and ctx.f.body(fn) is not None and fn.startswith('packet::key::') and reaches_unlock(fn, depth + 1):
                return True
        return False
    for p, r in sorted(ctx.f.bodies.items()):
        if not re.search(r' as types::key_traits::DecryptionKey>::decrypt$', p) or '::tests::' in p:
            continue
        b = ctx.wrap(r)
        if not reaches_unlock(p):
            ctx.functions.discard(p)
            continue
        n += 1
        # the unlock result is what is returned: directly, or through plain copies of the local it was stored in
        from rules.common import single_defs, resolve_value
        defs = single_defs(b)
        direct = [i for i, t in b.calls(r'::unlock$') if t['d']['l'] == 0 and not t['d']['pr']]
        for i, k, st in b.stmts(lambda st: st['d']['l'] == 0 and not st['d']['pr'] and st['r']['k'] == 'use'):
            kk, vv = resolve_value(b, st['r']['o'][0], defs)
            if kk == 'call' and re.search(r'::unlock$', vv['f'].get('fn', '') or ''):
                direct.append(i)
        wrapped = []
        for i, k, st in b.stmts(lambda st: st['d']['l'] == 0 and not st['d']['pr'] and st['r']['k'] == 'agg' and st['r'].get('v') == 'Ok'):
            og = b.operand_origins(st['r']['o'][0]) if st['r']['o'] else set()
            for tok in og:
                if tok.startswith('call:') and reaches_unlock(tok[5:], 1):
                    wrapped.append(i)
        ctx.check('%s:ring:unlock-failure-is-outer:%s' % (P, p[1:].split(' as ')[0].split('::')[-1]), 'R-dom',
                  'DecryptionKey::decrypt of %s returns the result of unlock() as its outer result (a wrong key password is "try the next one", not "invalid")' % p[1:].split(' as ')[0].split('::')[-1],
                  bool(direct) and not wrapped, function=p, site=site(b, wrapped[0]) if wrapped else None,
                  missing=None if (direct and not wrapped) else 'the unlock failure is wrapped into Ok(..): TheRing::try_decrypt reads it as Invalid and stops trying the remaining passwords')
    ctx.floor(P + ':ring:unlock-failure-is-outer:floor', 'DecryptionKey implementations that unlock secret key material', n, 2)


def psk_constructs(b):
    return b.constructs(r'PlainSessionKey$')


def plain_decrypt(ctx, P):
    b = ctx.body('types::params::plain_secret::PlainSecretParams::decrypt')
    if b is None:
        return
    dom = b.dominators()
    cons = psk_constructs(b)
    ctx.floor(P + ':plain:floor', 'PlainSessionKey constructions in PlainSecretParams::decrypt', len(cons), 6)
    sliced = []
    for i, k, s in cons:
        idx = s['r']['fields'].index('key')
        if has_origin(b.operand_origins(s['r']['o'][idx]), r'call:.*Index::index$'):
            sliced.append((i, s['r']['v']))
    ctx.floor(P + ':plain:sliced-floor', 'session keys cut out of decrypted octets (V3_4 and V6 tail arms)', len(sliced), 2)
    for i, v in sliced:
        rdom(ctx, P + ':plain:checksum:%s' % v, b, [i], [r'call:.*checksum::simple$'],
             'PlainSessionKey::%s cut from decrypted octets is returned only after checksum::simple succeeded' % v)
        if v == 'V3_4':
            rdom(ctx, P + ':plain:not-plaintext', b, [i], [r'agg:.*SymmetricKeyAlgorithm::Plaintext$'],
                 'a v3 session key with algorithm Plaintext is rejected')
            rdom(ctx, P + ':plain:len-v3', b, [i], [r'call:.*SymmetricKeyAlgorithm::key_size$', r'call:.*len$'],
                 'v3: decrypted length must equal key_size + 3 before slicing')
            # ... and the comparison is an equality: a `>=` would accept trailing octets after the checksum as a plausible session key
            defs = single_defs(b)
            eqg = []
            for g, _ in guard_switches(b, [i], [r'call:.*SymmetricKeyAlgorithm::key_size$', r'call:.*len$']):
                k, v = resolve_value(b, b.blocks[g]['t']['o'], defs)
                if k == 'rv' and v['k'] == 'un':
                    k, v = resolve_value(b, v['o'][0], defs)
                if (k == 'rv' and v['k'] == 'bin' and v['op'] in ('Eq', 'Ne')) or (k == 'call' and re.search(r'PartialEq::(eq|ne)$', v['f'].get('fn', ''))):
                    eqg.append(g)
            ok, wit = must_pass(b, [i], eqg)
            ctx.check(P + ':plain:len-v3-exact', 'R-dom', 'v3: the length check is an equality (decrypted octets = algorithm octet + key + 2 checksum octets, nothing more)',
                      ok and bool(eqg), function=b.path, guards=[site(b, g) for g in eqg])
        if v == 'V6':
            dg = [g for g, op, _ in direct_cmp_switches(b, is_call_to(r'::len$'), lambda c: c == 2)]
            ok, wit = must_pass(b, [i], dg)
            ctx.check(P + ':plain:len-v6', 'R-dom', 'v6: decrypted length >= 2 is checked before slicing off the checksum', ok and bool(dg), function=b.path,
                      guards=[site(b, g) for g in dg], witness=fmt_path(b, wit) if wit else None)
    # X25519 arm table
    cells = set()
    for i, k, s in cons:
        ac = arm_context(b, i, dom)
        if not any(adt == 'PkeskBytes' and vs == ['X25519'] for adt, vs in ac) and not any(adt == 'PlainSecretParams' and vs == ['X25519'] for adt, vs in ac):
            continue
        et = [tuple(vs) for adt, vs in ac if adt == 'EskType']
        op = [tuple(vs) for adt, vs in ac if adt == 'Option']
        cells.add((s['r']['v'], et[-1] if et else None, op[-1] if op else None))
    ctx.check(P + ':plain:x25519-cells', 'R-table', 'X25519: accepted (ESK type, algorithm octet) cells are (V3_4, Some) -> V3_4 key and (V6, None) -> V6 key',
              cells == {('V3_4', ('V3_4',), ('Some',)), ('V6', ('V6',), ('None',))}, function=b.path, table=sorted(map(str, cells)))


def skesk_decrypt(ctx, P):
    b = ctx.body('packet::sym_key_encrypted_session_key::SymKeyEncryptedSessionKey::decrypt')
    if b is None:
        return
    cons = psk_constructs(b)
    ctx.floor(P + ':skesk:floor', 'PlainSessionKey constructions in SKESK decrypt', len(cons), 3)
    for i, k, s in cons:
        v = s['r']['v']
        if v == 'V3_4':
            rdom(ctx, P + ':skesk:v4-plausibility', b, [i], [r'call:.*SymmetricKeyAlgorithm::key_size$'],
                 'v4 SKESK: the key is accepted only after the key-size plausibility branch')
            # the branch also compares with the key length
            gs = guard_switches(b, [i], [r'call:.*SymmetricKeyAlgorithm::key_size$', r'call:.*len$'])
            ctx.check(P + ':skesk:v4-plausibility-len', 'R-dom', 'v4 SKESK: key size is compared with the decrypted key length (rejecting)', bool(gs), function=b.path,
                      guards=[site(b, g) for g, _ in gs])
            # ... and the size it is compared with belongs to the cipher named INSIDE the decrypted session key (first octet), which is
            # also the cipher stored with the key — not to the cipher of the SKESK packet (RFC 9580 §5.3.1 lets them differ)
            ks = b.calls(r'SymmetricKeyAlgorithm::key_size$')
            defs_ = single_defs(b)
            def from_octet(o):
                for _ in range(6):
                    k_, v_ = resolve_value(b, o, defs_)
                    if k_ == 'call':
                        return bool(re.search(r'From<u8>.*::from$|convert::From::from$', (v_['f'].get('res') or '') + ' ' + v_['f'].get('fn', '')))
                    if k_ == 'rv' and v_['k'] == 'ref' and not [x for x in v_['p']['pr'] if x != '*']:
                        o = dict(l=v_['p']['l'], pr=[], mv=0)
                        continue
                    return False
                return False
            inner = [j for j, t in ks if from_octet(t['args'][0])]
            gsi = [g for g, _ in guard_switches(b, [i], [r'cs:.*SymmetricKeyAlgorithm::key_size#(%s)$' % '|'.join(str(j) for j in inner), r'call:.*len$'])] if inner else []
            idx = s['r']['fields'].index('sym_alg') if 'sym_alg' in s['r'].get('fields', []) else None
            same = idx is not None and has_origin(b.operand_origins(s['r']['o'][idx]), r'callres:.*From<u8>.*::from$|call:std::convert::From::from$')
            ctx.check(P + ':skesk:v4-plausibility-inner-cipher', 'R-dom', 'v4 SKESK: the plausibility test uses key_size() of the cipher decoded from the decrypted octets, the cipher that is returned with the key',
                      bool(gsi) and same, function=b.path, guards=[site(b, g) for g in gsi])
        else:
            rdom(ctx, P + ':skesk:%s-aead' % v.lower(), b, [i], [r'call:.*AeadAlgorithm::decrypt_in_place$'],
                 '%s SKESK: the key is returned only after AEAD decryption succeeded' % v)


def ring(ctx, P):
    cands = [p for p in ctx.f.bodies if p.endswith('::find_session_key') and 'TheRing' in p]
    b = ctx.body(cands[0]) if cands else ctx.body("composed::message::types::TheRing::find_session_key")
    if b is not None:
        oks = ok_exit_blocks(b)
        # Ok exits after the comparison section = those reachable from a PlainSessionKey `ne` comparison
        cmp_blocks = [i for i, t in b.calls(r'PartialEq::ne$|PartialEq::eq$') if 'PlainSessionKey' in t['f'].get('selfty', '')]
        ctx.floor(P + ':ring:cmp-floor', 'session-key comparisons in find_session_key', len(cmp_blocks), 3)
        after = b.reach_from(cmp_blocks)
        late_oks = [i for i in oks if i in after]
        gs = [g for g, _ in guard_switches(b, late_oks, [r'callty:.*PartialEq::(ne|eq)@.*PlainSessionKey'])]
        ok, wit = must_pass(b, late_oks, gs)
        # the rejecting branch(es) must depend on all three independent comparisons (PKESK / SKESK / explicit keys)
        sites = set()
        for g in gs:
            sites |= set(t for t in b.switch_origins(g) if re.match(r'csite:.*PartialEq::(ne|eq)@.*PlainSessionKey#', t))
        ctx.check(P + ':ring:consistency-guards', 'R-dom',
                  'every Ok exit after the comparison section passes a rejecting branch that depends on the three session-key comparisons (PKESK, SKESK, explicit keys)',
                  ok and len(sites) >= 3 and bool(late_oks), function=b.path, guards=[site(b, g) for g in gs], count=len(sites),
                  witness=fmt_path(b, wit) if wit else None)
        # ... and the session keys obtained through DIFFERENT mechanisms are compared with each other as well (a right password plus a
        # wrong explicit session key is a conflict, not a silent choice): one comparison per pair of groups
        SRC = {'pkesk': r'call:.*try_decrypt$', 'skesk': r'call:.*decrypt_session_key_with_password$', 'explicit': r'field:TheRing\.session_keys$'}
        import callgraph
        edges = {i: set(j for j, _ in b.succ(i)) for i in range(len(b.blocks)) if not b.blocks[i]['c']}
        inloop = set()
        for comp in callgraph.sccs(edges):
            if len(comp) > 1 or comp[0] in edges.get(comp[0], ()):
                inloop |= set(comp)
        # within-group comparisons run inside the loops over a group; comparisons between group representatives are outside any loop.
        # (`self` makes every operand also derive from the explicit keys, so a comparison is identified by its non-explicit groups:
        #  {pkesk, skesk}, {pkesk} = pkesk vs explicit, {skesk} = skesk vs explicit.)
        # a comparison may go through a helper `fn(&PlainSessionKey, &PlainSessionKey) -> bool` (the same key can come in two forms:
        # v3 PKESK / v5 SKESK of one GnuPG AEAD container): it counts if every way through it passes an equality of session keys
        def is_key_comparator(q):
            r_ = ctx.f.bodies.get(q)
            if r_ is None or r_['nargs'] != 2 or r_['locals'][0]['ty'] != 'bool' or not all('PlainSessionKey' in (r_['locals'][k]['ty'] or '') for k in (1, 2)):
                return False
            hb = ctx.wrap(r_)
            eqs = [j for j, tt in hb.calls(r'PartialEq::(eq|ne)$') if re.search(r'PlainSessionKey|RawSessionKey', tt['f'].get('selfty') or '')]
            return bool(eqs) and must_pass(hb, hb.returns(), eqs)[0]
        pairs = set()
        cmp_calls = [(i, t) for i, t in b.calls(r'PartialEq::(eq|ne)$') if 'PlainSessionKey' in (t['f'].get('selfty') or '')]
        helper_cmp = [(i, t) for i, t in b.calls() if (t['f'].get('res') or t['f'].get('fn')) in ctx.f.bodies and is_key_comparator(t['f'].get('res') or t['f'].get('fn'))]
        for i, t in cmp_calls + helper_cmp:
            if len(t['args']) < 2 or i in inloop:
                continue
            g = set()
            for a_ in t['args'][:2]:
                g |= set(k for k, rx in SRC.items() if has_origin(b.operand_origins(a_), rx))
            ne = g - {'explicit'}
            if ne == {'pkesk', 'skesk'}:
                pairs.add(frozenset({'pkesk', 'skesk'}))
            elif len(ne) == 1 and 'explicit' in g:
                pairs.add(frozenset(ne | {'explicit'}))
        want = {frozenset({'pkesk', 'skesk'}), frozenset({'pkesk', 'explicit'}), frozenset({'skesk', 'explicit'})}
        # within a group EVERY collected key is compared with the reference: the comparison sits in a loop (or an all()/any() closure)
        # over the group, and no element-dropping iterator adaptor is applied to a vector of session keys
        within = set()
        for i, t in b.calls(r'PartialEq::(eq|ne)$'):
            if 'PlainSessionKey' in (t['f'].get('selfty') or '') and i in inloop and len(t['args']) >= 2:
                g = set()
                for a_ in t['args'][:2]:
                    g |= set(k for k, rx in SRC.items() if has_origin(b.operand_origins(a_), rx))
                within |= (g - {'explicit'}) or g
        for cr in ctx.f.closures_of(b.path):
            cb = ctx.wrap(cr)
            if any('PlainSessionKey' in (t['f'].get('selfty') or '') for i, t in cb.calls(r'PartialEq::(eq|ne)$')):
                # which group feeds the adaptor that takes this closure
                for i, t in b.calls(r'Iterator::(all|any)$'):
                    if any(isinstance(a_, dict) and a_.get('l') is not None for a_ in t['args']):
                        g = set(k for k, rx in SRC.items() if has_origin(b.operand_origins(t['args'][0]), rx))
                        within |= (g - {'explicit'}) or g
        dropping = [i for i, t in b.calls(r'Iterator::(skip|take|step_by|skip_while|take_while|filter|nth|last)$')
                    if any(has_origin(b.operand_origins(t['args'][0]), rx) for rx in SRC.values())]
        ctx.check(P + ':ring:within-group-all-compared', 'R-dom', 'inside each group every collected session key is compared with the reference (a loop / all() over the whole group, no skip / take / filter on it)',
                  {'pkesk', 'skesk', 'explicit'} <= within and not dropping, function=b.path, table=sorted(within),
                  site=site(b, dropping[0]) if dropping else None,
                  missing=('an element-dropping iterator adaptor is applied to collected session keys' if dropping else 'groups with a complete comparison: %s' % sorted(within)))
        gs2 = [g for g, _ in guard_switches(b, late_oks, [r'callty:.*PartialEq::(ne|eq)@.*PlainSessionKey'])]
        for i, t in helper_cmp:
            gs2 += [g for g, _ in guard_switches(b, late_oks, [r'cs:.*#%d$' % i])]
        ctx.check(P + ':ring:cross-group-consistency', 'R-dom', 'session keys obtained from PKESKs, from SKESKs and given explicitly are compared across the three groups (rejecting) before one is returned',
                  want <= pairs and bool(gs2), function=b.path, table=sorted(sorted(x) for x in pairs),
                  missing=None if want <= pairs else 'groups are only checked internally: pairs compared %s; a correct password plus a wrong explicit session key is silently resolved' % sorted(sorted(x) for x in pairs))
        # the same session key comes in two FORMS in front of a GnuPG AEAD container (v3 PKESK: V3_4{sym_alg, key}; v5 SKESK: V5{key};
        # both admitted by the container table that C15 decides): the derived equality of PlainSessionKey tells the forms apart, so a
        # comparison ACROSS mechanisms by `==` reports a conflict when a recipient key and the password of the same message are
        # presented together.  Cross-group comparisons go through a comparator that looks inside both forms.
        direct_cross = []
        for i, t in cmp_calls:
            if len(t['args']) < 2 or i in inloop:
                continue
            g = set()
            for a_ in t['args'][:2]:
                g |= set(k for k, rx in SRC.items() if has_origin(b.operand_origins(a_), rx))
            ne = g - {'explicit'}
            if ne == {'pkesk', 'skesk'} or (len(ne) == 1 and 'explicit' in g):
                direct_cross.append(i)
        ctx.check(P + ':ring:cross-group-compares-key-octets', 'R-table', 'session keys from different mechanisms are compared by a comparator that relates the two forms of one key (V3_4 / V5), not by the derived equality of the enum',
                  not direct_cross and bool(helper_cmp), function=b.path, site=site(b, direct_cross[0]) if direct_cross else None,
                  missing=None if (not direct_cross and helper_cmp) else 'the comparison at %s uses PlainSessionKey == PlainSessionKey: V3_4{..} never equals V5{..}, so a GnuPG AEAD message encrypted to a key and a password cannot be decrypted when both are presented' % (site(b, direct_cross[0]) if direct_cross else '?'))
    b = ctx.body("composed::message::types::Message::<'a>::decrypt_the_ring")
    if b is not None:
        sinks = call_blocks(b, r'Edata.*::decrypt_with_options$')
        rdom(ctx, P + ':ring:missing-key-is-error', b, sinks, [r'call:.*find_session_key$'],
             'decrypt_the_ring decrypts only when find_session_key returned a key (None => MissingKey), its error propagated')
        # the None edge constructs Error::MissingKey
        mk = b.constructs(r'errors::Error$', 'MissingKey')
        ctx.check(P + ':ring:missing-key-variant', 'R-table', 'absence of a session key is reported as Error::MissingKey', bool(mk), function=b.path)
    cands = [p for p in ctx.f.bodies if p.endswith('::try_decrypt') and 'TheRing' in p]
    b = ctx.body(cands[0]) if cands else None
    if b is not None:
        dom = b.dominators()
        bad = []
        n = 0
        for i, k, s in b.stmts(lambda s: s['r']['k'] == 'agg' and s['r'].get('v') == 'Some' and s['r'].get('adt', '').endswith('Option')):
            n += 1
            ac = arm_context(b, i, dom)
            res = [vs for adt, vs in ac if adt == 'Result']
            if not res or any(vs != ['Ok'] for vs in res):
                bad.append(site(b, i))
        ctx.check(P + ':ring:try_decrypt-no-key-on-failure', 'R-table', 'try_decrypt yields Some(session key) only in the Ok(Ok(_)) arms', n >= 2 and not bad,
                  function=b.path, missing=bad, count=n)


def subkey_search(ctx, P):
    """Every matching subkey is tried until one succeeds: the loop over a key's secret subkeys is left early (towards a
    successful return) only through a branch on `result == InnerRingResult::Ok`."""
    cands = [p for p in ctx.f.bodies if p.endswith('::find_session_key') and 'TheRing' in p]
    b = ctx.body(cands[0]) if cands else None
    if b is None:
        return
    heads = [i for i, t in b.calls(r'Iterator::next$') if 'SignedSecretSubKey' in t['f'].get('selfty', '')]
    ctx.floor(P + ':ring:subkey-loop:floor', 'loop over secret subkeys in find_session_key', len(heads), 1)
    oks = set(ok_exit_blocks(b))
    errs_ = set(__import__('rules.common', fromlist=['x']).err_exit_blocks(b))
    can_ok = b.can_reach(oks - errs_)
    for h in heads:
        # natural loop of the back edges into h: blocks that reach a back-edge source without passing h
        dom = b.dominators()
        back_src = [u for u in b.preds()[h] if h in dom.get(u, ())]
        loop = b.can_reach(set(back_src), removed=frozenset([h])) | {h}
        bad = []
        for u in sorted(loop):
            for v, _ in b.succ(u):
                if v in loop or v not in can_ok:
                    continue
                t = b.blocks[u]['t']
                if t['k'] != 'switch':
                    bad.append((u, v))
                    continue
                og = b.switch_origins(u)
                # iterator exhausted (the regular loop exit) or `result == Ok` (stop at first success)
                if u == b.blocks[h]['t']['t']:
                    continue  # the switch on next()'s Option right after the loop head: iterator exhausted
                if has_origin(og, r'agg:.*InnerRingResult::Ok$'):
                    continue
                bad.append((u, v))
        ctx.check(P + ':ring:subkey-loop-exits', 'R-dom', 'the subkey search loop is left early only after a successful decryption (branch on InnerRingResult::Ok) — every matching subkey is tried until one succeeds',
                  not bad, function=b.path, site=site(b, bad[0][0]) if bad else None, missing=('unconditional or unrelated early exit from the subkey loop at %s' % [site(b, u) for u, v in bad]) if bad else None)


def adds_octets(ctx, b):
    """The accumulation over the buffer is an addition of the widened octets: `sum()` of a map to u32, or a fold whose closure adds
    (plain, wrapping or checked addition — all agree modulo 65536)."""
    if b.calls(r'Iterator::sum$'):
        return True
    for r in ctx.f.closures_of(b.path):
        cb = ctx.wrap(r)
        if cb.calls(r'::wrapping_add$|::checked_add$|::overflowing_add$|ops::Add::add$') or any(st['r']['k'] == 'bin' and st['r']['op'] in ('Add', 'AddWithOverflow') for blk in cb.blocks for st in blk['s']):
            return True
    return False


def mpi_length_not_exact(ctx, P):
    """An MPI travels with its leading zero octets stripped, so a value mod n is shorter than n about once in 256.  A rejecting
    *equality* test of an MPI's length against a size (the modulus size, a constant) on the way to the decryption primitive refuses
    an honest ciphertext.  Scope: the arms of PlainSecretParams::decrypt whose value is a bare MPI (RSA, Elgamal); points carry a
    non-zero prefix octet and are exempt."""
    b = ctx.body('types::params::plain_secret::PlainSecretParams::decrypt')
    if b is None:
        return
    dom = b.dominators()
    n = 0
    for i, t in b.calls(r'crypto::rsa::SecretKey.*::decrypt$|Decryptor::decrypt$'):
        ac = arm_context(b, i, dom)
        if not any(a == 'PkeskBytes' and vs == ['Rsa'] for a, vs in ac) and not any(a == 'PlainSecretParams' and vs == ['RSA'] for a, vs in ac):
            continue
        n += 1
        bad = []
        for g, rej in guard_switches(b, [i], [r'call:.*types::mpi::Mpi::len$|call:.*Mpi.*::len$']):
            og = b.switch_origins(g)
            if g in dom.get(i, ()) and has_origin(og, r'op:(Eq|Ne)$|call:.*PartialEq::(eq|ne)$'):
                bad.append(site(b, g))
        ctx.check('%s:rsa-mpi-length-not-exact#%d' % (P, n), 'R-dom', 'no rejecting equality test of the RSA ciphertext MPI length stands before RSA decryption (leading zero octets are stripped from MPIs)',
                  not bad, function=b.path, site=site(b, i), missing=bad or None)
    ctx.floor(P + ':rsa-mpi-length:floor', 'RSA decryption sites in PlainSecretParams::decrypt', n, 1)


def checksum_helpers(ctx, P):
    """The helpers the plausibility rules rely on really compare: checksum::simple returns Ok only after a rejecting comparison of
    the octets it was given with calculate_simple of the data; the running sum keeps 16 bits of the octet sum."""
    b = ctx.body('crypto::checksum::simple')
    if b is not None:
        oks = ok_exit_blocks(b)
        gs = [g for g, _ in guard_switches(b, oks, [r'param:1$', r'call:crypto::checksum::calculate_simple$'])]
        ok, wit = must_pass(b, oks, gs) if gs else (False, None)
        ctx.check(P + ':checksum:simple-compares', 'R-dom', 'checksum::simple returns Ok only after comparing the given two octets with calculate_simple(data) (rejecting)', ok, function=b.path,
                  witness=fmt_path(b, wit) if wit else None)
        ctx.check(P + ':checksum:simple-data-arg', 'origin', 'calculate_simple is applied to the data parameter',
                  any(has_origin(b.operand_origins(t['args'][0]), r'param:2$') for i, t in b.calls(r'calculate_simple$')), function=b.path)
    b = ctx.body('<crypto::checksum::SimpleChecksum as std::hash::Hasher>::write')
    if b is not None:
        masks = [o['k']['v'] for blk in b.blocks for st in blk['s'] if st['r']['k'] == 'bin' and st['r']['op'] == 'BitAnd' for o in st['r']['o'] if 'k' in o and 'v' in o['k']]
        ctx.check(P + ':checksum:sum-mod-65536', 'R-table', 'the simple checksum is the octet sum modulo 65536 (mask 0xffff)', masks == [0xFFFF] and bool(b.calls(r'Iterator::(sum|fold)$')) and adds_octets(ctx, b), function=b.path, table=masks)


def locked_flag_of_same_key(ctx, P):
    """find_session_key tells try_decrypt whether the key it hands over is locked: the flag is computed from the secret parameters of
    THAT key (primary for the primary, subkey for a subkey) — a flag taken from the other one tries no password on a locked key or only
    the empty password on an unlocked one."""
    b = ctx.body("composed::message::types::TheRing::<'_>::find_session_key")
    if b is None:
        return
    n = 0
    for i, t in b.calls(r'try_decrypt$'):
        if len(t['args']) < 5:
            continue
        n += 1
        key = set(x for x in b.operand_origins(t['args'][3]) if x.startswith('field:SignedSecretKey.'))
        flag = b.operand_origins(t['args'][4])
        fk = set(x for x in flag if x.startswith('field:SignedSecretKey.'))
        ok = has_origin(flag, r'call:.*SecretParams::is_encrypted$') and bool(key) and key == fk
        ctx.check('%s:ring:locked-flag-of-same-key:%d' % (P, n), 'origin', 'try_decrypt receives is_locked computed from the secret parameters of the key it is given (%s)' % sorted(x.split('.')[-1] for x in key),
                  ok, function=b.path, site=site(b, i), missing=None if ok else 'key from %s, flag from %s' % (sorted(key), sorted(fk)))
    ctx.floor(P + ':ring:locked-flag:floor', 'try_decrypt call sites in find_session_key', n, 2)


def pkesk_identity(ctx, P):
    b = ctx.body('packet::public_key_encrypted_session_key::PublicKeyEncryptedSessionKey::match_identity')
    if b is None:
        return
    names = [t['f'].get('fn', '') for i, t in b.calls()]
    need = ['KeyDetails::legacy_key_id', 'KeyDetails::fingerprint', 'KeyId::is_wildcard']
    miss = [n for n in need if not any(x.endswith(n) for x in names)]
    ctx.check(P + ':pkesk:match-identity', 'R-who', 'PKESK::match_identity compares the recipient field with the key\'s own key id / fingerprint, honouring wildcards',
              not miss, function=b.path, missing=miss)
    # ... by full structural equality of the identifier types (a length or prefix comparison would match foreign keys)
    eqs = sorted(set(t['f'].get('selfty', '') for i, t in b.calls(r'PartialEq::(eq|ne)$')))
    want = any('Fingerprint' in x for x in eqs) and any('KeyId' in x for x in eqs)
    der = [ctx.f.body(x) for x in ('<types::fingerprint::Fingerprint as std::cmp::PartialEq>::eq', '<types::key_id::KeyId as std::cmp::PartialEq>::eq')]
    ctx.check(P + ':pkesk:match-identity-full-equality', 'R-who', 'match_identity compares KeyId with KeyId and Fingerprint with Fingerprint through their derived equality',
              want and all(d is not None and d.get('derived') for d in der), function=b.path, table=eqs)
    # unknown versions never match: the otherwise arm returns const false
    dom = b.dominators()
    ok = False
    for i, k, s in b.stmts(lambda s: s['d']['l'] == 0 and s['r']['k'] == 'use' and 'k' in s['r']['o'][0] and s['r']['o'][0]['k'].get('v') == 0):
        ac = arm_context(b, i, dom)
        if any(adt == 'PublicKeyEncryptedSessionKey' and 'Other' in vs for adt, vs in ac):
            ok = True
    ctx.check(P + ':pkesk:other-never-matches', 'R-table', 'a PKESK of unknown version matches no key', ok, function=b.path)


def per_esk_key_status_reset(ctx, P):
    """`find_session_key` tries every presented key on EVERY public-key ESK; inside, the search through the subkeys of a key stops as
    soon as `result.secret_keys[i] == Ok`.  That status must be the status for the ESK at hand: it is reset for each (ESK, key) pair
    before the search, otherwise a key that opened an earlier ESK is never tried on a later one - and a later ESK that carries a
    DIFFERENT session key for the same recipient (the conflict the caller asked to be told about) goes unnoticed.  No path leads from
    the head of the per-key iteration to the `== Ok` test without passing an assignment of the status."""
    b = None
    for p, r in ctx.f.bodies.items():
        if p.endswith('::find_session_key') and 'TheRing' in p:
            b = ctx.wrap(r)
    if b is None:
        ctx.missing(P + ':ring:per-esk-status-reset', 'TheRing::find_session_key not found')
        return
    heads = [i for i, t in b.calls(r'Iterator::next$') if re.search(r'Enumerate<.*SignedSecretKey>', t['f'].get('selfty', '') or '')]
    guards = [g for g, t in b.switches() if has_origin(b.switch_origins(g), r'callty:.*PartialEq::(eq|ne)@.*InnerRingResult')]
    from rules.common import single_defs
    defs = single_defs(b)
    def is_status_slot(L):
        d = defs.get(L)
        return bool(d and d[1].get('k') == 'call' and re.search(r'IndexMut::index_mut$', d[1]['f'].get('fn', '') or '') and d[1]['args']
                    and has_origin(b.operand_origins(d[1]['args'][0]), r'field:RingResult\.secret_keys$'))
    resets = sorted(set(i for i, k, st in b.stmts(lambda st: st['d']['pr'] == ['*'] and is_status_slot(st['d']['l']))))
    wit = None
    for h in heads:
        start = b.blocks[h]['t'].get('t')
        if start is None:
            continue
        for g in guards:
            if g in b.reach_from([start]):
                w = b.find_path(start, {g}, removed=frozenset(resets) | frozenset([h]))
                if w is not None:
                    wit = w
    ctx.check(P + ':ring:per-esk-status-reset', 'R-seq', 'the per-key status that ends the subkey search is assigned anew for every (ESK, key) pair before it is tested',
              bool(heads) and bool(guards) and bool(resets) and wit is None, function=b.path, witness=fmt_path(b, wit) if wit else None,
              missing=None if wit is None else 'the `== Ok` test of the subkey search is reachable from the head of the key iteration without an assignment of the status: the verdict of an earlier ESK stops the search for this one')
