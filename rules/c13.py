"""C13 Fingerprints and key IDs (DESIGN §5 C13) — narrow."""
import re
from rules.common import (rdom, call_blocks, ok_exit_blocks, site, is_pure_forwarder, arm_context, enum_switch_info, edge_variants)
from core import guard_switches, must_pass, fmt_path, has_origin

EXPLANATION = ("Decides structural clauses of C13, not digest values: there is a single implementation of fingerprint / key id / imprint "
               "(PubKeyInner) and every other impl of KeyDetails::{fingerprint, legacy_key_id} and Imprint::imprint is a pure forwarder, so the "
               "secret key, its public half and signed wrappers cannot disagree; the version arms use the RFC digests (MD5 / SHA-1 / SHA-256), "
               "framing constants 0x99 + 2-octet length (v4) and 0x9B + 4-octet length (v6), key id = last 8 octets (v4) / first 8 octets (v6); "
               "the v2/v3 arm must not hash MPI length prefixes; issuer subpackets and PKESK recipient fields the library writes derive from "
               "KeyDetails::{fingerprint, legacy_key_id} of the very key that signs / is encrypted to. Not decided: digest values, MPI encodings.")
ASSUMPTIONS = ["Serialize::to_writer of PublicParams emits the RFC body (C05 decides only lengths)"]

PK = 'packet::key::public::PubKeyInner'


def run(ctx):
    P = 'C13'
    # lookup by embedded identifier uses the identifiers the library reports (shared with C02)
    from rules import sig
    sig.s02_4_identity(ctx, P)
    sig.s02_10_result_slot_same_iteration(ctx, P)
    sig.s02_11_every_key_tries_every_signature(ctx, P)
    forwarders(ctx, P)
    tables(ctx, P)
    embedding(ctx, P)
    v3_key_id_right_aligned(ctx, P)
    fingerprint_variant_per_version(ctx, P)
    from rules import c05 as _c05
    _c05.mpi_constructors_normalise(ctx, P)        # fingerprints are computed over the re-serialised MPIs
    # a recipient field that does not parse must not silently become "no recipient" (the wildcard that matches every key): no error
    # is dropped while the identifiers of ESK packets are read (R-err of C09 restricted to those parsers)
    from rules import stream
    stream.r_err(ctx, P, only=r'packet::(public_key_encrypted_session_key|sym_key_encrypted_session_key)::|types::(pkesk|fingerprint|key_id)::', floor=250)


def forwarders(ctx, P):
    n = 0
    for p, r in sorted(ctx.f.bodies.items()):
        tr = r.get('impl_trait', '')
        nm = r.get('name')
        if not ((tr.endswith('key_traits::KeyDetails') and nm in ('fingerprint', 'legacy_key_id', 'version')) or (tr.endswith('key_traits::Imprint') and nm == 'imprint')):
            continue
        if r.get('impl_self', '').startswith(PK):
            continue
        b = ctx.wrap(r)
        n += 1
        ok, why = is_pure_forwarder(b, r'key_traits::(KeyDetails|Imprint)::%s$|PubKeyInner::%s$' % (nm, nm), allow=[r'::public_key$', r'::deref$', r'Deref::deref$'])
        ctx.check('%s:S13-1:forwarder:%s' % (P, p), 'R-who', '%s is a pure forwarder to the single implementation' % p, ok, function=p, missing=why)
    ctx.floor(P + ':S13-1:floor', 'forwarding impls of fingerprint / legacy_key_id / version / imprint', n, 20)


def tables(ctx, P):
    b = ctx.body('<%s as types::key_traits::KeyDetails>::fingerprint' % PK)
    if b is not None:
        dom = b.dominators()
        table = {}
        for i, t in b.calls(r'PubKeyInner::imprint$'):
            arms = [vs for adt, vs in arm_context(b, i, dom) if adt == 'KeyVersion']
            full = t['f']['full']
            d = 'Md5' if 'md5::' in full else 'Sha1' if 'sha1' in full.lower() else 'Sha256' if 'Sha256' in full else full[-40:]
            for v in (min(arms, key=len) if arms else ['?']):
                table[v] = d
        want = {'V2': 'Md5', 'V3': 'Md5', 'V4': 'Sha1', 'V6': 'Sha256'}
        ctx.check(P + ':S13-2:digest-per-version', 'R-table', 'fingerprint digest per key version is MD5 (v2/v3), SHA-1 (v4), SHA-256 (v6)', table == want, function=b.path, table=table)
    b = ctx.body(PK + '::imprint')
    if b is not None:
        dom = b.dominators()
        consts = {}
        widths = {}
        prefixed = {}
        for i, t in b.calls(r'Digest::update$|Update::update$'):
            arms = [vs for adt, vs in arm_context(b, i, dom) if adt == 'KeyVersion']
            arm = '|'.join(min(arms, key=len)) if arms else '?'
            og = set()
            for a in t['args'][1:]:
                og |= b.operand_origins(a)
            for tok in og:
                m = re.match(r'const:(\d+):u8$', tok)
                if m:
                    consts.setdefault(arm, set()).add(int(m.group(1)))
                m = re.match(r'call:(?:.*<impl )?(u16|u32)>?::to_be_bytes$', tok)
                if m:
                    widths.setdefault(arm, set()).add(m.group(1))
        ctx.check(P + ':S13-2:v4-framing', 'R-table', 'v4 imprint feeds 0x99 and a 2-octet length', 0x99 in consts.get('V4', ()) and 'u16' in widths.get('V4', ()), function=b.path,
                  table=dict(consts=sorted(consts.get('V4', ())), widths=sorted(widths.get('V4', ()))))
        ctx.check(P + ':S13-2:v6-framing', 'R-table', 'v6 imprint feeds 0x9B, version 6 and 4-octet lengths', {0x9B, 6} <= consts.get('V6', set()) and widths.get('V6') == {'u32'},
                  function=b.path, table=dict(consts=sorted(consts.get('V6', ())), widths=sorted(widths.get('V6', ()))))
        # v2/v3: RFC 9580 §5.5.4.1: hash the bodies of the MPIs n and e WITHOUT their two-octet lengths
        bad = []
        for i, t in b.calls(r'Serialize::to_writer$'):
            arms = [vs for adt, vs in arm_context(b, i, dom) if adt == 'KeyVersion']
            if arms and set(min(arms, key=len)) <= {'V2', 'V3'} and 'PublicParams' in t['f'].get('selfty', ''):
                pp_arms = [vs for adt, vs in arm_context(b, i, dom) if adt == 'PublicParams']
                # v2/v3 keys are RSA keys: the RSA arm (or an undistinguished arm) must hash bodies only
                if not pp_arms or 'RSA' in min(pp_arms, key=len):
                    bad.append(site(b, i))
        ctx.check(P + ':S13-2:v3-no-mpi-length-prefix', 'R-table',
                  'v2/v3 fingerprint hashes the MPI bodies of n and e, not the length-prefixed serialisation of the public parameters',
                  not bad, function=b.path, site=bad[0] if bad else None,
                  missing='PublicParams::to_writer writes each MPI with its two-octet bit count; RFC 9580 §5.5.4.1 hashes the bodies only' if bad else None)
    b = ctx.body('<%s as types::key_traits::KeyDetails>::legacy_key_id' % PK)
    if b is not None:
        dom = b.dominators()
        subs = {}
        for i, k, s in b.stmts(lambda s: s['r']['k'] == 'bin' and s['r']['op'] in ('Sub', 'SubWithOverflow') and any('k' in o and o['k'].get('v') == 8 for o in s['r']['o'][1:])):
            arms = [vs for adt, vs in arm_context(b, i, dom) if adt == 'KeyVersion']
            for v in (min(arms, key=len) if arms else ['?']):
                subs[v] = 'len-8'
        v6first = False
        for i, k, s in b.stmts(lambda s: s['r']['k'] == 'agg' and s['r'].get('adt', '').endswith('ops::RangeTo') or (s['r']['k'] == 'agg' and s['r'].get('adt', '').endswith('ops::Range'))):
            arms = [vs for adt, vs in arm_context(b, i, dom) if adt == 'KeyVersion']
            if arms and min(arms, key=len) == ['V6'] and any('k' in o and o['k'].get('v') == 8 for o in s['r']['o']):
                v6first = True
        ctx.check(P + ':S13-2:keyid-v4-low64', 'R-table', 'v4 key id = last 8 octets of the fingerprint (offset = len - 8)', subs.get('V4') == 'len-8', function=b.path, table=subs)
        ctx.check(P + ':S13-2:keyid-v6-high64', 'R-table', 'v6 key id = first 8 octets of the fingerprint', v6first and 'V6' not in subs, function=b.path)
        for v in ('V4', 'V6'):
            pass
        fp = b.calls(r'KeyDetails::fingerprint$')
        ctx.check(P + ':S13-2:keyid-from-fingerprint', 'R-who', 'v4/v6 key ids are cut out of fingerprint()', len(fp) >= 2, function=b.path, count=len(fp))


def v3_key_id_right_aligned(ctx, P):
    """RFC 9580 5.5.4.1: the key ID of a v3 key is the low 64 bits of the modulus.  For a modulus shorter than 8 octets the id is the
    modulus left-padded with zero octets: every copy into the 8-octet id in the v2/v3 arm writes a SUFFIX of it (`raw[offset..]` or
    the whole array), never a prefix."""
    b = ctx.body('<packet::key::public::PubKeyInner as types::key_traits::KeyDetails>::legacy_key_id')
    if b is None:
        return
    from rules.common import single_defs, arm_context
    defs = single_defs(b)
    dom = b.dominators()
    n = 0
    bad = []
    for i, t in b.calls(r'copy_from_slice$'):
        arms = [vs for a, vs in arm_context(b, i, dom) if a == 'KeyVersion']
        if not arms or not set(min(arms, key=len)) <= {'V2', 'V3'}:
            continue
        n += 1
        # destination: `&mut raw` (whole) or Index(raw, RangeFrom / RangeFull)
        o = t['args'][0]
        kind = 'whole'
        for _ in range(6):
            d = defs.get(o.get('l')) if 'l' in o else None
            if d is None:
                break
            x = d[1]
            if x.get('k') == 'call':
                fn = x['f'].get('fn', '') or ''
                if re.search(r'ops::IndexMut::index_mut$|ops::Index::index$', fn):
                    full = x['f'].get('full', '') or ''
                    m = re.search(r'Index(?:Mut)?<std::ops::(\w+)', full)
                    kind = m.group(1) if m else 'index'
                break
            r = x['r']
            if r['k'] in ('ref', 'copyderef'):
                o = dict(l=r['p']['l'], pr=[])
                continue
            if r['k'] in ('use', 'cast') and 'l' in r['o'][0]:
                o = r['o'][0]
                continue
            break
        if kind not in ('whole', 'RangeFrom', 'RangeFull'):
            bad.append((site(b, i), kind))
    ctx.check(P + ':S13-2:v3-key-id-right-aligned', 'R-table', 'in the v2/v3 arm the octets of the modulus are copied into a suffix of the 8-octet key id (low 64 bits, zero-padded on the left)',
              n >= 1 and not bad, function=b.path, site=bad[0][0] if bad else None, count=n,
              missing=None if (n >= 1 and not bad) else ('destination is a %s slice of the id: a modulus shorter than 8 octets is padded on the wrong side' % bad[0][1] if bad else 'copies into the v3 key id not found'))


def fingerprint_variant_per_version(ctx, P):
    """A fingerprint value names the version of the key it belongs to (`Fingerprint::V2` .. `V6`; `version()`, equality and hashing
    look at it).  In `fingerprint()`, with the key version fixed to X (partial evaluation of the version switch), the only Fingerprint
    variant that can be constructed is X."""
    from rules.c05 import edges_pruned_for_version
    b = ctx.body('<packet::key::public::PubKeyInner as types::key_traits::KeyDetails>::fingerprint')
    if b is None:
        ctx.missing(P + ':S13-1:fingerprint-variant-per-version', 'PubKeyInner::fingerprint not found')
        return
    table = {}
    for v in ('V2', 'V3', 'V4', 'V6'):
        reach = b.reach_from([0], removed_edges=frozenset(edges_pruned_for_version(b, v, r'^param:\d+$|field:.*\.version$')))
        made = set()
        for x in reach:
            for st in b.blocks[x]['s']:
                if st['r']['k'] == 'agg' and st['r'].get('ak') == 'adt' and (st['r'].get('adt') or '').endswith('fingerprint::Fingerprint'):
                    made.add(st['r'].get('v'))
        table[v] = sorted(made)
    # the constructor from (version, octets) - used for issuer / recipient fingerprints read from the wire - follows the same table,
    # version 5 included (a v5 fingerprint that becomes `Fingerprint::V6` passes the "issuer fingerprint version = signature version" rule)
    nb = ctx.body('types::fingerprint::Fingerprint::new')
    ntable = {}
    if nb is not None:
        for v in ('V2', 'V3', 'V4', 'V5', 'V6'):
            reach = nb.reach_from([0], removed_edges=frozenset(edges_pruned_for_version(nb, v, r'^param:1$')))
            made = set()
            for x in reach:
                for st in nb.blocks[x]['s']:
                    if st['r']['k'] == 'agg' and st['r'].get('ak') == 'adt' and (st['r'].get('adt') or '').endswith('fingerprint::Fingerprint'):
                        made.add(st['r'].get('v'))
            ntable[v] = sorted(made)
        nbad = {v: m for v, m in ntable.items() if m != [v]}
        ctx.check(P + ':S13-1:fingerprint-new-variant-per-version', 'R-table', 'Fingerprint::new(version X, ..) constructs Fingerprint::X and nothing else (X = 2, 3, 4, 5, 6)',
                  not nbad, function=nb.path, table=ntable,
                  missing=None if not nbad else 'variant(s) constructed per requested version: %s' % nbad)
    bad = {v: m for v, m in table.items() if m != [v]}
    ctx.check(P + ':S13-1:fingerprint-variant-per-version', 'R-table', 'fingerprint() of a version X key constructs Fingerprint::X and nothing else (X = 2, 3, 4, 6)',
              not bad, function=b.path, table=table,
              missing=None if not bad else 'fingerprint variant(s) per key version: %s - the value reports another key version than the key has, lookups by (version, digest) miss' % bad)


SIGNERS = r'SignatureConfig::sign(_[a-z_]+)?$|SignatureHasher::sign$'


def embedding(ctx, P):
    n = 0
    unan = []
    for p, r in sorted(ctx.f.bodies.items()):
        if r.get('derived') or p.startswith('packet::signature::de::') or '::tests::' in p:
            continue
        b = ctx.wrap(r)
        cons = [(i, s) for i, k, s in b.constructs(r'SubpacketData$') if s['r']['v'] in ('IssuerFingerprint', 'IssuerKeyId')]
        if not cons:
            ctx.functions.discard(p)
            continue
        signer_params = set()
        for i, t in b.calls(SIGNERS):
            if len(t['args']) > 1:
                signer_params |= {tok for tok in b.operand_origins(t['args'][1]) if tok.startswith('param:')}
        for i, s in cons:
            n += 1
            og = b.operand_origins(s['r']['o'][0])
            want = r'call:.*KeyDetails::fingerprint$' if s['r']['v'] == 'IssuerFingerprint' else r'call:.*KeyDetails::legacy_key_id$'
            okd = has_origin(og, want)
            ip = {tok for tok in og if tok.startswith('param:')}
            same = True
            if signer_params and ip:
                same = ip <= signer_params
            elif not signer_params:
                unan.append(p)
            ctx.check('%s:S13-3:issuer:%s:%s' % (P, s['r']['v'], p), 'origin',
                      '%s written by %s derives from %s of the signing key itself' % (s['r']['v'], p.split('::')[-1], 'fingerprint()' if 'Fingerprint' in s['r']['v'] else 'legacy_key_id()'),
                      okd and same, function=p, site=site(b, i),
                      missing=None if okd and same else ('issuer derives from %s but the signer is %s' % (sorted(ip), sorted(signer_params)) if okd else 'not derived from the key\'s own id'))
    ctx.floor(P + ':S13-3:issuer-floor', 'issuer subpacket constructions outside the parser', n, 18)
    # helpers that build the issuer subpackets from one of their parameters but do not sign themselves: the rule moves to their
    # call sites - the argument handed to the helper must be the key the caller signs with
    helpers = {}
    for p in sorted(set(unan)):
        if '{closure' in p:
            continue        # parameter 1 of a closure body is its environment, not a key
        b = ctx.wrap(ctx.f.body(p))
        ks = set()
        for i, k, s_ in b.constructs(r'SubpacketData$'):
            if s_['r']['v'] in ('IssuerFingerprint', 'IssuerKeyId'):
                ks |= {int(tok[6:]) for tok in b.operand_origins(s_['r']['o'][0]) if tok.startswith('param:')}
        if ks:
            helpers[p] = ks
    m = 0
    for p, r in sorted(ctx.f.bodies.items()):
        if r.get('derived') or '::tests::' in p or not helpers:
            continue
        b = ctx.wrap(r)
        sites_ = [(i, t, h) for h in helpers for i, t in b.calls(re.escape(h) + '$')]
        if not sites_:
            continue
        signer_params = set()
        for i, t in b.calls(SIGNERS):
            if len(t['args']) > 1:
                signer_params |= {tok for tok in b.operand_origins(t['args'][1]) if tok.startswith('param:')}
        for i, t, h in sites_:
            for kidx in sorted(helpers[h]):
                if kidx - 1 >= len(t['args']):
                    continue
                m += 1
                ip = {tok for tok in b.operand_origins(t['args'][kidx - 1]) if tok.startswith('param:')}
                ok = (not signer_params) or (not ip) or ip <= signer_params
                ctx.check('%s:S13-3:issuer-helper-arg:%s:%s' % (P, p, h.split('::')[-1]), 'origin',
                          'the key %s hands to %s (which writes the issuer subpackets from it) is the key it signs with' % (p.split('::')[-1], h.split('::')[-1]),
                          ok, function=p, site=site(b, i),
                          missing=None if ok else 'issuer helper gets %s but the signature is made with %s' % (sorted(ip), sorted(signer_params)))
    ctx.note('issuer helpers (construct issuer subpackets from a parameter, do not sign): %s; %d call sites checked' % (sorted(helpers), m))
    ctx.note('issuer sites without a sign call in the same body (identity of signer not cross-checked): %s' % sorted(set(unan)))
    # PKESK recipient fields
    for fn, fld, want in (('from_session_key_v3', 'id', r'call:.*KeyDetails::legacy_key_id$'), ('from_session_key_v6', 'fingerprint', r'call:.*KeyDetails::fingerprint$')):
        b = ctx.body('packet::public_key_encrypted_session_key::PublicKeyEncryptedSessionKey::' + fn)
        if b is None:
            continue
        cons = b.constructs(r'PublicKeyEncryptedSessionKey$')
        good = bool(cons)
        wild = False
        for i, k, s in cons:
            if fld in s['r']['fields']:
                og = b.operand_origins(s['r']['o'][s['r']['fields'].index(fld)])
                good &= has_origin(og, want)
                wild |= has_origin(og, r'cdef:.*KeyId::WILDCARD$|cdef:.*WILDCARD') or any(re.match(r'const:0:u8$', t) for t in og)
        ctx.check('%s:S13-3:pkesk-recipient:%s' % (P, fn), 'origin', 'the recipient field written by %s derives from the recipient key\'s own %s and from nothing else (no wildcard branch)' % (fn, 'key id' if fld == 'id' else 'fingerprint'),
                  good and not wild, function=b.path, missing='wildcard / constant recipient reachable' if wild else None)
