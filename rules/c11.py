"""C11 RFC digests (DESIGN §5 C11) — narrow: framing constants, length widths, feed order, sign/verify twins."""
import re
from rules import sig
from rules.common import (rdom, call_blocks, ok_exit_blocks, site, arm_context, enum_switch_info, edge_variants)
from rules.tables import variant_to_int_table
from core import guard_switches, must_pass, fmt_path, has_origin

EXPLANATION = ("Decides structural clauses of C11, not the digest value: key framing in serialize_for_hashing is 0x99 + 2-octet length for "
               "v2/v3/v4 keys and 0x9B + 4-octet length for v6 keys, then the key body; certification sign and verify twins feed 0xB4 (user id) / "
               "0xD1 (user attribute) + 4-octet length for v4/v6 and nothing for v2/v3; hash_signature_data feeds version, type, public-key and "
               "hash algorithm octets and a 2-octet (v4) / 4-octet (v6) hashed-area count, type + 4-octet time for v2/v3; the trailer is version, "
               "0xFF, 4-octet length (empty for v2/v3); the v6 salt is fed first and its size table equals RFC 9580 Table 23; every sign function "
               "feeds the same call sequence as its verify twin (same key-frame order). Not decided: the digest value, document canonicalisation."
               ' Also: salt sizes / salt-length checks, every hashed subpacket fed, and (shared with C14) the streaming canonicaliser clauses.')
ASSUMPTIONS = ["Serialize::to_writer of keys and user ids emits the RFC body (C05 decides lengths only)"]

CFG = 'packet::signature::config::SignatureConfig::'
SIGT = 'packet::signature::types::Signature::'


def consts_by_arm(b, adt, call_rx, arg_from=1):
    """{arm variants tuple: set of u8 constants / width markers fed by calls matching call_rx}"""
    dom = b.dominators()
    out = {}
    for i, t in b.calls(call_rx):
        arms = [tuple(vs) for a, vs in arm_context(b, i, dom) if a == adt]
        arm = min(arms, key=len) if arms else ()
        ev = out.setdefault(arm, [])
        fn = t['f']['fn'].split('::')[-1]
        cs = [a['k']['v'] for a in t['args'][arg_from:] if 'k' in a and 'v' in a['k']]
        ev.append((fn, tuple(cs)))
    return out


def run(ctx):
    P = 'C11'
    from rules import c16 as _c16
    _c16.same_form(ctx, P)        # cleartext signatures: every signer is handed the RFC signed form (dash-unescaped, trimmed, CR LF)
    b = ctx.body('packet::signature::types::serialize_for_hashing')
    if b is not None:
        # RFC 9580 5.2.4: "When a v4 signature is made over a key ... 0x99 ... When a v6 signature is made over a key ... 0x9B": the
        # framing follows the version of the SIGNATURE (a third-party signature may be made over a key of another version)
        t = consts_by_arm(b, 'SignatureVersion', r'WriteBytesExt::write_u8$|WriteBytesExt::write_u16$|WriteBytesExt::write_u32$')
        got = {arm: ev for arm, ev in t.items()}
        from rules.common import enum_switch_info
        by_key = [i for i, _ in b.switches() if (enum_switch_info(b, i) or ('',))[0].endswith('KeyVersion')]
        ctx.check(P + ':key-frame:selected-by-signature-version', 'R-table', 'the key framing is selected by the version of the signature, not of the key that is signed',
                  bool(got) and not by_key, function=b.path, site=site(b, by_key[0]) if by_key else None,
                  missing=None if (got and not by_key) else 'the framing octet / length width depends on KeyVersion: a v6 signature over a v4 key (third-party certification) is hashed with 0x99 and a two-octet length instead of 0x9B and four octets')
        want_old = [('write_u8', (0x99,)), ('write_u16', ())]
        want_v6 = [('write_u8', (0x9B,)), ('write_u32', ())]
        old = [ev for arm, ev in got.items() if set(arm) == {'V2', 'V3', 'V4'}]
        v6 = [ev for arm, ev in got.items() if arm == ('V6',)]
        ctx.check(P + ':key-frame:v4', 'R-table', 'key framing under a v2/v3/v4 signature is 0x99 followed by a 2-octet length', old == [want_old], function=b.path, table={'|'.join(k): v for k, v in got.items()})
        ctx.check(P + ':key-frame:v6', 'R-table', 'key framing under a v6 signature is 0x9B followed by a 4-octet length', v6 == [want_v6], function=b.path)
        body = call_blocks(b, r'Serialize::to_writer$')
        hdr = call_blocks(b, r'WriteBytesExt::write_u8$')
        ok, _ = must_pass(b, body, hdr) if body else (False, None)
        ctx.check(P + ':key-frame:then-body', 'R-seq', 'the key body is fed after the framing octets', ok, function=b.path)
        ln = b.calls(r'Serialize::write_len$')
        ctx.check(P + ':key-frame:length-is-write_len', 'origin', 'the framed length is the key\'s write_len()', bool(ln), function=b.path)
    # certification prefixes, sign + verify twin
    for path in (CFG + 'sign_certification_third_party', SIGT + 'verify_third_party_certification'):
        b = ctx.body(path)
        if b is None:
            continue
        dom = b.dominators()
        pref = {}
        for i, k, s in b.stmts(lambda s: s['r']['k'] == 'use' and 'k' in s['r']['o'][0] and s['r']['o'][0]['k'].get('ty') == 'u8' and s['r']['o'][0]['k'].get('v') in (0xB4, 0xD1)):
            arms = [vs for a, vs in arm_context(b, i, dom) if a == 'Tag']
            for v in (min(arms, key=len) if arms else ['?']):
                pref[v] = s['r']['o'][0]['k']['v']
        ctx.check('%s:cert-prefix:%s' % (P, path.split('::')[-1]), 'R-table', 'certification prefix octets are 0xB4 for UserId and 0xD1 for UserAttribute in %s' % path.split('::')[-1],
                  pref == {'UserId': 0xB4, 'UserAttribute': 0xD1}, function=b.path, table=pref)
        w32 = b.calls(r'ByteOrder::write_u32$')
        arr5 = b.stmts(lambda s: s['r']['k'] == 'agg' and s['r'].get('ak') == 'array' and len(s['r']['o']) == 5)
        ctx.check('%s:cert-len32:%s' % (P, path.split('::')[-1]), 'R-table', 'the certification prefix is 1 + 4 octets with a 4-octet big-endian length', bool(w32) and bool(arr5), function=b.path)
        # v2/v3 arm feeds no prefix: the prefix update is only in the V4|V6 arm
        upd = []
        for i, t in b.calls(r'DynDigest::update$'):
            og = set()
            for a in t['args'][1:]:
                og |= b.operand_origins(a)
            if has_origin(og, r'const:180:u8$|const:209:u8$'):
                arms = [tuple(vs) for a, vs in arm_context(b, i, dom) if a == 'SignatureVersion']
                upd.append(min(arms, key=len) if arms else ())
        ctx.check('%s:cert-prefix-arms:%s' % (P, path.split('::')[-1]), 'R-table', 'the prefix is fed for v4/v6 signatures only', upd == [('V4', 'V6')], function=b.path, table=[list(u) for u in upd])
    # hash_signature_data
    b = ctx.body(CFG + 'hash_signature_data')
    if b is not None:
        dom = b.dominators()
        widths = {}
        for i, t in b.calls(r'(u16|u32)>?::to_be_bytes$|u16::to_be_bytes$|u32::to_be_bytes$'):
            w = 'u16' if 'u16' in t['f']['fn'] else 'u32'
            # which version comparison dominates?  the `if self.version() == V4 / V6` chain: constants in the promoted compare
            ctxv = None
            for j in sorted(dom.get(i, ())):
                if b.blocks[j]['t']['k'] == 'switch' and has_origin(b.switch_origins(j), r'callty:.*PartialEq::eq@.*SignatureVersion'):
                    og = b.switch_origins(j)
                    for tok in og:
                        m = re.match(r'agg:.*SignatureVersion::(V\d)$', tok)
                        if m and j != i:
                            # nearest dominating comparison wins
                            ctxv = m.group(1) if (ctxv is None or True) else ctxv
            widths[w] = ctxv
        ctx.check(P + ':hashed-area-count-width', 'R-table', 'hashed subpacket area count is 2 octets for v4 and 4 octets for v6', widths.get('u16') is not None and widths.get('u32') is not None and widths.get('u16') != widths.get('u32'),
                  function=b.path, table=widths)
        # order: version, typ, pub_alg, hash_alg in the vec! literal
        arr = b.stmts(lambda s: s['r']['k'] == 'agg' and s['r'].get('ak') == 'array' and len(s['r']['o']) == 4)
        order_ok = False
        for i, k, s in arr:
            ogs = [b.operand_origins(o) for o in s['r']['o']]
            order_ok |= (has_origin(ogs[0], r'call:.*SignatureConfig::version$') and has_origin(ogs[1], r'field:SignatureConfig\.typ$')
                         and has_origin(ogs[2], r'field:SignatureConfig\.pub_alg$') and has_origin(ogs[3], r'field:SignatureConfig\.hash_alg$'))
        ctx.check(P + ':hashed-fields-order', 'R-seq', 'hashed fields start with version, type, public-key algorithm, hash algorithm in this order', order_ok, function=b.path)
        v3 = b.stmts(lambda s: s['r']['k'] == 'repeat' or (s['r']['k'] == 'agg' and s['r'].get('ak') == 'array' and len(s['r']['o']) == 5))
        ctx.check(P + ':v3-hashed-fields', 'R-table', 'v2/v3 signatures hash type + 4-octet creation time (5 octets)', bool(b.calls(r'ByteOrder::write_u32$')) and bool(v3), function=b.path)
    b = ctx.body(CFG + 'trailer')
    if b is not None:
        arr = b.stmts(lambda s: s['r']['k'] == 'agg' and s['r'].get('ak') == 'array' and len(s['r']['o']) == 6)
        ok = False
        for i, k, s in arr:
            o = s['r']['o']
            ok |= has_origin(b.operand_origins(o[0]), r'call:.*SignatureConfig::version$') and ('k' in o[1] and o[1]['k'].get('v') == 0xFF)
        ctx.check(P + ':trailer-layout', 'R-table', 'trailer is version, 0xFF, 4-octet length', ok and bool(b.calls(r'ByteOrder::write_u32$')), function=b.path)
        dom = b.dominators()
        empty = False
        for i, t in b.calls(r'Vec::<.*>::new$'):
            arms = [vs for a, vs in arm_context(b, i, dom) if a == 'SignatureVersion']
            if arms and set(min(arms, key=len)) == {'V2', 'V3'}:
                empty = True
        ctx.check(P + ':trailer-v3-empty', 'R-table', 'v2/v3 signatures have an empty trailer', empty, function=b.path)
    salt_tables(ctx, P)
    hash_tables(ctx, P)
    # which signature types a verify / sign function admits decides which frames enter the digest (shared with C02)
    sig.s02_3_type_binding(ctx, P)
    from rules.tables import rfc_id_tables
    rfc_id_tables(ctx, P, only=r'HashAlgorithm|SignatureType|PublicKeyAlgorithm')
    # salt first + twins
    twins(ctx, P)
    hashed_subpackets_all_fed(ctx, P)
    # what is framed and hashed for a certification is the packet body as it is on the wire (shared with C05): a user attribute keeps
    # the stored encoding of its subpacket length, a JPEG header is only accepted with the length it is written with
    from rules import c05
    c05.stored_length_encoding(ctx, P)
    c05.image_header_length_formula(ctx, P)
    # the hashed subpacket area is framed with announced lengths: a subpacket that announces another length than it writes is
    # hashed (and serialised) mis-framed - R-len restricted to the signature types (shared with C05)
    c05.r_len(ctx, P, only=r'packet::signature::|SignatureConfig|Notation|KeyFlags|Features|RevocationKey', floors=(70, 3))
    # the canonicalised document that enters the digest (shared with C14)
    from rules import c14
    c14.hasher_rules(ctx, P)
    sig.salt_fed_at_every_hasher(ctx, P)
    sig.text_mode_selection(ctx, P)


FEED = [('new_hasher', r'HashAlgorithm::new_hasher$'), ('key-frame', r'signature::types::serialize_for_hashing$'), ('id-body', r'Serialize::to_writer$'),
        ('hashed-fields', r'SignatureConfig::hash_signature_data$'), ('trailer', r'SignatureConfig::trailer$'), ('finalize', r'DynDigest::finalize$')]


def feed_sequence(b):
    """Ordered (by dominance/line) abstract feed events on the way to finalize; key frames carry the parameter they serialise."""
    ev = []
    for label, rx in FEED:
        for i, t in b.calls(rx):
            who = ''
            if label == 'key-frame':
                who = ','.join(sorted(tok for tok in b.operand_origins(t['args'][0]) if tok.startswith('param:')))
            ev.append((b.line(i), i, label, who))
    ev.sort()
    return [(l, w) for _, _, l, w in ev]


HASH_MARK = {'Md5': 'md5::Md5', 'Sha1': 'sha1_checked::Sha1', 'Ripemd160': 'ripemd::Ripemd160', 'Sha256': 'OidSha256', 'Sha384': 'OidSha384', 'Sha512': 'OidSha512',
             'Sha224': 'OidSha224', 'Sha3_256': 'Sha3_256Core', 'Sha3_512': 'Sha3_512Core'}


def hash_tables(ctx, P):
    """The digest computed for a hash algorithm id is the one the id names: in new_hasher, digest and digest_size every match arm uses
    the dependency type of the same algorithm (a swapped arm is self-consistent on both sides and invisible to round trips)."""
    for path, callrx in (('crypto::hash::HashAlgorithm::new_hasher', r'default::Default::default$'),
                         ('crypto::hash::HashAlgorithm::digest_size', r'Digest::output_size$'),
                         ('crypto::hash::HashAlgorithm::digest', r'Digest::digest$|::try_digest$')):
        b = ctx.body(path)
        if b is None:
            continue
        dom = b.dominators()
        tab = {}
        for i, t in b.calls(callrx):
            arms = [vs for a, vs in arm_context(b, i, dom) if a == 'HashAlgorithm']
            ty = (t['f'].get('selfty') or '') + ' ' + (t.get('rty') or '') + ' ' + (t['f'].get('full') or '')
            for v in (arms[-1] if arms else ['?']):
                tab.setdefault(v, []).append(ty)
        bad = {v: tys[0][:80] for v, tys in tab.items() if v in HASH_MARK and not all(HASH_MARK[v] in x for x in tys)}
        miss = [v for v in HASH_MARK if v not in tab]
        ctx.check('%s:hash-table:%s' % (P, path.split('::')[-1]), 'R-table', '%s: every HashAlgorithm arm uses the digest implementation of the same algorithm' % path.split('::')[-1],
                  not bad and not miss, function=path, missing=(bad or miss) or None, count=len(tab))


def salt_tables(ctx, P):
    # salt table
    b = ctx.body('crypto::hash::HashAlgorithm::salt_len')
    if b is not None:
        dom = b.dominators()
        tab = {}
        for i, k, s in b.stmts(lambda s: s['r']['k'] == 'agg' and s['r'].get('v') == 'Some' and s['d']['l'] == 0):
            o = s['r']['o'][0]
            if 'k' in o and 'v' in o['k']:
                arms = [vs for a, vs in arm_context(b, i, dom) if a == 'HashAlgorithm']
                for v in (min(arms, key=len) if arms else ['?']):
                    tab[v] = o['k']['v']
        want = {'Sha224': 16, 'Sha256': 16, 'Sha384': 24, 'Sha512': 32, 'Sha3_256': 16, 'Sha3_512': 32}
        ctx.check(P + ':salt-table', 'R-table', 'v6 salt sizes equal RFC 9580 Table 23', tab == want, function=b.path, table=tab)
    b = ctx.body(CFG + 'v6_salt_for')
    if b is not None:
        ctx.check(P + ':salt-generated-from-table', 'origin', 'generated salts are sized by HashAlgorithm::salt_len', bool(b.calls(r'HashAlgorithm::salt_len$')), function=b.path)
    # every consumer of a v6 salt compares its length with the table, and an algorithm without a salt size (None) is refused:
    # no branch on the Option returned by salt_len() lets its None edge reach the point where the salt is used
    n = 0
    for p, r in sorted(ctx.f.bodies.items()):
        if '::tests::' in p or p == CFG + 'v6_salt_for':
            continue
        b = ctx.wrap(r)
        cs = b.calls(r'HashAlgorithm::salt_len$')
        if not cs:
            continue
        n += 1
        ctx.functions.add(p)
        oks = ok_exit_blocks(b) or b.returns()
        bad = None
        for i, t in b.switches():
            info = enum_switch_info(b, i)
            if not info or not info[0].endswith('Option') or not has_origin(b.switch_origins(i), r'call:.*HashAlgorithm::salt_len$'):
                continue
            if has_origin(b.switch_origins(i), r'call:.*PartialEq::(eq|ne)$'):
                continue
            for j, _ in b.succ(i):
                if 'None' in (edge_variants(b, i, j) or []):
                    w = b.find_path(j, set(oks))
                    if w is not None:
                        bad = w
        cmp_ = [g for g, _ in guard_switches(b, oks, [r'call:.*HashAlgorithm::salt_len$'])]
        ok, wit = must_pass(b, oks, cmp_) if cmp_ else (False, None)
        ctx.check('%s:salt-length-checked:%s' % (P, p), 'R-dom', 'the v6 salt length is compared with HashAlgorithm::salt_len() in %s, and a hash without a salt size is refused' % p.split('::')[-1],
                  bad is None and bool(cmp_), function=p, witness=fmt_path(b, bad) if bad else None,
                  missing='salt_len() == None (MD5, SHA-1, RIPEMD-160) skips the length check' if bad else None)
    ctx.floor(P + ':salt-length-checked:floor', 'functions comparing a v6 salt length with the table', n, 3)


def hashed_subpackets_all_fed(ctx, P):
    """RFC 9580 §5.2.4: the whole hashed subpacket area enters the digest.  In hash_signature_data no iteration over the hashed
    subpackets can come back to the loop head without having serialised the subpacket into the hasher (or having failed)."""
    b = ctx.body(CFG + 'hash_signature_data')
    if b is None:
        return
    sinks = [i for i, t in b.calls(r'Serialize::to_writer$') if 'Subpacket' in t['f'].get('selfty', '') or 'Subpacket' in (t['f'].get('res') or '')]
    heads = call_blocks(b, r'Iterator::next$')
    n = 0
    bad = None
    for h in heads:
        body = b.reach_from([j for j, _ in b.succ(h)])
        if h not in body:
            continue
        mine = [x for x in sinks if x in body and h in b.reach_from([b.blocks[x]['t']['t']])]
        if not mine:
            continue
        n += 1
        skip = b.reach_from([j for j, _ in b.succ(h)], removed=frozenset(mine))
        if h in skip:
            bad = b.find_path(b.blocks[h]['t']['t'], {h}, removed=frozenset(mine))
    ctx.check(P + ':hashed-area:every-subpacket-fed', 'R-dom', 'every iteration over the hashed subpackets serialises the subpacket into the digest (no skipping `continue`)',
              n >= 1 and bad is None, function=b.path, witness=fmt_path(b, bad) if bad else None, count=n)


def twins(ctx, P):
    pairs = [(CFG + 'sign_certification_third_party', SIGT + 'verify_third_party_certification', {'signee': ('param:4', 'param:2')}),
             (CFG + 'sign_subkey_binding', SIGT + 'verify_subkey_binding', None),
             (CFG + 'sign_primary_key_binding', SIGT + 'verify_primary_key_binding', None),
             (CFG + 'sign_key', SIGT + 'verify_key_third_party', None)]
    for sp, vp, _ in pairs:
        bs, bv = ctx.body(sp), ctx.body(vp)
        if bs is None or bv is None:
            continue
        ss = [l for l, w in feed_sequence(bs)]
        sv = [l for l, w in feed_sequence(bv)]
        ctx.check('%s:twin-sequence:%s' % (P, sp.split('::')[-1]), 'R-sib', '%s feeds the same abstract sequence as %s' % (sp.split('::')[-1], vp.split('::')[-1]),
                  [x for x in ss if x != 'id-body'] == [x for x in sv if x != 'id-body'] and 'hashed-fields' in ss and 'trailer' in ss, function=sp, table=dict(sign=ss, verify=sv))
        for b, nm in ((bs, sp), (bv, vp)):
            # v6 salt fed before the first key frame / content
            salt = []
            for i, t in b.calls(r'DynDigest::update$'):
                og = set()
                for a in t['args'][1:]:
                    og |= b.operand_origins(a)
                if has_origin(og, r'field:SignatureVersionSpecific::V6\.salt$'):
                    salt.append(i)
            first = call_blocks(b, r'signature::types::serialize_for_hashing$|SignatureConfig::hash_signature_data$')
            nh = call_blocks(b, r'HashAlgorithm::new_hasher$')
            ok = bool(salt) and all(b.line(s) < min(b.line(f) for f in first) for s in salt) and all(b.line(s) > b.line(nh[0]) for s in salt) if first and nh else False
            ctx.check('%s:salt-first:%s' % (P, nm.split('::')[-1]), 'R-seq', 'the v6 salt is the first thing fed to the hasher in %s' % nm.split('::')[-1], ok, function=nm)
    # key frame roles: which parameter is framed first
    roles = {}
    for path in (CFG + 'sign_subkey_binding', SIGT + 'verify_subkey_binding', CFG + 'sign_primary_key_binding', SIGT + 'verify_primary_key_binding'):
        b = ctx.body(path)
        if b is None:
            continue
        frames = [w for l, w in feed_sequence(b) if l == 'key-frame']
        roles[path.split('::')[-1]] = frames
    # verify_subkey_binding(self, signer=primary(2), signee=subkey(3)) : primary then subkey
    # sign_subkey_binding(self, signer(2), pw(3), signer_pub(4), signee(5)) : signer_pub then signee
    # verify_primary_key_binding(self, signer=subkey(2), signee=primary(3)) : signee then signer
    # sign_primary_key_binding(self, signer(2), pw(3), signer_pub(4), signee(5)) : signee then signer_pub
    # (signatures confirmed by reading: sign_*_binding(self, signer, signer_pub, signer_pw, signee))
    want = {'verify_subkey_binding': ['param:2', 'param:3'], 'sign_subkey_binding': ['param:3', 'param:5'],
            'verify_primary_key_binding': ['param:3', 'param:2'], 'sign_primary_key_binding': ['param:5', 'param:3']}
    ctx.check(P + ':binding-frame-order', 'R-seq', 'subkey binding hashes (primary, subkey); primary-key binding hashes (primary, subkey) with signer/signee roles swapped — identically on the sign and verify side',
              roles == want, table=roles)
    # into_hasher / new_hasher feed the salt first
    for path, rx in ((CFG + 'into_hasher', None), ('composed::message::reader::signed_many', None)):
        pass
