"""C01 Message round trip — NARROW structural clauses only (DESIGN §11.10)."""
import re
from rules import stream, c03, c05, c12, c17
from rules.tables import int_to_variant_table
from core import has_origin

EXPLANATION = ("Decides narrow structural clauses of C01, not the byte-exact round trip over all lengths and configurations (cipher, compressor and "
               "buffer arithmetic are runtime values): what the builder's layers and the reader's layers must agree on by construction — literal "
               "data mode and compression algorithm octets decode and encode to the RFC tables (decode table from the match, encode = enum "
               "discriminants); AEAD chunk size is 1 << (c + 6) in the one function both directions call; packet / partial length encoders and "
               "decoders are inverse partitions and the partial-body generators validate and announce the chunk size they keep (shared with "
               "C17); SEIPDv2 derivation, chunk nonce and MDC trailer octets are the same on both sides (shared with C12/C03); announced "
               "lengths of the message-layer packets equal the bytes written (R-len of C05 restricted to those types); the stage machines of "
               "the encryptors / readers never report a 0-octet read from a non-terminal stage, fill loops neither drop source errors nor "
               "partial fills, buffered tails are finished explicitly (shared with C09). Not decided: everything that depends on payload "
               "length arithmetic at chunk / buffer boundaries, compressor behaviour, and signature verification after the round trip (C06).")
ASSUMPTIONS = ["num_enum derives encode as the enum discriminant", "dependency ciphers / compressors are inverse pairs"]

RFC_DATA_MODE = {98: 'Binary', 116: 'Text', 117: 'Utf8', 109: 'Mime'}
RFC_COMPRESSION = {0: 'Uncompressed', 1: 'ZIP', 2: 'ZLIB', 3: 'BZip2'}


def octet_tables(ctx, P):
    for adt, dec_path, want, nm, extra in (
            ('packet::literal_data::DataMode', '<packet::literal_data::DataMode as num_enum::FromPrimitive>::from_primitive', RFC_DATA_MODE, 'data-mode', {}),
            ('types::compression::CompressionAlgorithm', '<types::compression::CompressionAlgorithm as num_enum::FromPrimitive>::from_primitive', RFC_COMPRESSION, 'compression', {110: 'Private10'})):
        b = ctx.body(dec_path)
        a = ctx.f.adts.get(adt)
        if b is None or a is None:
            ctx.missing(P + ':tables:' + nm, '%s or its decoder not found' % adt)
            continue
        dec = {}
        for lo, hi, vs in int_to_variant_table(b):
            if lo == hi and vs and vs != ('Other',):
                dec[lo] = vs[0]
        enc = {v['d']: v['n'] for v in a['vars'] if not v['fields']}
        full = dict(want)
        full.update(extra)
        ctx.check(P + ':tables:%s:decode' % nm, 'R-table', '%s octets decode to the RFC 9580 table (everything else to Other)' % nm, dec == full, function=dec_path, table=dec)
        ctx.check(P + ':tables:%s:encode-is-inverse' % nm, 'R-table', '%s variants encode (enum discriminant) to the octet that decodes to them' % nm,
                  all(dec.get(d) == n for d, n in enc.items()) and set(enc.values()) == set(full.values()), function=adt, table=enc)
    b = ctx.body('crypto::aead::ChunkSize::as_byte_size')
    if b is not None:
        ops = [(s['r']['op'].replace('WithOverflow', ''), [o.get('k', {}).get('v') if 'k' in o else None for o in s['r']['o']]) for blk in b.blocks for s in blk['s'] if s['r']['k'] == 'bin']
        ok = any(op == 'Add' and 6 in vs for op, vs in ops) and any(op == 'Shl' and vs[0] == 1 for op, vs in ops)
        ctx.check(P + ':tables:aead-chunk-size', 'R-table', 'the AEAD chunk size is 1 << (c + 6) (RFC 9580 §5.13.2)', ok, function=b.path, table=[list(map(str, x)) for x in ops])
        users = sorted(p for p, r in ctx.f.bodies.items() if '::tests::' not in p and ctx.wrap(r).calls(r'ChunkSize::as_byte_size$'))
        for u in users:
            ctx.functions.add(u)
        ctx.check(P + ':tables:aead-chunk-size-single', 'R-who', 'encryptor and decryptor obtain the chunk size from the same function',
                  any('encryptor' in u for u in users) and any('decryptor' in u for u in users), table=users)


def builder_conversions_keep_settings(ctx, P):
    """The message builder changes its encryption type state by value (`Builder<.., NoEncryption>` -> `Builder<.., EncryptionSeipdV1>`).
    Whatever was configured before the switch - compression, chunk size, data mode, signature type and above all the registered
    SIGNERS - must be carried over: every field of the resulting builder other than the one whose type changes derives from the same
    field of the consumed builder.  (A conversion that starts from a fresh default silently drops the signers registered before it.)"""
    adt = ctx.f.adts.get('composed::message::builder::Builder')
    if adt is None:
        ctx.missing(P + ':builder:conversion:anchor', 'composed::message::builder::Builder not found')
        return
    fields = [f_['n'] for f_ in adt['vars'][0]['fields']]
    n = 0
    for p, r in sorted(ctx.f.bodies.items()):
        if not p.startswith('composed::message::builder::Builder::') or r['kind'] != 'AssocFn' or r['nargs'] < 1:
            continue
        t1, t0 = r['locals'][1]['ty'] or '', r['locals'][0]['ty'] or ''
        if not (t1.startswith('composed::message::builder::Builder<') and t0.startswith('composed::message::builder::Builder<')) or t1 == t0:
            continue
        b = ctx.wrap(r)
        n += 1
        og = b.operand_origins({'l': 0, 'pr': []})
        # the field whose type differs between argument and result is the one being replaced
        lost = [f_ for f_ in fields if ('field:Builder.%s' % f_) not in og and f_ != 'encryption']
        ctx.check('%s:builder:conversion-keeps-settings:%s' % (P, p.split('::')[-1]), 'origin',
                  '%s carries every setting of the builder it consumes over into the one it returns' % p.split('::')[-1],
                  not lost, function=p, missing=None if not lost else 'not carried over: %s (what was configured before the call is silently dropped)' % ', '.join(lost))
    ctx.floor(P + ':builder:conversion:floor', 'type-state conversions of the message builder', n, 2)


def run(ctx):
    P = 'C01'
    octet_tables(ctx, P)
    builder_conversions_keep_settings(ctx, P)
    builder_setters_validate_before_mutating(ctx, P)
    from rules import sig as _sig
    _sig.salt_fed_at_every_hasher(ctx, P)
    c17.s17_1(ctx, P)
    c17.s17_3(ctx, P)
    c17.partial_emitters(ctx, P)
    c17.running_offset_emitters(ctx, P)
    c03.seipdv1(ctx, P)
    c03.seipdv2(ctx, P)
    c12.seipdv2(ctx, P)
    c12.mdc(ctx, P)
    c03.chunk_nonce(ctx, P)
    c05.r_len(ctx, P, only=r'literal_data|compressed_data|sym_encrypted|sym_key_encrypted|public_key_encrypted|one_pass_signature|packet::header|types::packet|types::pkesk|types::esk|mod_detection|padding|marker|packet::signature::types::Signature$|SignatureConfig', floors=(70, 10))
    stream.zero_means_end(ctx, P)
    stream.fill_loops(ctx, P)
    stream.interrupted_safe_fill(ctx, P)
    stream.r_pair(ctx, P)
    stream.wrapper_finishers(ctx, P)
    stream.stage_buffer_advanced_by_what_was_copied(ctx, P)
    stream.grown_stage_emptied_on_failed_fill(ctx, P)
    stream.finished_flag_set_after_the_writes(ctx, P)


def builder_setters_validate_before_mutating(ctx, P):
    """A configuration setter of the message builder that can refuse (`-> Result<&mut Self>`) either changes the builder or reports an
    error, never both: a caller that ignores (or handles) the `Err` of a late `set_session_key` must still get a message whose session
    key packets and body were made with the SAME key.  In every public `&mut self` method of `Builder` that returns a Result, no error
    exit is reachable from an assignment to a field of the builder."""
    from rules.common import err_exit_blocks, site
    n = 0
    for p, r in sorted(ctx.f.bodies.items()):
        if '::tests::' in p or r['kind'] != 'AssocFn' or r['nargs'] < 1 or r.get('vis') != 'pub':
            continue
        if not p.startswith('composed::message::builder::Builder::<') or not (r['locals'][1]['ty'] or '').startswith('&mut'):
            continue
        if not re.match(r'(std::result::Result|errors::Result)<', r['locals'][0]['ty'] or ''):
            continue
        b = ctx.wrap(r)
        muts = sorted(set(i for i, k, st in b.stmts(lambda st: st['d']['l'] == 1 and len(st['d']['pr']) >= 2 and st['d']['pr'][0] == '*')))
        errs = set(err_exit_blocks(b))
        if not muts or not errs:
            continue
        n += 1
        late = [m for m in muts if b.reach_from([m]) & errs]
        ctx.check('%s:S01-7:setter-validates-before-mutating:%s' % (P, p), 'R-seq', '%s reports an error only while the builder is still unchanged' % p.split('::')[-1],
                  not late, function=p, site=site(b, late[0]) if late else None,
                  missing=None if not late else 'the builder field assigned at %s is already changed when a later check refuses: an Err of this setter leaves a builder whose parts no longer fit together' % site(b, late[0]))
    ctx.floor(P + ':S01-7:floor', 'fallible configuration setters of the message builder', n, 4)
