"""Concrete evaluation of version guards: for every pair (signature version, key version) simulate the CFG of a function, resolving
the switches that test one of the two values (derived `==` / `!=` against a constant variant, `match` on the enum, and `matches!`
lowered through a bool) and following both edges of every other switch; a pair is *accepted* if a sink block stays reachable."""
import re
from rules.common import single_defs, enum_switch_info, edge_variants

SV = ['V2', 'V3', 'V4', 'V5', 'V6', 'Other']
KV = ['V2', 'V3', 'V4', 'V5', 'V6', 'Other']


def _class_of(b, o, sv_rx, kv_rx):
    og = b.operand_origins(o)
    s = any(re.search(sv_rx, x) for x in og)
    k = any(re.search(kv_rx, x) for x in og)
    if s and not k:
        return 'sv'
    if k and not s:
        return 'kv'
    return None


def accepted_pairs(b, sinks, sv_rx=r'call:.*(SignatureConfig|Signature)::version$', kv_rx=r'call:.*KeyDetails::version$', start=0):
    defs = single_defs(b)
    sinks = set(sinks)
    # classify switches once
    info = {}
    for i, t in b.switches():
        o = t['o']
        neg = False
        kind = None
        for _ in range(6):
            if 'l' not in o or o['pr']:
                break
            d = defs.get(o['l'])
            if d is None:
                break
            x = d[1]
            if x.get('k') == 'call':
                fn = x['f'].get('fn', '')
                st = x['f'].get('selfty') or ''
                if re.search(r'PartialEq::(eq|ne)$', fn) and re.search(r'(SignatureVersion|KeyVersion)$', st) and len(x['args']) == 2:
                    cls = 'sv' if st.endswith('SignatureVersion') else 'kv'
                    var = None
                    for a in x['args']:
                        for og in b.operand_origins(a):
                            m = re.match(r'agg:.*(?:SignatureVersion|KeyVersion)::(\w+)$', og)
                            if m:
                                var = m.group(1)
                    if var is not None:
                        kind = ('eq', cls, var, neg != fn.endswith('::ne'))
                break
            r = x['r']
            if r['k'] == 'use':
                o = r['o'][0]
                continue
            if r['k'] == 'un' and r['op'] == 'Not':
                neg = not neg
                o = r['o'][0]
                continue
            break
        if kind is None:
            ei = enum_switch_info(b, i)
            if ei and re.search(r'(SignatureVersion|KeyVersion)$', ei[0]):
                cls = 'sv' if ei[0].endswith('SignatureVersion') else 'kv'
                kind = ('enum', cls)
            elif t.get('ty') == 'bool' and 'l' in t['o'] and not t['o']['pr']:
                kind = ('bool', t['o']['l'])
        info[i] = kind
    # bool locals assigned constants (matches! lowering)
    assigns = {}
    for bi, blk in enumerate(b.blocks):
        for s in blk['s']:
            if not s['d']['pr'] and s['r']['k'] == 'use' and 'k' in s['r']['o'][0] and s['r']['o'][0]['k'].get('ty') == 'bool':
                assigns.setdefault(bi, []).append((s['d']['l'], 1 if s['r']['o'][0]['k'].get('v') else 0))
    out = set()
    for sv in SV:
        for kv in KV:
            val = {'sv': sv, 'kv': kv}
            seen = set()
            stack = [(start, frozenset())]
            ok = False
            while stack and not ok:
                i, env = stack.pop()
                if (i, env) in seen:
                    continue
                seen.add((i, env))
                if i in sinks:
                    ok = True
                    break
                if i in assigns:
                    e = dict(env)
                    for l, v in assigns[i]:
                        e[l] = v
                    env = frozenset(e.items())
                succ = b.succ(i)
                k = info.get(i)
                if k and k[0] == 'eq':
                    truth = (val[k[1]] == k[2]) != k[3]
                    succ = [(j, e) for j, e in succ if (e[0] == 'v' and e[1] == 0) != truth]
                elif k and k[0] == 'enum':
                    nxt = [(j, e) for j, e in succ if val[k[1]] in (edge_variants(b, i, j) or [])]
                    succ = nxt or succ
                elif k and k[0] == 'bool' and dict(env).get(k[1]) is not None:
                    truth = dict(env)[k[1]] == 1
                    succ = [(j, e) for j, e in succ if (e[0] == 'v' and e[1] == 0) != truth]
                for j, _ in succ:
                    stack.append((j, env))
            if ok:
                out.add((sv, kv))
    return out
