"""Signature-layer rule instances shared by C02 / C11 / C15 (DESIGN §5 S02-*, S15-4, S15-5)."""
import re
from rules.common import rdom, call_blocks, ok_exit_blocks, site, is_pure_forwarder, accept_edge, err_exit_blocks
from core import guard_switches, must_pass, fmt_path, has_origin

SIG = 'packet::signature::types::Signature::'
CFG = 'packet::signature::config::'
SINK = r'VerifyingKey::verify$'

# verify-side sink sites: functions of the crate that hand a digest to `VerifyingKey::verify` and are NOT
# pure forwarders.  Confirmed by reading on the pinned tree (floor = 6).
TYPED_VERIFIERS = {
    SIG + 'verify': dict(types=None, identity=True),
    SIG + 'verify_third_party_certification': dict(types={0x10, 0x11, 0x12, 0x13, 0x30}, identity=True),
    SIG + 'verify_subkey_binding': dict(types={0x18, 0x28}, identity=False),
    SIG + 'verify_primary_key_binding': dict(types={0x19}, identity=False),
    SIG + 'verify_key_third_party': dict(types={0x1F, 0x20}, identity=True),
}
INLINE_VERIFIER = "composed::message::types::Message::<'a>::verify_nested_explicit"

FORWARDER_RX = r'VerifyingKey::verify$'


def sink_functions(ctx):
    """All bodies that call VerifyingKey::verify, split into (non-forwarders, forwarders)."""
    nonfw, fw = [], []
    for p, r in ctx.f.bodies.items():
        b = ctx.wrap(r)
        cs = b.calls(SINK)
        if not cs:
            ctx.functions.discard(p)
            continue
        if r.get('impl_trait', '').endswith('VerifyingKey') and r.get('name') == 'verify':
            fw.append(b)
        else:
            nonfw.append(b)
    return nonfw, fw


def s02_1_sink_discipline(ctx, P):
    nonfw, fw = sink_functions(ctx)
    ctx.floor(P + ':S02-1:floor:sinks', 'non-forwarding callers of VerifyingKey::verify', len(nonfw), 6)
    known = set(TYPED_VERIFIERS) | {INLINE_VERIFIER}
    for b in nonfw:
        short = b.path.split('::')[-1]
        sinks = call_blocks(b, SINK)
        # (a) left-16-bit prefix check dominates the sink
        rdom(ctx, '%s:S02-1:prefix:%s' % (P, b.path), b, sinks,
             [r'field:InnerSignature::Known\.signed_hash_value', r'call:.*(DynDigest::finalize|SignatureManyReader.*::hash|::hash)$'],
             'left-16-bit check (signed_hash_value vs computed digest) dominates the public-key primitive in %s' % short)
        # (b) the digest argument of the sink is the computed digest
        for i, t in b.calls(SINK):
            og = b.operand_origins(t['args'][2]) if len(t['args']) > 2 else set()
            ctx.check('%s:S02-1:digest-arg:%s' % (P, b.path), 'origin',
                      'digest handed to the primitive derives from the recomputed hash in %s' % short,
                      has_origin(og, r'call:.*(DynDigest::finalize|::hash)$'), function=b.path, site=site(b, i))
        # (c) every Ok exit goes through the primitive's success edge
        all_ok_through(ctx, '%s:S02-1:ok-through-primitive:%s' % (P, b.path), b, SINK,
                       'every Ok exit of %s passes through VerifyingKey::verify with its error propagated' % short)
        if b.path not in known:
            ctx.note('new sink site %s is subject to the S02-1/S15-4 sibling rules' % b.path)
    # forwarders must be pure
    for b in fw:
        if b.r.get('impl_self', '').startswith('packet::key::public::PubKeyInner'):
            continue  # the real implementation
        if 'adapter::' in b.path:
            # adapters verify with the key they were built from: still only a forward
            pass
        ok, why = is_pure_forwarder(b, FORWARDER_RX)
        ctx.check('%s:S02-1:forwarder:%s' % (P, b.path), 'R-who', 'VerifyingKey::verify impl is a pure forwarder: %s' % b.path, ok,
                  function=b.path, missing=why)


def all_ok_through(ctx, key, b, sink_rx, desc):
    sinks = b.calls(sink_rx)
    sink_blocks = [i for i, _ in sinks]
    passthrough = [i for i, t in sinks if t['d']['l'] == 0 and not t['d']['pr']]
    oks = [i for i in ok_exit_blocks(b) if i not in passthrough]
    if not oks:
        # all Ok exits are the sink call itself; make sure no other assignment of _0 is a success
        ctx.ok(key, 'R-dom', desc, function=b.path, sinks=[site(b, i) for i in passthrough])
        return True
    # other Ok exits must be preceded by the sink and a guard on its result
    return rdom(ctx, key, b, oks, [r'call:.*' + sink_rx.rstrip('$') + r'$'], desc)


def s02_3_type_binding(ctx, P):
    for path, spec in TYPED_VERIFIERS.items():
        if spec['types'] is None:
            continue
        b = ctx.body(path, '%s:S02-3:type:%s' % (P, path))
        if b is None:
            continue
        short = path.split('::')[-1]
        sinks = call_blocks(b, SINK)
        rdom(ctx, '%s:S02-3:type:%s' % (P, path), b, sinks, [r'field:SignatureConfig\.typ$'],
             'signature type check dominates the primitive in %s' % short)
        # accepted set: read off the switch on discriminant(config.typ)
        acc = accepted_types(b, sinks)
        if acc is not None and any(isinstance(x, str) for x in acc):
            adt = ctx.f.adts.get('packet::signature::types::SignatureType')
            names = {v['n']: v['d'] for v in adt['vars']} if adt else {}
            acc = set(names.get(x, x) for x in acc)
        ctx.check('%s:S02-3:typeset:%s' % (P, path), 'R-table',
                  'accepted signature types of %s equal the RFC set %s' % (short, sorted(hex(x) for x in spec['types'])),
                  acc == spec['types'], function=b.path, table=sorted(acc) if acc is not None else None)
    sign_side_type_sets(ctx, P)
    inline_data_type_gate(ctx, P)


def inline_data_type_gate(ctx, P):
    """S02-3 (data signatures, sibling rule): the detached path refuses every signature type that does not sign a document
    (`SignatureConfig::hash_data_to_sign` copies the data into the digest only in the arms Binary and Text and raises an error
    for the certificate-forming types).  The inline path hashes the literal body for whatever type the packet carries, so it must
    refuse the same types itself before the primitive: a certification / binding signature copied from a certificate must not
    verify as the signature of a message whose body is the octet string that signature type hashes."""
    hb = ctx.body(CFG + 'SignatureConfig::hash_data_to_sign', P + ':S02-3:data-types:anchor')
    vb = ctx.body(INLINE_VERIFIER, P + ':S02-3:inline-type:anchor')
    if hb is None or vb is None:
        return
    adt = ctx.f.adts.get('packet::signature::types::SignatureType')
    names = {v['n']: v['d'] for v in adt['vars']} if adt else {}
    copies = call_blocks(hb, r'io::copy$')
    doc = accepted_types(hb, copies) if copies else None
    if doc is not None:
        doc = set(names.get(x, x) for x in doc)
    ctx.check(P + ':S02-3:data-types:detached', 'R-table', 'the detached path feeds the document for the signature types Binary and Text only',
              doc == {0, 1}, function=hb.path, table=sorted(doc) if doc is not None else None)
    sinks = call_blocks(vb, SINK)
    rdom(ctx, P + ':S02-3:inline-type', vb, sinks, [r'field:SignatureConfig\.typ$|call:.*SignatureConfig::typ$'],
         'a signature type check dominates the primitive on the inline path (verify_nested_explicit)')
    acc = accepted_types(vb, sinks)
    if acc is not None:
        acc = set(names.get(x, x) for x in acc)
    ctx.check(P + ':S02-3:inline-typeset', 'R-sib', 'the inline path accepts exactly the signature types for which the detached path hashes a document',
              acc is not None and doc is not None and acc == doc, function=vb.path, table=sorted(acc) if acc is not None else None,
              missing=None if (acc is not None and acc == doc) else 'no rejecting test of the signature type before VerifyingKey::verify: any type (certification, binding, ...) is accepted as a data signature')


SIGN_TYPE_SETS = {CFG + 'SignatureConfig::sign_key': {'Key', 'KeyRevocation'}}


def sign_side_type_sets(ctx, P):
    """Sign-side twin of S02-3: a signing function that frames ONE key (sign_key) admits exactly the signature types whose RFC 9580
    §5.2.4 digest frames one key (direct key 0x1F, key revocation 0x20)."""
    for path, want in SIGN_TYPE_SETS.items():
        b = ctx.body(path)
        if b is None:
            continue
        got = set()
        for i, t in b.calls(r'contains$'):
            for a in t['args']:
                for tok in b.operand_origins(a):
                    m = re.match(r'agg:.*SignatureType::(\w+)$', tok)
                    if m:
                        got.add(m.group(1))
        sinks = call_blocks(b, r'SigningKey::sign$')
        gs = guard_switches(b, sinks, [r'field:SignatureConfig\.typ$']) if sinks else []
        ctx.check('%s:S02-3:sign-typeset:%s' % (P, path.split('::')[-1]), 'R-table', '%s admits exactly the signature types %s (rejecting, before signing)' % (path.split('::')[-1], sorted(want)),
                  got == want and bool(gs), function=path, table=sorted(got))


def accepted_types(b, sinks):
    """Set of SignatureType discriminant values for which the sink stays reachable, taken from switches
    on discriminant(SignatureConfig.typ) (direct switch, `matches!` bool-phi, or PartialEq::eq with a constant)."""
    can = b.can_reach(set(sinks))
    res = None
    for i, t in b.switches():
        o = t['o']
        if 'l' not in o:
            continue
        d = None
        for s in b.blocks[i]['s']:
            if s['d']['l'] == o['l'] and s['r']['k'] == 'discr':
                d = s['r']
        if d is None:
            continue
        via_field = bool(d['p']['pr']) and d['p']['pr'][-1].endswith('SignatureConfig.typ')
        via_getter = not d['p']['pr'] and has_origin(b.operand_origins(d['p']), r'call:.*SignatureConfig::typ$')
        if not (via_field or via_getter):
            continue
        acc = set()
        for v, tgt in t['targets']:
            if accept_edge(b, i, tgt, can):
                acc.add(v)
        if accept_edge(b, i, t['else'], can):
            return None  # open-ended acceptance
        res = acc if res is None else (res & acc)
    if res is None:
        # ensure_eq!(config.typ, SignatureType::X): PartialEq::eq on (&typ, &const) — find constant aggregate
        for i, t in b.calls(r'PartialEq::eq$|PartialEq::ne$'):
            ogs = [b.operand_origins(a) for a in t['args']]
            if any(has_origin(o, r'field:SignatureConfig\.typ$') for o in ogs):
                for o in ogs:
                    for tok in o:
                        m = re.match(r'agg:.*SignatureType::(\w+)$', tok)
                        if m:
                            res = (res or set()) | {m.group(1)}
        if res:
            # map names to values through the ADT table
            return res
    return res


def s02_4_identity(ctx, P):
    for path, spec in TYPED_VERIFIERS.items():
        if not spec['identity']:
            continue
        b = ctx.body(path, '%s:S02-4:identity:%s' % (P, path))
        if b is None:
            continue
        rdom(ctx, '%s:S02-4:identity:%s' % (P, path), b, call_blocks(b, SINK), [r'call:.*Signature::match_identity$'],
             'issuer identity match dominates the primitive in %s' % path.split('::')[-1])
    # match_identity itself compares against the key's own id / fingerprint
    b = ctx.body(SIG + 'match_identity')
    if b is not None:
        names = set()
        for c in [b] + [ctx.wrap(r) for r in ctx.f.closures_of(b.path)]:
            for i, t in c.calls():
                names.add(t['f'].get('fn', ''))
        need = ['KeyDetails::legacy_key_id', 'KeyDetails::fingerprint', 'issuer_key_id', 'issuer_fingerprint']
        miss = [n for n in need if not any(x.endswith(n) for x in names)]
        ctx.check(P + ':S02-4:match_identity-body', 'R-who', 'match_identity compares issuer subpackets with the key\'s own key id and fingerprint',
                  not miss, function=b.path, missing=miss)
        # "no issuer subpacket at all => candidate" is the only unconditional `true`: a constant `true` (one that is not the verdict of
        # a comparison) is returned only behind emptiness tests of BOTH lists - with only the key-id list tested, a signature that
        # names another key by fingerprint (every v6 signature) matches any key
        consts_true = [i for i, k, st in b.stmts(lambda st: st['d']['l'] == 0 and not st['d']['pr'] and st['r']['k'] == 'use' and 'k' in st['r']['o'][0] and st['r']['o'][0]['k'].get('v') in (True, 1))]
        dom = b.dominators()
        bad = []
        for i in consts_true:
            # a constant true on the `found` edge of an any() / comparison is a verdict, not the default
            ctrl = [g for g in dom.get(i, ()) if g != i and b.blocks[g]['t']['k'] == 'switch']
            last = max(ctrl) if ctrl else None
            if last is not None and has_origin(b.switch_origins(last), r'call:.*Iterator::any$|call:.*PartialEq::eq$'):
                continue
            tests = set()
            for g in ctrl:
                og = b.switch_origins(g)
                # the test counts only if it SELECTS: one of its edges leads to this default, the other one does not
                leads = [j for j in set(j for j, _ in b.succ(g)) if i in b.reach_from([j], removed=frozenset([g]))]
                if len(leads) != 1:
                    continue
                if has_origin(og, r'call:.*is_empty$'):
                    if has_origin(og, r'call:.*issuer_key_id$'):
                        tests.add('key-id')
                    if has_origin(og, r'call:.*issuer_fingerprint$'):
                        tests.add('fingerprint')
            if tests != {'key-id', 'fingerprint'}:
                bad.append((i, sorted(tests)))
        ctx.check(P + ':S02-4:match_identity-default-needs-both-empty', 'R-dom', 'match_identity answers `true` without a comparison only when neither an issuer key id nor an issuer fingerprint subpacket is present',
                  bool(consts_true) and not bad, function=b.path, site=site(b, bad[0][0]) if bad else None,
                  missing=None if not bad else 'the default `true` at %s is guarded by emptiness tests of %s only: a signature whose other issuer subpacket names a different key is taken for a match' % (site(b, bad[0][0]), bad[0][1]))


def s15_4_version_alignment_verify(ctx, P):
    """Every non-forwarding caller of VerifyingKey::verify has check_signature_key_version_alignment as a
    dominating guard (R-sib over the sink sites)."""
    nonfw, _ = sink_functions(ctx)
    ctx.floor(P + ':S15-4:floor', 'verify-side sink sites', len(nonfw), 6)
    for b in nonfw:
        # the key whose version is aligned must be the key that verifies (receiver of the primitive), not e.g. the signee
        recv = set()
        for i, t in b.calls(SINK):
            recv |= set(x for x in b.operand_origins(t['args'][0]) if x.startswith('param:'))
        asites = [i for i, t in b.calls(r'check_signature_key_version_alignment$')
                  if recv & set(x for x in b.operand_origins(t['args'][0]) if x.startswith('param:'))]
        if b.calls(r'check_signature_key_version_alignment$') and not asites:
            ctx.violation('%s:S15-4:align:%s' % (P, b.path), 'R-sib', 'key/signature version alignment is checked for the key that verifies in %s' % b.path.split('::')[-1],
                          function=b.path, missing='check_signature_key_version_alignment is applied to another key than the receiver of VerifyingKey::verify (%s)' % sorted(recv))
            continue
        spec = r'cs:.*check_signature_key_version_alignment#(%s)$' % '|'.join(str(i) for i in asites) if asites else r'call:.*check_signature_key_version_alignment$'
        rdom(ctx, '%s:S15-4:align:%s' % (P, b.path), b, call_blocks(b, SINK), [spec],
             'key/signature version alignment check (of the verifying key) dominates the primitive in %s' % b.path.split('::')[-1], rule='R-sib')
    # the helper has both directional guards
    b = ctx.body(SIG + 'check_signature_key_version_alignment')
    if b is not None:
        oks = ok_exit_blocks(b)
        gs = guard_switches(b, oks, [r'call:.*KeyDetails::version$'])
        gs2 = guard_switches(b, oks, [r'call:.*SignatureConfig::version$'])
        # ensure_eq! compares via PartialEq: require two distinct rejecting switches whose operands mention both versions
        rej = guard_switches(b, oks, [r'call:.*(KeyDetails|SignatureConfig)::version$'])
        ctx.check(P + ':S15-4:helper-two-directions', 'R-dom',
                  'check_signature_key_version_alignment has two rejecting branches (v6 key => v6 sig, v6 sig => v6 key)',
                  len(rej) >= 2 and gs and gs2, function=b.path, guards=[site(b, g) for g, _ in rej])


def s15_4_alignment_predicate(ctx, P):
    """The verify-side helper accepts a (signature version, key version) pair iff both are v6 or neither is (RFC 9580 5.2: a v6 key
    makes v6 signatures only, and a v6 signature is made by a v6 key only) — all 36 pairs evaluated on its CFG."""
    from rules import verpairs
    cands = [p for p in ctx.f.bodies if p.endswith('::check_signature_key_version_alignment')]
    if not cands:
        return
    b = ctx.body(cands[0])
    acc = verpairs.accepted_pairs(b, ok_exit_blocks(b))
    want = {(s_, k) for s_ in verpairs.SV for k in verpairs.KV if (s_ == 'V6') == (k == 'V6')}
    ctx.check(P + ':S15-4:alignment-predicate', 'R-table', 'check_signature_key_version_alignment returns Ok exactly for the pairs in which signature and key are both v6 or both not v6',
              acc == want, function=b.path, accepted=len(acc), missing=None if acc == want else 'wrongly accepted: %s; wrongly refused: %s' % (sorted(acc - want), sorted(want - acc)))


def s15_8_hash_strength_verify(ctx, P):
    """R-sib: every non-forwarding caller of VerifyingKey::verify applies check_signature_hash_strength before the primitive (detached,
    certification, binding and INLINE message verification judge a signature alike)."""
    nonfw, _ = sink_functions(ctx)
    for b in nonfw:
        rdom(ctx, '%s:S15-8:hash-strength:%s' % (P, b.path), b, call_blocks(b, SINK), [r'call:.*check_signature_hash_strength$'],
             'check_signature_hash_strength dominates the primitive in %s' % b.path.split('::')[-1], rule='R-sib')


SIGNERS = [CFG + 'SignatureConfig::sign_certification_third_party', CFG + 'SignatureConfig::sign_subkey_binding',
           CFG + 'SignatureConfig::sign_primary_key_binding', CFG + 'SignatureConfig::sign_key', CFG + 'SignatureHasher::sign']


def s15_5_version_alignment_sign(ctx, P):
    # every caller of SigningKey::sign in the signature layer
    callers = []
    for p, r in ctx.f.bodies.items():
        if not p.startswith('packet::signature::'):
            continue
        b = ctx.wrap(r)
        if b.calls(r'SigningKey::sign$'):
            callers.append(b)
        else:
            ctx.functions.discard(p)
    ctx.floor(P + ':S15-5:floor', 'callers of SigningKey::sign in packet::signature', len(callers), 5)
    for b in callers:
        # the key whose version is compared must be the key that signs (receiver of SigningKey::sign), not e.g. the signee
        recv = set()
        for i, t in b.calls(r'SigningKey::sign$'):
            recv |= set(x for x in b.operand_origins(t['args'][0]) if x.startswith('param:'))
        vsites = [i for i, t in b.calls(r'KeyDetails::version$')
                  if recv & set(x for x in b.operand_origins(t['args'][0]) if x.startswith('param:'))]
        if not vsites:
            ctx.violation('%s:S15-5:align:%s' % (P, b.path), 'R-sib', 'sign side: the version of the signing key itself is compared in %s' % b.path.split('::')[-1],
                          function=b.path, missing='no KeyDetails::version call on the receiver of SigningKey::sign (%s)' % sorted(recv))
            continue
        rdom(ctx, '%s:S15-5:align:%s' % (P, b.path), b, call_blocks(b, r'SigningKey::sign$'),
             [r'call:.*SignatureConfig::version$', r'cs:.*KeyDetails::version#(%s)$' % '|'.join(str(i) for i in vsites)],
             'sign side: (signature version, key version) guard dominates SigningKey::sign in %s' % b.path.split('::')[-1], rule='R-sib', mode='each')
        # ... and the guard accepts exactly the aligned pairs: evaluated concretely for every (signature version, key version)
        from rules import verpairs
        acc = verpairs.accepted_pairs(b, call_blocks(b, r'SigningKey::sign$'))
        want = {('V4', 'V4'), ('V6', 'V6')}
        ctx.check('%s:S15-5:aligned-pairs-only:%s' % (P, b.path), 'R-table', 'sign side: %s reaches the signing primitive exactly for (v4 signature, v4 key) and (v6 signature, v6 key) — all 36 version pairs evaluated on the CFG' % b.path.split('::')[-1],
                  acc == want, function=b.path, table=sorted(acc), missing=None if acc == want else 'also accepted: %s; refused though aligned: %s' % (sorted(acc - want), sorted(want - acc)))


def s02_6_backsig(ctx, P):
    """R-sib over all callers of verify_subkey_binding in composed::signed_key."""
    sibs = []
    for p, r in ctx.f.bodies.items():
        if not p.startswith('composed::signed_key::'):
            continue
        b = ctx.wrap(r)
        if b.calls(r'Signature::verify_subkey_binding$'):
            sibs.append(b)
        else:
            ctx.functions.discard(p)
    ctx.floor(P + ':S02-6:floor', 'callers of verify_subkey_binding in composed::signed_key', len(sibs), 2)
    for b in sibs:
        key = '%s:S02-6:backsig:%s' % (P, b.path)
        V = call_blocks(b, r'Signature::verify_subkey_binding$')
        T = set(ok_exit_blocks(b)) | set(V)
        g1 = [i for i, t in b.switches() if has_origin(b.switch_origins(i), r'call:.*KeyFlags::sign$')]
        desc = 'signing-capable subkeys need a verified embedded primary-key-binding signature in %s' % b.path
        bad = None
        for v in V:
            nxt = b.blocks[v]['t']['t']
            p = b.find_path(nxt, T, removed=frozenset(g1))
            if p is not None:
                bad = ('after verify_subkey_binding an accepting exit / next iteration is reachable without testing KeyFlags::sign', p)
                break
        if bad is None:
            for g in g1:
                t = b.blocks[g]['t']
                true_edge = t['else']
                gs = guard_switches(b, T, [r'call:.*Signature::verify_primary_key_binding$'])
                es = guard_switches(b, T, [r'call:.*Signature::embedded_signature$'])
                p = b.find_path(true_edge, T, removed=frozenset(x for x, _ in gs))
                if p is not None:
                    bad = ('sign-capable branch reaches acceptance without a checked verify_primary_key_binding', p)
                    break
                p = b.find_path(true_edge, T, removed=frozenset(x for x, _ in es))
                if p is not None:
                    bad = ('sign-capable branch does not reject a missing embedded signature', p)
                    break
        if bad is None:
            ctx.ok(key, 'R-sib', desc, function=b.path, guards=[site(b, g) for g in g1])
        else:
            ctx.violation(key, 'R-sib', desc, function=b.path, missing=bad[0], witness=fmt_path(b, bad[1]),
                          site=site(b, V[0]))


def s02_5_onepass(ctx, P):
    # the streaming verifier finalises the hash of a one-pass-announced signature only after OnePassSignature::matches
    cands = [p for p in ctx.f.bodies if p.endswith('::fill_inner') and 'SignatureManyReader' in p]
    fb = ctx.body(cands[0]) if cands else None
    if fb is not None:
        from rules.common import arm_context
        dom = fb.dominators()
        sinks = [i for i, t in fb.calls(r'SignatureConfig::hash_signature_data$') if any(a == 'SignaturePacket' and vs == ['Ops'] for a, vs in arm_context(fb, i, dom))]
        gs = [i for i, t in fb.switches() if has_origin(fb.switch_origins(i), r'call:.*OnePassSignature::matches$')]
        ok, wit = must_pass(fb, sinks, gs)
        none_push = [i for i, t in fb.calls(r'Vec::<.*>::push$') if has_origin(fb.operand_origins(t['args'][1]), r'agg:.*Option::None$')]
        ctx.check(P + ':S02-5:ops-hash-needs-matches', 'R-dom',
                  'for a one-pass-announced signature the final digest is computed only on a branch of OnePassSignature::matches (a mismatch yields hash slot None)',
                  ok and bool(gs) and bool(sinks) and bool(none_push), function=fb.path, guards=[site(fb, g) for g in gs], sinks=[site(fb, x) for x in sinks],
                  witness=fmt_path(fb, wit) if wit else None)
    b = ctx.body('packet::one_pass_signature::OnePassSignature::matches')
    if b is None:
        return
    # `matches` returns true only after comparing typ, hash alg, pub alg (and salt for v6)
    # success exit = the block assigning const true to _0
    trues = [i for (i, k, s) in b.stmts(lambda s: s['d']['l'] == 0 and s['r']['k'] == 'use' and 'k' in s['r']['o'][0] and s['r']['o'][0]['k'].get('v') == 1)]
    if not trues:
        # may be a bool expression: accept any assignment of _0 not constant false
        trues = [i for (i, k, s) in b.stmts(lambda s: s['d']['l'] == 0 and not (s['r']['k'] == 'use' and 'k' in s['r']['o'][0] and s['r']['o'][0]['k'].get('v') == 0))]
    for fld, rxs in [('typ', [r'field:OnePassSignature\.typ$']), ('hash', [r'field:OnePassSignature\.hash_algorithm$']),
                     ('pubalg', [r'field:OnePassSignature\.pub_algorithm$'])]:
        rdom(ctx, '%s:S02-5:matches:%s' % (P, fld), b, trues, rxs,
             'OnePassSignature::matches returns true only after comparing %s with the signature' % fld)
    # version correspondence (RFC 9580 5.4): a v3 one-pass packet announces a v4 signature, a v6 one a v6 signature; every other
    # pairing - in particular a one-pass packet of an unknown version - disagrees with the signature.  Accept cells are read off
    # the nested match on (ops.version_specific, sig.version_specific).
    from rules.common import arm_context, enum_switch_info, edge_variants
    dom = b.dominators()
    can = b.can_reach(set(trues))
    cells = set()
    nsw = 0
    for i, t in b.switches():
        info = enum_switch_info(b, i)
        if not info or not info[0].endswith('SignatureVersionSpecific'):
            continue
        nsw += 1
        ops = [vs for a, vs in arm_context(b, i, dom) if a == 'OpsVersionSpecific']
        opsv = tuple(sorted(min(ops, key=len))) if ops else ('*',)
        for j, _ in b.succ(i):
            if j in can:
                for v in edge_variants(b, i, j) or []:
                    cells.add((opsv, v))
    # paths to `true` that never look at the signature's version at all
    sig_sw = [i for i, t in b.switches() if (enum_switch_info(b, i) or ('',))[0].endswith('SignatureVersionSpecific')]
    ok_all, wit = must_pass(b, trues, sig_sw) if trues else (False, None)
    want = {(('V3',), 'V4'), (('V6',), 'V6')}
    ctx.check(P + ':S02-5:matches:version-pairs', 'R-table', 'OnePassSignature::matches accepts exactly the pairs (OPS v3, signature v4) and (OPS v6, signature v6)',
              cells == want and ok_all and nsw >= 1, function=b.path, table=sorted((list(a), v) for a, v in cells),
              missing=None if (cells == want and ok_all) else 'accepted (one-pass version, signature version) cells are %s%s' % (sorted((list(a), v) for a, v in cells), '' if ok_all else '; and `true` is reachable without looking at the signature version'))


def must_seq(ctx, key, b, seq, desc, rule='R-seq'):
    """`seq` = list of (label, call regex).  Each element's call blocks must lie on every path from entry to the
    last element's call blocks, and element k must lie on every path to element k+1."""
    blocks = []
    for label, rx in seq:
        bl = call_blocks(b, rx)
        if not bl:
            ctx.violation(key, rule, desc + ' — call `%s` not found' % label, function=b.path, missing=label, fail_closed=True)
            return False
        blocks.append(bl)
    for k in range(len(seq) - 1):
        ok, wit = must_pass(b, blocks[k + 1], blocks[k])
        if not ok:
            ctx.violation(key, rule, desc, function=b.path, missing='`%s` can be reached without `%s`' % (seq[k + 1][0], seq[k][0]),
                          witness=fmt_path(b, wit), site=site(b, wit[-1]))
            return False
    ctx.ok(key, rule, desc, function=b.path, sinks=[site(b, x) for x in blocks[-1]], table=[l for l, _ in seq])
    return True


def s02_2_what_is_hashed(ctx, P):
    for path in TYPED_VERIFIERS:
        b = ctx.body(path, '%s:S02-2:seq:%s' % (P, path))
        if b is None:
            continue
        short = path.split('::')[-1]
        must_seq(ctx, '%s:S02-2:seq:%s' % (P, path), b,
                 [('new_hasher', r'HashAlgorithm::new_hasher$'), ('hash_signature_data', r'SignatureConfig::hash_signature_data$'),
                  ('trailer', r'SignatureConfig::trailer$'), ('finalize', r'DynDigest::finalize$'), ('primitive', SINK)],
                 'digest of %s is built new_hasher -> hashed fields -> trailer -> finalize -> primitive on every path' % short)
        # trailer length argument derives from hash_signature_data's result
        for i, t in b.calls(r'SignatureConfig::trailer$'):
            og = b.operand_origins(t['args'][1])
            ctx.check('%s:S02-2:trailer-len:%s' % (P, path), 'origin', 'trailer length derives from the hashed-fields span in %s' % short,
                      has_origin(og, r'call:.*SignatureConfig::hash_signature_data$'), function=b.path, site=site(b, i))
        # v6 salt: the hasher is updated with the salt on the V6 edge before hashing the content
        salt_sw = [i for i, t in b.switches() if has_origin(b.switch_origins(i), r'field:SignatureConfig\.version_specific$')]
        ctx.check('%s:S02-2:salt:%s' % (P, path), 'R-dom', 'v6 salt branch exists and feeds the hasher in %s' % short,
                  bool(salt_sw) and any(has_origin(b.operand_origins(a), r'field:SignatureVersionSpecific::V6\.salt$')
                                        for i, t in b.calls(r'DynDigest::update$') for a in t['args']),
                  function=b.path)
    # hash_signature_data / trailer never read the unhashed area
    for path in (CFG + 'SignatureConfig::hash_signature_data', CFG + 'SignatureConfig::trailer'):
        b = ctx.body(path)
        if b is None:
            continue
        toks = set()
        for i, blk in enumerate(b.blocks):
            for s in blk['s']:
                for pl in places_of(s):
                    toks.update(e for e in pl['pr'] if e.startswith('.'))
        for c in ctx.f.closures_of(path):
            for blk in c['blocks']:
                for s in blk['s']:
                    for pl in places_of(s):
                        toks.update(e for e in pl['pr'] if e.startswith('.'))
        # reading the unhashed area to CHECK it (issuer fingerprint version) is fine; nothing read from it may reach the hasher, the
        # buffer that is hashed or the length that is returned
        leak = None
        if any('unhashed_subpackets' in t for t in toks):
            bodies = [b] + [ctx.wrap(c) for c in ctx.f.closures_of(path)]
            for xb in bodies:
                for i, t in xb.calls(r'DynDigest::update$|Serialize::to_writer$|::extend$|::extend_from_slice$|::push$|Write::write_all$|io::Write::write$|::append$|::insert$|iter::Extend'):
                    if any(has_origin(xb.operand_origins(a), r'field:SignatureConfig\.unhashed_subpackets$|call:.*SignatureConfig::unhashed_subpackets$') for a in t['args']):
                        leak = site(xb, i)
                for i in xb.returns():
                    pass
        ctx.check('%s:S02-2:no-unhashed:%s' % (P, path), 'R-who', '%s feeds nothing from the unhashed subpacket area to the hasher or the hashed buffer' % path.split('::')[-1],
                  leak is None, function=path, site=leak,
                  missing=None if leak is None else 'data read from the unhashed area reaches a hasher / buffer write at %s' % leak)
    b = ctx.body(CFG + 'SignatureConfig::hash_signature_data')
    if b is not None:
        ctx.check(P + ':S02-2:hashed-area-read', 'R-who', 'hash_signature_data reads the hashed subpacket area, type, algorithms',
                  all(any(f in e for blk in b.blocks for s in blk['s'] for pl in places_of(s) for e in pl['pr'])
                      for f in ('SignatureConfig.hashed_subpackets', 'SignatureConfig.typ', 'SignatureConfig.pub_alg', 'SignatureConfig.hash_alg')),
                  function=b.path)


def places_of(s):
    out = [s['d']]
    r = s['r']
    if 'p' in r:
        out.append(r['p'])
    for o in r.get('o', ()):
        if 'l' in o:
            out.append(o)
    return out


def s02_7_delegation(ctx, P):
    b = ctx.body('composed::signature::DetachedSignature::verify')
    if b is not None:
        ok, why = is_pure_forwarder(b, r'Signature::verify$')
        ctx.check(P + ':S02-7:detached', 'R-who', 'DetachedSignature::verify is a pure forwarder to Signature::verify', ok, function=b.path, missing=why)
    b = ctx.body('composed::cleartext::CleartextSignedMessage::verify')
    if b is not None:
        oks = [i for i in ok_exit_blocks(b) if any(s['d']['l'] == 0 and s['r'].get('v') == 'Ok' for s in b.blocks[i]['s'])]
        rdom(ctx, P + ':S02-7:cleartext-verify', b, oks, [r'call:.*Signature::verify$'],
             'CleartextSignedMessage::verify returns Ok only after a successful Signature::verify')
        for i, t in b.calls(r'Signature::verify$'):
            og = b.operand_origins(t['args'][2])
            ctx.check(P + ':S02-7:cleartext-data', 'origin', 'cleartext verification hashes signed_text()',
                      has_origin(og, r'call:.*CleartextSignedMessage::signed_text$'), function=b.path, site=site(b, i))


def conditional_guard(ctx, key, b, sinks, cond_spec, then_specs, desc, rule='R-dom', true_edge='else'):
    """Every path to a sink passes a switch deriving from cond_spec; on that switch's true edge every path to the sink
    passes, for each then_spec, a switch deriving from it that has a rejecting edge."""
    sinks = sorted(set(sinks))
    if not sinks:
        ctx.violation(key, rule, desc + ' — sink not found', function=b.path, fail_closed=True)
        return False
    cs = [i for i, t in b.switches() if has_origin(b.switch_origins(i), cond_spec)]
    ok, wit = must_pass(b, sinks, cs)
    if not ok:
        ctx.violation(key, rule, desc, function=b.path, missing='a path to the sink avoids every branch on %s' % cond_spec,
                      witness=fmt_path(b, wit), site=site(b, wit[-1]))
        return False
    for c in cs:
        # one edge of the condition branch must lead to the sink only through rejecting checks on every then_spec
        # (which edge is the `condition holds` edge depends on how rustc lowered `!a && b`; polarity is not decided)
        succs = [j for j, _ in b.succ(c)]
        best = None
        # the condition branch may itself be the rejecting check (`if let Some(x) = cond { if x != y { bail } }` compiles to
        # nested switches whose inner one derives from both): then there is nothing further to establish for it
        if all(c in [g for g, _ in guard_switches(b, sinks, [spec])] for spec in then_specs):
            continue
        for te in succs:
            fail = None
            # the condition is assumed loop-invariant: while exploring edge te the other edges of c do not exist
            other = frozenset((c, j) for j in succs if j != te)
            for spec in then_specs:
                gs = [g for g, _ in guard_switches(b, sinks, [spec], removed_edges=other)]
                if not gs:
                    fail = ('no rejecting branch deriving from %s exists' % spec, b.find_path(te, set(sinks)))
                    break
                p = b.find_path(te, set(sinks), removed=frozenset(gs), removed_edges=other)
                if p is not None:
                    fail = ('on an edge of the %s branch the sink is reachable without a rejecting check on %s' % (cond_spec, spec), p)
                    break
            if fail is None:
                best = None
                break
            best = fail
        else:
            ctx.violation(key, rule, desc, function=b.path, missing=best[0], witness=fmt_path(b, best[1]) if best[1] else None,
                          site=site(b, c))
            return False
    ctx.ok(key, rule, desc, function=b.path, guards=[site(b, c) for c in cs], sinks=[site(b, s) for s in sinks])
    return True


def salt_fed_at_every_hasher(ctx, P):
    """R-sib over every function that creates a signature hasher: one v6-salt feed per HashAlgorithm::new_hasher call, each
    dominated by the salt-length-vs-algorithm check where the salt comes from the wire."""
    n = 0
    for p, r in sorted(ctx.f.bodies.items()):
        if p.startswith('types::s2k::'):
            continue  # S2K hashing has no signature salt (reviewed: not a signature hasher)
        b = ctx.wrap(r)
        nh = b.calls(r'HashAlgorithm::new_hasher$')
        if not nh:
            ctx.functions.discard(p)
            continue
        n += 1
        salt = [i for i, t in b.calls(r'DynDigest::update$')
                if any(has_origin(b.operand_origins(a), r'field:(SignatureVersionSpecific|OpsVersionSpecific)::V6\.salt$') for a in t['args'][1:])]
        ctx.check('%s:salt-per-hasher:%s' % (P, p), 'R-sib', 'every signature hasher created in %s is fed the v6 salt on the V6 branch (one feed per new_hasher call)' % p.split('::')[-1],
                  len(salt) >= len(nh), function=p, count=len(salt), missing=None if len(salt) >= len(nh) else '%d hashers, %d salt feeds' % (len(nh), len(salt)))
    ctx.floor(P + ':salt-per-hasher:floor', 'functions creating signature hashers', n, 11)


def salt_length_checked_where_hashed(ctx, P):
    """RFC 9580 5.2.3: the salt size of a v6 signature MUST match the value defined for its hash algorithm.  The verify side refuses a
    salt of another size; a signing interface that hashes whatever salt the configuration holds (`SignatureConfig::v6_with_salt` takes
    any) produces a signature that no data-verification interface accepts.  As long as some verifier compares the length, every
    SIGNING function that feeds the v6 salt to a hasher compares `hash_alg.salt_len()` with the salt's length on every way to Ok:
    itself, through a function it calls (`hash_signature_data`), or - when it returns a hasher object - through every `sign*`
    method of that object."""
    from rules.common import direct_cmp_switches
    own = set()
    for p, r in sorted(ctx.f.bodies.items()):
        if '::tests::' in p or r['kind'] == 'Closure':
            continue
        b = ctx.wrap(r)
        sl = b.calls(r'HashAlgorithm::salt_len$')
        if not sl:
            continue
        # the result of salt_len() reaches a comparison (PartialEq::eq / ne of Option<usize>, or a match on it)
        lens = set()
        for i, t in sl:
            lens.add(t['d']['l'])
        cmpc = [i for i, t in b.calls(r'cmp::PartialEq::(eq|ne)$|option::Option::<.*>::(is_some_and|is_none_or)$')
                if any(has_origin(b.operand_origins(a), r'call:.*HashAlgorithm::salt_len$') for a in t['args'])]
        sw = [i for i, t in b.switches() if has_origin(b.switch_origins(i), r'call:.*HashAlgorithm::salt_len$')]
        if (cmpc or sw) and err_exit_blocks(b):
            own.add(p)
    checkers = set(own)
    # one level of callers' callees: a function all of whose Ok exits pass a call to a checker is a checker for its callers too
    n = 0
    feeds = []
    for p, r in sorted(ctx.f.bodies.items()):
        if '::tests::' in p or r['kind'] == 'Closure' or p.startswith('types::s2k::'):
            continue
        b = ctx.wrap(r)
        salt = [i for i, t in b.calls(r'DynDigest::update$|digest::Update::update$|Digest::update$')
                if any(has_origin(b.operand_origins(a), r'field:(SignatureVersionSpecific|OpsVersionSpecific)::V6\.salt$') for a in t['args'][1:])]
        if salt:
            feeds.append((p, b, salt))

    def passes_checker(b):
        oks = ok_exit_blocks(b)
        cb = [i for i, t in b.calls() if (t['f'].get('res') or t['f'].get('fn')) in checkers]
        if b.path in own:
            return True
        if not cb or not oks:
            return False
        return must_pass(b, oks, cb)[0]
    verify_side_checks = [p for p, b, salt in feeds if not p.startswith('packet::signature::config::SignatureConfig::') and passes_checker(b)]
    for p, b, salt in feeds:
        if not p.startswith('packet::signature::config::SignatureConfig::'):
            continue        # a verifier that takes any salt length accepts more, which completeness does not forbid
        n += 1
        ok = passes_checker(b) or not verify_side_checks
        how = 'own comparison' if p in own else 'through a callee'
        if not ok:
            # deferred: the function returns an object whose `sign*` methods run the check
            adts = set(st['r']['v'] if False else (st['r'].get('adt') or '') for _, _, st in b.stmts(lambda st: st['r']['k'] == 'agg' and st['r'].get('ak') == 'adt'))
            for adt in sorted(a for a in adts if a):
                short = adt.split('::')[-1]
                ms = [q for q in ctx.f.bodies if re.search(r'::%s::sign\w*$' % re.escape(short), q) and '::tests::' not in q]
                if ms and all(passes_checker(ctx.wrap(ctx.f.bodies[q])) for q in ms):
                    ok = True
                    how = 'through %s' % ', '.join(m.split('::')[-2] + '::' + m.split('::')[-1] for m in ms)
        ctx.check('%s:S06-9:salt-length-checked:%s' % (P, p), 'R-sib', '%s, which hashes the v6 salt, has the salt length compared with HashAlgorithm::salt_len() on every way to Ok' % p.split('::')[-1],
                  ok, function=p, site=site(b, salt[0]), note=how if ok else None,
                  missing=None if ok else 'the salt is hashed at %s but nothing on the way to Ok compares its length with the size the hash algorithm asks for: the sign and verify sides disagree on what they accept' % site(b, salt[0]))
    ctx.floor(P + ':S06-9:floor', 'signing functions feeding the v6 salt to a hasher', n, 5)


def natural_loop(b, h, dom=None):
    dom = dom or b.dominators()
    back_src = [u for u in b.preds()[h] if h in dom.get(u, ())]
    if not back_src:
        return set()
    return b.can_reach(set(back_src), removed=frozenset([h])) | {h}


def s02_8_every_binding_verified(ctx, P):
    """R-sib over the composite `verify_bindings` / `verify_third_party` functions: every iteration over the stored
    signatures / components passes a verification call whose failure is propagated — no signature is skipped."""
    n = 0
    for p, r in sorted(ctx.f.bodies.items()):
        if r.get('name') not in ('verify_bindings', 'verify_third_party') or not (p.startswith('types::user::') or p.startswith('composed::signed_key::')):
            continue
        b = ctx.wrap(r)
        heads = [(i, t) for i, t in b.calls(r'Iterator::next$') if re.search(r'Signature|SignedUser|SignedUserAttribute|Signed(Public|Secret)SubKey', t['f'].get('selfty', ''))]
        if not heads:
            continue
        dom = b.dominators()
        oks = ok_exit_blocks(b)
        for h, t in heads:
            n += 1
            item = re.sub(r".*<'?_?,? ?", '', t['f'].get('selfty', '')).rstrip('>').split('::')[-1]
            loop = natural_loop(b, h, dom)
            gs = [g for g, _ in guard_switches(b, oks, [r'call:.*::verify_[a-z_]+$|call:.*::verify$|call:.*::verify_bindings$'])]
            some = b.blocks[h]['t']['t']   # block switching on the Option
            bad = None
            for j, _ in b.succ(some):
                if j in loop:
                    p_ = b.find_path(j, {h}, removed=frozenset(gs))
                    if p_ is not None:
                        bad = p_
            ctx.check('%s:S02-8:every-item-verified:%s:%s' % (P, p, item), 'R-sib',
                      'every %s iterated by %s is verified with its error propagated (no skip / continue path around the verification)' % (item, p.split('::')[-2] + '::' + p.split('::')[-1]),
                      bad is None and bool(gs), function=p, site=site(b, h), witness=fmt_path(b, bad) if bad else None,
                      missing='an iteration can complete without a checked verification' if bad else None)
    ctx.floor(P + ':S02-8:floor', 'loops over stored signatures/components in verify_bindings-like functions', n, 8)
    # ... and the iteration is over ALL of them: no element-dropping adaptor (filter / skip / take ..) sits between the stored list and
    # the loop - a `verify_third_party` that only looks at the signatures naming the presented key returns Ok for a key that made none
    m = 0
    for p, r in sorted(ctx.f.bodies.items()):
        if r.get('name') not in ('verify_bindings', 'verify_third_party') or not (p.startswith('types::user::') or p.startswith('composed::signed_key::')):
            continue
        b = ctx.wrap(r)
        m += 1
        drop = [i for i, t in b.calls(r'Iterator::(filter|filter_map|skip|take|skip_while|take_while|step_by|nth|last|find|rev)$')
                if t['args'] and has_origin(b.operand_origins(t['args'][0]), r'field:\w+\.(signatures|revocation_signatures|users|user_attributes|public_subkeys|secret_subkeys|direct_signatures)$')
                and t['f']['fn'].split('::')[-1] != 'rev']
        ctx.check('%s:S02-8:all-items-iterated:%s' % (P, p), 'R-sib', '%s iterates its stored signatures / components without dropping any' % '::'.join(p.split('::')[-2:]),
                  not drop, function=p, site=site(b, drop[0]) if drop else None,
                  missing=None if not drop else 'an element-dropping iterator adaptor is applied to the stored list at %s: what it drops is never verified (an empty selection verifies trivially)' % site(b, drop[0]))
    ctx.floor(P + ':S02-8:all-items:floor', 'verify_bindings-like functions', m, 8)


def text_mode_selection(ctx, P):
    """R-sib over every site that decides whether document data is CRLF-normalised before hashing: the decision is a test of
    the signature type against SignatureType::Text, and LineBreak::Crlf is the target form (sign and verify side alike)."""
    sites = []
    for p, r in sorted(ctx.f.bodies.items()):
        if '::tests::' in p or p.startswith(('normalize_lines::', 'util::')):
            continue
        b = ctx.wrap(r)
        cs = b.calls(r'NormalizingHasher::new$|NormalizedReader::<.*>::new$')
        if not cs:
            ctx.functions.discard(p)
            continue
        for i, t in cs:
            nm = t['f']['fn'].split('::')[-2]
            if nm == 'NormalizingHasher':
                og = b.operand_origins(t['args'][1])
                if r.get('kind') == 'Closure' and r.get('parent') in ctx.f.bodies:
                    # the flag is captured: take the origins of the captured operands at the closure's creation site
                    pb = ctx.wrap(ctx.f.bodies[r['parent']])
                    for blk in pb.blocks:
                        for s2 in blk['s']:
                            if s2['r']['k'] == 'agg' and s2['r'].get('ak') == 'closure' and s2['r'].get('adt') in (p, r['path']):
                                for o2 in s2['r']['o']:
                                    og = og | pb.operand_origins(o2)
                good = has_origin(og, r'agg:.*SignatureType::Text$') and has_origin(og, r'field:SignatureConfig\.typ$|call:.*::typ$')
            else:
                # the reader variant is constructed under a branch on typ == Text and targets CRLF
                gs = [g for g, tt in b.switches() if has_origin(b.switch_origins(g), r'agg:.*SignatureType::Text$|field:.*typ$|call:.*::typ$')]
                ok, _ = must_pass(b, [i], gs)
                good = ok and bool(gs) and has_origin(b.operand_origins(t['args'][1]), r'agg:line_writer::LineBreak::Crlf$')
            sites.append((p, nm, good))
            ctx.check('%s:text-mode:%s:%s' % (P, nm, p), 'R-sib', 'normalisation of signed document data in %s is selected by the signature type being Text' % p.split('::')[-1], good,
                      function=p, site=site(b, i))
    ctx.floor(P + ':text-mode:floor', 'sites selecting text canonicalisation for signatures', len(sites), 3)


def path_balance(b, head, plus, minus, cap=4):
    """Per-iteration balance of two call-site sets inside the natural loop of `head`: the set of (#plus - #minus) values over all
    paths from the loop head back to it.  Returns (set of differences at the back edges, one offending back-edge source or None)."""
    dom = b.dominators()
    loop = natural_loop(b, head, dom)
    if not loop:
        return None, None
    state = {}
    work = []
    for j, _ in b.succ(head):
        if j in loop and j != head:
            state.setdefault(j, set()).add(0)
            work.append(j)
    at_head = {}
    while work:
        i = work.pop()
        d = 1 if i in plus else (-1 if i in minus else 0)
        out = set(max(-cap, min(cap, x + d)) for x in state[i])
        for j, _ in b.succ(i):
            if j == head:
                at_head.setdefault(i, set()).update(out)
                continue
            if j not in loop:
                continue
            cur = state.setdefault(j, set())
            if not out <= cur:
                cur |= out
                work.append(j)
    diffs = set()
    bad = None
    for u, s in sorted(at_head.items()):
        diffs |= s
        if s != {0} and bad is None:
            bad = u
    return diffs, bad


def s02_9_parallel_slots(ctx, P):
    """The streaming verifier keeps the finished digests and the signature packets in two vectors and the verification entry point
    pairs `hash(index)` with `signature(index)`.  Necessary for C02: the two vectors stay index-aligned, i.e. on every iteration of
    the loop that fills them the number of pushes onto each is the same (otherwise digest k is checked against the value of
    signature j != k and signature j — whose own hashed area was never hashed — is returned as verified)."""
    v = ctx.body('composed::message::types::Message::<\'a>::verify_nested_explicit') or None
    cands = [p for p in ctx.f.bodies if p.endswith('::fill_inner') and 'SignatureManyReader' in p]
    fb = ctx.body(cands[0]) if cands else None
    if v is None or fb is None:
        return
    # the instance: both accessors are called with the caller's index
    hs = [i for i, t in v.calls(r'SignatureManyReader::<.*>::hash$|SignatureManyReader::hash$') if has_origin(v.operand_origins(t['args'][1]), r'param:2$')]
    ss = [i for i, t in v.calls(r'SignatureManyReader::<.*>::signature$|SignatureManyReader::signature$') if has_origin(v.operand_origins(t['args'][1]), r'param:2$')]
    ctx.check(P + ':S02-9:slot-pairing-instance', 'R-table', 'verify_nested_explicit pairs reader.hash(index) with reader.signature(index) (same caller index)',
              bool(hs) and bool(ss), function=v.path, sites=[site(v, x) for x in hs + ss])
    plus = set(i for i, t in fb.calls(r'Vec::<T, A>::push$') if re.search(r'Vec::<std::option::Option<std::boxed::Box<\[u8\]>>>::push$', t['f'].get('full', '')))
    minus = set(i for i, t in fb.calls(r'Vec::<T, A>::push$') if re.search(r'Vec::<[\w:]*FullSignaturePacket>::push$', t['f'].get('full', '')))
    heads = [i for i, t in fb.calls(r'Iterator::next$') if re.search(r'Zip<.*SignaturePacket', t['f'].get('selfty', '') or '')]
    if not (plus and minus and heads):
        ctx.violation(P + ':S02-9:slots-pushed-in-pairs', 'R-pair', 'digest and signature slots are pushed in pairs', function=fb.path,
                      missing='anchor: pushes onto the digest / signature vectors or the zip loop not found (%d/%d/%d)' % (len(plus), len(minus), len(heads)))
        return
    diffs, bad = path_balance(fb, heads[0], plus, minus)
    ctx.check(P + ':S02-9:slots-pushed-in-pairs', 'R-pair',
              'every iteration of the slot-filling loop of the streaming verifier pushes exactly as many digest slots as signature slots (hash(i) and signature(i) stay aligned)',
              diffs == {0}, function=fb.path, digest_pushes=[site(fb, x) for x in sorted(plus)], signature_pushes=[site(fb, x) for x in sorted(minus)],
              differences=sorted(diffs or []), missing=None if diffs == {0} else 'an iteration ending at %s pushes a digest slot without a signature slot (or vice versa)' % site(fb, bad))
    # every one-pass slot consumes exactly one trailing signature: pops balance the Ops arms
    pops = set(i for i, t in fb.calls(r'Vec::<T, A>::pop$') if 'Signature>::pop' in t['f'].get('full', ''))
    from rules.common import arm_context
    dom = fb.dominators()
    ops_sig_push = set(i for i in minus if any(a == 'SignaturePacket' and vs == ['Ops'] for a, vs in arm_context(fb, i, dom)))
    ok, wit = must_pass(fb, sorted(ops_sig_push), sorted(pops)) if ops_sig_push and pops else (False, None)
    ctx.check(P + ':S02-9:ops-slot-pops-one-signature', 'R-dom', 'the signature stored in a one-pass slot is the one popped from the trailing signatures for that slot',
              ok, function=fb.path, sites=[site(fb, x) for x in sorted(pops)], witness=fmt_path(fb, wit) if wit else None)


def s02_10_result_slot_same_iteration(ctx, P):
    """Message::verify_nested reports one result per key.  Necessary for C02 (another key must not be credited): a slot is set to
    Valid only on the Ok edge of a verify_nested_explicit call made in the same iteration over (key, slot) pairs — no path from the
    pair iterator's `next` to the Valid store avoids that edge (which is how a result carried over from an earlier key would arrive)."""
    from rules.common import edge_variants
    b = ctx.body("composed::message::types::Message::<'a>::verify_nested")
    if b is None:
        return
    heads = [i for i, t in b.calls(r'Iterator::next$') if re.search(r'VerifyingKey.*VerificationResult', t['f'].get('selfty', '') or '')]
    valids = sorted(set(i for (i, k, s) in b.constructs(r'VerificationResult$', 'Valid')))
    ok_edges = set()
    for i, t in b.switches():
        if not has_origin(b.switch_origins(i), r'call:.*verify_nested_explicit$'):
            continue
        for j, _ in b.succ(i):
            if edge_variants(b, i, j) == ['Ok']:
                ok_edges.add((i, j))
    key = P + ':S02-10:valid-slot-from-same-iteration'
    desc = 'Message::verify_nested marks a key\'s slot Valid only on the Ok edge of verify_nested_explicit evaluated for that key in the same iteration'
    if not (heads and valids and ok_edges):
        ctx.violation(key, 'R-dom', desc, function=b.path, missing='anchor: pair iterator / Valid store / Ok edge not found (%d/%d/%d)' % (len(heads), len(valids), len(ok_edges)))
        return
    bad = None
    for h in heads:
        for j, _ in b.succ(h):
            p = b.find_path(j, set(valids), removed=frozenset([h]), removed_edges=frozenset(ok_edges))
            if p is not None:
                bad = p
    ctx.check(key, 'R-dom', desc, bad is None, function=b.path, sites=[site(b, v) for v in valids], guards=[site(b, i) for i, _ in sorted(ok_edges)],
              witness=fmt_path(b, bad) if bad else None, missing='a (key, slot) iteration can store Valid without its own successful verification' if bad else None)


def s02_11_every_key_tries_every_signature(ctx, P):
    """Message::verify_nested answers `did this key sign?` for each key.  Necessary (C06: every signer the builder signed for
    verifies; C13: the answer does not depend on the position of the key): the verification call sits inside BOTH a loop over all
    signature indices 0..num_signatures and the loop over the (key, slot) pairs — the index does not come from the key's position."""
    b = ctx.body("composed::message::types::Message::<'a>::verify_nested")
    if b is None:
        return
    dom = b.dominators()
    vs = [(i, t) for i, t in b.calls(r'verify_nested_explicit$')]
    rng = [i for i, t in b.calls(r'Iterator::next$') if re.search(r'^std::ops::Range<usize>$', t['f'].get('selfty', '') or '')]
    pair = [i for i, t in b.calls(r'Iterator::next$') if re.search(r'VerifyingKey.*VerificationResult', t['f'].get('selfty', '') or '')]
    ok = bool(vs) and bool(rng) and bool(pair)
    why = None
    if ok:
        lr = set().union(*[natural_loop(b, h, dom) for h in rng])
        lp = set().union(*[natural_loop(b, h, dom) for h in pair])
        for i, t in vs:
            og = b.operand_origins(t['args'][1])
            if i not in lr or i not in lp:
                ok, why = False, 'the verification call at %s is not inside both loops' % site(b, i)
            elif not has_origin(og, r'call:.*SignatureManyReader.*::num_signatures$') or has_origin(og, r'call:std::iter::Iterator::enumerate$'):
                ok, why = False, 'the signature index at %s does not range over 0..num_signatures independently of the key position' % site(b, i)
    else:
        why = 'anchor: verification call / loop over signature indices / loop over (key, slot) pairs not found (%d/%d/%d)' % (len(vs), len(rng), len(pair))
    ctx.check(P + ':S02-11:every-key-tries-every-signature', 'R-sib', 'Message::verify_nested tries every signature index for every key (nested loops; the index is not the key position)',
              ok, function=b.path, sites=[site(b, i) for i, _ in vs], missing=why)


def hash_dispatch_tables_agree(ctx, P):
    """Sign and verify pick the digest TYPE (and with it the DigestInfo prefix of PKCS#1 v1.5) in separate `match hash { .. }` tables.
    Within one crypto module, every function that dispatches on HashAlgorithm to a helper generic over the digest maps each variant
    to the same digest type (resolved generic argument of the call in that arm) as its siblings do."""
    from rules.common import arm_context
    tables = {}
    for p, r in sorted(ctx.f.bodies.items()):
        if '::tests::' in p or 'crypto::' not in p or r.get('derived'):
            continue
        b = ctx.wrap(r)
        dom = None
        tab = {}
        for i, t in b.calls():
            full = t['f'].get('full') or ''
            m = re.match(r'([\w:]+)::<(.*)>$', full)
            if not m or not re.search(r'Core|sha1_checked::Sha1|Digest', m.group(2)) or not m.group(1).startswith('crypto::'):
                continue
            dom = dom or b.dominators()
            arms = [vs for a, vs in arm_context(b, i, dom) if a == 'HashAlgorithm']
            if not arms or len(min(arms, key=len)) != 1:
                continue
            tab[min(arms, key=len)[0]] = m.group(2)
        if len(tab) >= 3:
            mod = re.sub(r'^<', '', p).split(' as ')[0].rsplit('::', 2)[0] if p.startswith('<') else p.rsplit('::', 1)[0]
            mod = re.search(r'crypto::\w+', p).group(0)
            tables.setdefault(mod, {})[p] = tab
    n = 0
    for mod, fs in sorted(tables.items()):
        if len(fs) < 2:
            continue
        names = sorted(fs)
        ref = fs[names[0]]
        for q in names[1:]:
            n += 1
            diff = {v: (ref[v][:60], fs[q][v][:60]) for v in ref if v in fs[q] and ref[v] != fs[q][v]}
            ctx.check('%s:S06-10:hash-dispatch-agrees:%s' % (P, q), 'R-sib', '%s and %s map every HashAlgorithm variant to the same digest type' % (names[0].split('::')[-1], q.split('::')[-1]),
                      not diff, function=q, table={v: fs[q][v][-40:] for v in sorted(fs[q])},
                      missing=None if not diff else 'digest type per variant differs (%s vs %s): %s' % (names[0].split('::')[-1], q.split('::')[-1], diff))
    ctx.floor(P + ':S06-10:floor', 'sibling hash dispatch tables', n, 1)


def onepass_match_depends_on_header_fields_only(ctx, P):
    """A one-pass header announces type, hash algorithm, public-key algorithm, (v6) salt and the issuer of the signature that follows.
    `OnePassSignature::matches` decides whether the trailing signature is the announced one; a signer is free to put whatever
    subpackets it likes into that signature (an IssuerFingerprint subpacket is optional).  If the match looks INTO the subpacket areas,
    a signature that the library's own builder makes with a caller-chosen subpacket list is refused by the library's own reader.  No
    rejecting branch of `matches` derives from the subpacket areas or from the accessors that search them."""
    b = ctx.body('packet::one_pass_signature::OnePassSignature::matches')
    if b is None:
        ctx.missing(P + ':S06-11:onepass-match-no-subpackets', 'OnePassSignature::matches not found')
        return
    falses = [i for i, k, st in b.stmts(lambda st: st['d']['l'] == 0 and not st['d']['pr'] and st['r']['k'] == 'use' and 'k' in st['r']['o'][0] and st['r']['o'][0]['k'].get('v') in (False, 0))]
    bad = []
    SUB = r'field:SignatureConfig\.(hashed|unhashed)_subpackets$|call:.*SignatureConfig::(issuer\w*|hashed_subpackets|unhashed_subpackets|created|\w*subpacket\w*)$'
    for g, _ in guard_switches(b, [x for x in b.returns()], []):
        og = b.switch_origins(g)
        if has_origin(og, SUB):
            bad.append(g)
    # closures of matches (`.any(|fp| ..)`) are part of it
    for c in ctx.f.closures_of(b.path):
        cb = ctx.wrap(c)
        pass
    calls_sub = [i for i, t in b.calls(r'SignatureConfig::(issuer\w*|hashed_subpackets|unhashed_subpackets)$')]
    ctx.check(P + ':S06-11:onepass-match-no-subpackets', 'R-who', 'OnePassSignature::matches compares header fields with signature fields only, never with the (optional) contents of the subpacket areas',
              not bad and not calls_sub and bool(falses), function=b.path, site=site(b, (bad or calls_sub)[0]) if (bad or calls_sub) else None,
              missing=None if not (bad or calls_sub) else 'the match reads the subpacket areas at %s: a signature without that optional subpacket (caller-defined subpacket list) is refused by the inline reader' % site(b, (bad or calls_sub)[0]))
