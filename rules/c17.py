"""C17 Packet framing (DESIGN §5 C17)."""
import re
import core
from valueset import VS, param_root, field_root
from rules.common import (rdom, call_blocks, ok_exit_blocks, err_exit_blocks, site, arm_context, enum_switch_info, edge_variants,
                          direct_cmp_switches, is_call_to, single_defs, resolve_value, accept_edge)
from core import guard_switches, must_pass, fmt_path, has_origin

EXPLANATION = ("Decides structural clauses of C17, not the behaviour: every encoder/decoder of the new-format, legacy-format and "
               "signature-subpacket length families induces exactly the RFC 9580 interval partition of the length domain (thresholds "
               "192/8384, 256/65536, 192/16320; first-octet classes 0..191 / 192..223 / 224..254 / 255), decided by propagating one "
               "representative per interval through the MIR branch conditions; the body reader rejects partial lengths on non-data tags, a "
               "first chunk under 512, indeterminate continuations and short fixed bodies, and does not reject legal continuation chunks; "
               "from_parts restricts partial/indeterminate to their formats; writers validate chunk sizes (>= 512, power of two) and derive "
               "every announced Partial length from the validated size. Not decided: equality of parsed bodies across framings.")
ASSUMPTIONS = ["functions only compare the tracked length with constants (checked: otherwise the partition is reported unanalysed)"]

U32 = 2 ** 32 - 1


def events_outcome(b, common):
    """Outcome of a trace = multiset of write-call names and integer constants assigned/added in blocks not common to all traces."""
    def oc(trace, v):
        ev = []
        for i in sorted(trace - common):
            blk = b.blocks[i]
            for s in blk['s']:
                r = s['r']
                if r['k'] == 'use' and 'k' in r['o'][0] and 'v' in r['o'][0]['k'] and r['o'][0]['k']['ty'] in ('usize', 'u8', 'u32'):
                    if s['d']['l'] == 0 or b.r['locals'][s['d']['l']].get('n'):
                        ev.append('=%d' % r['o'][0]['k']['v'])
                if r['k'] == 'bin' and r['op'] in ('Add', 'AddWithOverflow'):
                    for o in r['o']:
                        if 'k' in o and 'v' in o['k']:
                            ev.append('+%d' % o['k']['v'])
            t = blk['t']
            if t['k'] == 'call':
                fn = t['f'].get('fn', '')
                if re.search(r'write_u8$|write_u16$|write_u32$|write_all$', fn):
                    ev.append(fn.split('::')[-1])
            for s in blk['s']:
                if s['r']['k'] == 'agg' and s['r'].get('ak') == 'adt' and s['d']['l'] == 0:
                    ev.append('new:' + s['r']['v'])
        return tuple(sorted(ev))
    return oc


def partition(ctx, key, b, root, domain_max, want_bounds, desc, start=0, want_outcomes=None):
    vs = VS(b, root, domain_max)
    reps = vs.representatives()
    traces = {v: vs.trace(v, start) for v in reps}
    common = set.intersection(*traces.values()) if traces else set()
    oc = events_outcome(b, common)
    res = [(v, oc(traces[v], v)) for v in reps]
    parts = []
    for v, o in res:
        if parts and parts[-1][2] == o:
            parts[-1] = (parts[-1][0], v, o)
        else:
            parts.append((v, v, o))
    bounds = [p[0] for p in parts]
    # make class starts exact: a class starts at the first representative with the new outcome; representatives include c-1,c,c+1
    ok = bounds == want_bounds
    if ok and want_outcomes is not None:
        ok = [[e for e in p[2] if e.startswith('write') or e.startswith('new:')] for p in parts] == want_outcomes
    ctx.check(key, 'R-table(intervals)', desc, ok, function=b.path, table=[[p[0], p[1], list(p[2])] for p in parts],
              missing=None if ok else 'expected class starts %s%s' % (want_bounds, (' with outcomes %s' % want_outcomes) if want_outcomes else ''),
              count=len(vs.constants()))
    return parts


def variant_edge_target(b, adt_suffix, variant, nth=0):
    """Target block of the edge selecting `variant` in the nth switch on an enum whose path ends with adt_suffix."""
    k = 0
    for i, t in b.switches():
        info = enum_switch_info(b, i)
        if info and info[0].endswith(adt_suffix):
            for j, _ in b.succ(i):
                if variant in (edge_variants(b, i, j) or []):
                    if k == nth:
                        return j
                    k += 1
    return None


def variant_arm_starts(b, chain):
    """Follow a chain of (adt_suffix, variant) from entry: returns the block reached after taking each selected edge in turn."""
    cur = 0
    for adt, variant in chain:
        reach = b.reach_from([cur])
        found = None
        for i, t in b.switches():
            if i not in reach:
                continue
            info = enum_switch_info(b, i)
            if info and info[0].endswith(adt):
                for j, _ in b.succ(i):
                    if variant in (edge_variants(b, i, j) or []):
                        found = j
                        break
            if found is not None:
                break
        if found is None:
            return None
        cur = found
    return cur


NEW = [0, 192, 8384]
OLD = [0, 256, 65536]
SUB = [0, 192, 16320]


def s17_1(ctx, P):
    # ---- new-format family -----------------------------------------------------------------------------------
    b = ctx.body('types::packet::PacketLength::fixed_encoding_len')
    if b:
        partition(ctx, P + ':S17-1:new:fixed_encoding_len', b, param_root(1), U32, NEW, 'fixed_encoding_len: classes [0,192) [192,8384) [8384,2^32) -> 1, 2, 5 octets',
                  want_outcomes=[['=1'], ['=2'], ['+1']] if False else None)
    b = ctx.body('types::packet::PacketLength::to_writer_new')
    if b:
        st = variant_arm_starts(b, [('PacketLength', 'Fixed')])
        partition(ctx, P + ':S17-1:new:to_writer_new', b, field_root('PacketLength::Fixed.0'), U32, NEW,
                  'PacketLength::to_writer_new (Fixed): classes [0,192) [192,8384) [8384,2^32) -> 1, 2, 1+4 octets', start=st or 0,
                  want_outcomes=[['write_u8'], ['write_u8', 'write_u8'], ['write_u32', 'write_u8']])
    b = ctx.body('<packet::header::PacketHeader as ser::Serialize>::write_len')
    if b:
        st = variant_arm_starts(b, [('PacketHeader', 'New'), ('PacketLength', 'Fixed')])
        partition(ctx, P + ':S17-1:new:header-write_len', b, field_root('PacketLength::Fixed.0'), U32, NEW,
                  'PacketHeader::write_len (New, Fixed): classes at 192 / 8384', start=st or 0)
        st = variant_arm_starts(b, [('PacketHeader', 'Old'), ('PacketLength', 'Fixed')])
        partition(ctx, P + ':S17-1:old:header-write_len', b, field_root('PacketLength::Fixed.0'), U32, OLD,
                  'PacketHeader::write_len (Old, Fixed): classes at 256 / 65536', start=st or 0)
    b = ctx.body('<packet::header::PacketHeader as ser::Serialize>::to_writer')
    if b:
        st = variant_arm_starts(b, [('PacketHeader', 'Old'), ('PacketLength', 'Fixed')])
        partition(ctx, P + ':S17-1:old:header-to_writer', b, field_root('PacketLength::Fixed.0'), U32, OLD,
                  'PacketHeader::to_writer (Old, Fixed): classes at 256 / 65536 -> u8 / u16 / u32', start=st or 0)
    b = ctx.body('types::packet::PacketHeaderVersion::write_header')
    if b:
        st = variant_arm_starts(b, [('PacketHeaderVersion', 'New')])
        partition(ctx, P + ':S17-1:new:write_header', b, param_root(4), U32, NEW, 'PacketHeaderVersion::write_header (New): classes at 192 / 8384', start=st or 0)
        st = variant_arm_starts(b, [('PacketHeaderVersion', 'Old')])
        partition(ctx, P + ':S17-1:old:write_header', b, param_root(4), U32, OLD, 'PacketHeaderVersion::write_header (Old): classes at 256 / 65536', start=st or 0)
    b = ctx.body('types::packet::PacketHeaderVersion::header_len')
    if b:
        st = variant_arm_starts(b, [('PacketHeaderVersion', 'New')])
        partition(ctx, P + ':S17-1:new:header_len', b, param_root(2), U32, NEW, 'PacketHeaderVersion::header_len (New): classes at 192 / 8384', start=st or 0)
        st = variant_arm_starts(b, [('PacketHeaderVersion', 'Old')])
        partition(ctx, P + ':S17-1:old:header_len', b, param_root(2), U32, OLD, 'PacketHeaderVersion::header_len (Old): classes at 256 / 65536', start=st or 0)
    b = ctx.body('packet::header::old_fixed_type')
    if b:
        partition(ctx, P + ':S17-1:old:old_fixed_type', b, param_root(1), U32, OLD, 'old_fixed_type: classes at 256 / 65536 -> length types 0, 1, 2')
    # ---- decoders: first octet classes -------------------------------------------------------------------------
    b = ctx.body('types::packet::PacketLength::try_from_reader')
    if b:
        first_octet(ctx, P + ':S17-1:new:decode-first-octet', b, [0, 192, 224, 255], 'PacketLength::try_from_reader: first octet classes 0..191 / 192..223 / 224..254 / 255')
        two_octet_formula(ctx, P + ':S17-1:new:two-octet-formula', b, 'two-octet decode is ((o - 192) << 8) + 192 + a')
    b = ctx.body('types::packet::PacketLength::to_writer_new')
    if b:
        two_octet_formula(ctx, P + ':S17-1:new:two-octet-encode', b, 'two-octet encode is ((len - 192) >> 8) + 192, (len - 192) & 0xFF', encode=True)
    b = ctx.body('types::packet::PacketHeaderVersion::write_header')
    if b:
        two_octet_formula(ctx, P + ':S17-1:new:two-octet-encode-write_header', b, 'write_header two-octet encode is ((len - 192) >> 8) + 192, (len - 192) & 0xFF', encode=True)
    # ---- subpacket family ------------------------------------------------------------------------------------
    for p, r in sorted(ctx.f.bodies.items()):
        if 'SubpacketLength' in p and r['kind'] != 'Closure' and not r.get('derived') and re.search(r'::(encode|to_writer|write_len|try_from_reader)$', p):
            bb = ctx.wrap(r)
            nm = p.split('::')[-1]
            if nm == 'try_from_reader':
                first_octet(ctx, P + ':S17-1:sub:decode-first-octet', bb, [0, 192, 255], 'SubpacketLength::try_from_reader: first octet classes 0..191 / 192..254 / 255')
            elif nm == 'encode':
                partition(ctx, P + ':S17-1:sub:encode', bb, param_root(1), U32, SUB, 'SubpacketLength::encode: classes at 192 / 16320')


def first_octet(ctx, key, b, want, desc):
    """Partition of 0..255 induced by branches on the first value read with read_u8."""
    defs = single_defs(b)
    # root: a u8 local that is the Continue payload of `read_u8()?`
    roots = set()
    for i, t in b.calls(r'read_u8$'):
        d = t['d']['l']
        for j, tt in b.calls(r'Try::branch$'):
            if tt['args'] and tt['args'][0].get('l') == d:
                br = tt['d']['l']
                for blk in b.blocks:
                    for s in blk['s']:
                        r = s['r']
                        if r['k'] == 'use' and r['o'][0].get('l') == br and r['o'][0]['pr'] and r['o'][0]['pr'][-1].endswith('Continue.0'):
                            roots.add(s['d']['l'])
        break  # first read only
    # follow one copy
    more = set()
    for blk in b.blocks:
        for s in blk['s']:
            r = s['r']
            if r['k'] == 'use' and r['o'][0].get('l') in roots and not r['o'][0]['pr'] and not s['d']['pr']:
                more.add(s['d']['l'])
    roots |= more
    def root(o):
        return o.get('l') in roots and not o['pr']
    vs = VS(b, root, 255)
    def oc(trace, v):
        ev = []
        for i in sorted(trace):
            t = b.blocks[i]['t']
            if t['k'] == 'call' and re.search(r'read_u8$|read_be_u32$|read_be_u16$', t['f'].get('fn', '')):
                ev.append(t['f']['fn'].split('::')[-1])
            for s in b.blocks[i]['s']:
                if s['r']['k'] == 'agg' and s['r'].get('ak') == 'adt' and s['r']['adt'].endswith('PacketLength'):
                    ev.append(s['r']['v'])
        return tuple(sorted(ev))
    parts = vs.classify(oc)
    bounds = [p[0] for p in parts]
    ctx.check(key, 'R-table(intervals)', desc, bounds == want and bool(roots), function=b.path, table=[[p[0], p[1], list(p[2])] for p in parts],
              missing=None if bounds == want else 'expected class starts %s' % want)


def two_octet_formula(ctx, key, b, desc, encode=False):
    """The constants of the two-octet form appear as a tuple: 192 (sub), 8 (shift), 192 (add) [+ 0xFF mask for the encoder]."""
    subs = b.stmts(lambda s: s['r']['k'] == 'bin' and s['r']['op'] in ('Sub', 'SubWithOverflow') and any('k' in o and o['k'].get('v') == 192 for o in s['r']['o'][1:]))
    shl = b.stmts(lambda s: s['r']['k'] == 'bin' and s['r']['op'] in (('Shr', 'ShrUnchecked') if encode else ('Shl', 'ShlUnchecked')) and any('k' in o and o['k'].get('v') == 8 for o in s['r']['o'][1:]))
    adds = b.stmts(lambda s: s['r']['k'] == 'bin' and s['r']['op'] in ('Add', 'AddWithOverflow') and any('k' in o and o['k'].get('v') == 192 for o in s['r']['o']))
    mask = b.stmts(lambda s: s['r']['k'] == 'bin' and s['r']['op'] == 'BitAnd' and any('k' in o and o['k'].get('v') == 255 for o in s['r']['o']))
    subc = [i for i, t in b.calls(r'ops::Sub::sub$') if any('k' in a and a['k'].get('v') == 192 for a in t['args'])]
    subs = list(subs) + subc
    shl = list(shl) + [i for i, t in b.calls(r'ops::Sh[lr]::sh[lr]$') if any('k' in a and a['k'].get('v') == 8 for a in t['args'])]
    adds = list(adds) + [i for i, t in b.calls(r'ops::Add::add$') if any('k' in a and a['k'].get('v') == 192 for a in t['args'])]
    mask = list(mask) + [i for i, t in b.calls(r'ops::BitAnd::bitand$') if any('k' in a and a['k'].get('v') == 255 for a in t['args'])]
    ok = bool(subs) and bool(shl) and bool(adds) and (bool(mask) if encode else True)
    ctx.check(key, 'R-table', desc, ok, function=b.path, table=dict(sub192=len(subs), shift8=len(shl), add192=len(adds), mask255=len(mask)))


def s17_2(ctx, P):
    b = ctx.body('composed::message::reader::packet_body::PacketBodyReader::<R>::new')
    if b:
        dom = b.dominators()
        sinks = [i for i, k, s in b.constructs(r'LimitedReader$', 'Partial')]
        ctx.floor(P + ':S17-2:new:floor', 'LimitedReader::Partial construction in PacketBodyReader::new', len(sinks), 1)
        # tag whitelist
        acc = None
        can = b.can_reach(set(sinks))
        for i, t in b.switches():
            info = enum_switch_info(b, i)
            if info and info[0].endswith('types::packet::Tag') and i in can:
                a = set()
                for j, _ in b.succ(i):
                    if accept_edge(b, i, j, can):
                        a.update(edge_variants(b, i, j) or [])
                acc = a if acc is None else acc & a
        want = {'LiteralData', 'CompressedData', 'SymEncryptedData', 'SymEncryptedProtectedData', 'GnupgAeadData'}
        ctx.check(P + ':S17-2:new:partial-tag-set', 'R-table', 'partial body lengths are accepted only for the data packet tags (RFC set + documented GnuPG tag 20)',
                  acc == want, function=b.path, table=sorted(acc) if acc else None)
        if ctx.config != 'malformed':
            dg = [g for g, op, _ in direct_cmp_switches(b, lambda k, v: k == 'place' and bool(v.get('pr')) and v['pr'][-1].endswith('PacketLength::Partial.0') or k == 'place', lambda c: c == 512)]
            can2 = b.can_reach(set(sinks))
            dg = [g for g in dg if any(j not in can2 for j, _ in b.succ(g))]
            ok, wit = must_pass(b, sinks, dg)
            ctx.check(P + ':S17-2:new:first-chunk-512', 'R-dom', 'a first partial chunk shorter than 512 octets is rejected', ok and bool(dg), function=b.path,
                      guards=[site(b, g) for g in dg], witness=fmt_path(b, wit) if wit else None)
        else:
            ctx.note('config malformed-artifact-compat: the >= 512 first-chunk rejection is legitimately a warning; instance expected absent')
    b = ctx.body('composed::message::reader::packet_body::PacketBodyReader::<R>::fill_inner')
    if b:
        dom = b.dominators()
        # continuation header: Indeterminate => Err ; Partial => new Partial reader without length rejection ; Fixed
        cont = [i for i, k, s in b.constructs(r'LimitedReader$', 'Partial')]
        ctx.floor(P + ':S17-2:fill:floor', 'continuation LimitedReader::Partial construction in fill_inner', len(cont), 1)
        good_indet = False
        for i, t in b.switches():
            info = enum_switch_info(b, i)
            if info and info[0].endswith('PacketLength'):
                for j, _ in b.succ(i):
                    vs_ = edge_variants(b, i, j) or []
                    if vs_ == ['Indeterminate']:
                        # must not reach an Ok return or a reader construction
                        reach = b.reach_from([j], removed=frozenset([i]))
                        bad = [x for x in reach if any(s['r']['k'] == 'agg' and s['r'].get('adt', '').endswith('LimitedReader') for s in b.blocks[x]['s'])]
                        good_indet = not bad and any(x in err_exit_blocks(b) for x in reach)
        ctx.check(P + ':S17-2:fill:indeterminate-continuation-rejected', 'R-table', 'an indeterminate length as continuation of a partial body is an error', good_indet, function=b.path)
        # no length rejection on legal continuation chunks
        dg = direct_cmp_switches(b, lambda k, v: k == 'place', lambda c: c in (512, 256, 1024))
        can = b.can_reach(set(cont))
        rejecting = [g for g, op, _ in dg if g in can and any(j not in can for j, _ in b.succ(g))]
        ctx.check(P + ':S17-2:fill:continuation-any-power', 'R-dom(absence)', 'continuation chunks are not rejected by size (only the first chunk has the 512 rule)',
                  not rejecting, function=b.path, guards=[site(b, g) for g in rejecting])
        # Fixed exhausted early => error
        lim = guard_switches(b, ok_exit_blocks(b), [r'call:.*Take.*::limit$|call:.*::limit$'])
        ctx.check(P + ':S17-2:fill:short-fixed-body', 'R-dom', 'a fixed-length body that ends early (limit() > 0 at EOF) is an error', bool(lim), function=b.path,
                  guards=[site(b, g) for g, _ in lim])
    b = ctx.body('packet::header::PacketHeader::from_parts')
    if b:
        dom = b.dominators()
        news = [i for i, k, s in b.constructs(r'PacketHeader$', 'New')]
        olds = [i for i, k, s in b.constructs(r'PacketHeader$', 'Old')]
        # New: indeterminate rejected
        acc_new, acc_old = None, None
        for i, t in b.switches():
            info = enum_switch_info(b, i)
            if info and info[0].endswith('PacketLength'):
                cn, co = b.can_reach(set(news)), b.can_reach(set(olds))
                an, ao = set(), set()
                isnew = i in cn and any(adt == 'PacketHeaderVersion' and vs == ['New'] for adt, vs in arm_context(b, i, dom))
                isold = i in co and any(adt == 'PacketHeaderVersion' and vs == ['Old'] for adt, vs in arm_context(b, i, dom))
                for j, _ in b.succ(i):
                    if isnew and accept_edge(b, i, j, cn):
                        an.update(edge_variants(b, i, j) or [])
                    if isold and accept_edge(b, i, j, co):
                        ao.update(edge_variants(b, i, j) or [])
                # a length kind is accepted only if every branch on the length lets it through
                if isnew:
                    acc_new = an if acc_new is None else acc_new & an
                if isold:
                    acc_old = ao if acc_old is None else acc_old & ao
        acc_new, acc_old = acc_new or set(), acc_old or set()
        ctx.check(P + ':S17-2:from_parts:old-no-partial', 'R-table', 'legacy-format headers accept Fixed and Indeterminate lengths only', acc_old == {'Fixed', 'Indeterminate'},
                  function=b.path, table=sorted(acc_old))
        ctx.check(P + ':S17-2:from_parts:new-no-indeterminate', 'R-table', 'new-format headers never accept an indeterminate length', 'Indeterminate' not in acc_new and bool(acc_new),
                  function=b.path, table=sorted(acc_new))
        rdom_ok = guard_switches(b, news, [r'call:.*count_ones$'])
        mx = guard_switches(b, news, [r'cdef:.*MAX_PARTIAL_LEN|const:1073741824:u32'])
        ctx.check(P + ':S17-2:from_parts:partial-power-of-two', 'R-dom', 'a partial length must be a power of two (rejecting count_ones branch)', bool(rdom_ok), function=b.path)
        ctx.check(P + ':S17-2:from_parts:partial-max', 'R-dom', 'a partial length above 2^30 is rejected', bool(mx), function=b.path)
        c = ctx.f.consts.get('packet::header::MAX_PARTIAL_LEN')
        ctx.check(P + ':S17-2:max-partial-const', 'R-table', 'MAX_PARTIAL_LEN == 2^30', c is not None and c['v'] == 2 ** 30, table=c and c['v'])


def _param_place(b):
    def pred(kind, v):
        return kind == 'place' and 'l' in v and not v['pr'] and 1 <= v['l'] <= b.r['nargs']
    return pred


def chunk_size_validation(ctx, P, b, nm, stored):
    """The value that is stored as chunk size (`stored`: parameter local) is the value compared with 512 and tested for being
    a power of two, both rejecting, on every path to Ok."""
    from rules.common import single_defs, resolve_value
    defs = single_defs(b)
    oks = ok_exit_blocks(b)
    can = b.can_reach(set(oks))
    dg = []
    for g, op, side in direct_cmp_switches(b, _param_place(b), lambda c: c == 512):
        kind, v = resolve_value(b, b.blocks[g]['t']['o'], defs)
        if kind == 'rv' and v['k'] == 'un':
            kind, v = resolve_value(b, v['o'][0], defs)
        pl = resolve_value(b, v['o'][side], defs)[1]
        if pl['l'] in stored and any(j not in can for j, _ in b.succ(g)):
            dg.append(g)
    ok, wit = must_pass(b, oks, dg)
    ctx.check(P + ':S17-3:%s:chunk-ge-512' % nm, 'R-dom', '%s: the chunk size that is kept is compared with 512 (rejecting) on every path to Ok' % nm, ok and bool(dg), function=b.path,
              guards=[site(b, g) for g in dg], stored_param=sorted(stored),
              missing=None if dg else 'no rejecting comparison of the stored parameter with 512')
    pws = [i for i, t in b.calls(r'is_power_of_two$|count_ones$') if resolve_value(b, t['args'][0], defs)[0] == 'place'
           and resolve_value(b, t['args'][0], defs)[1].get('l') in stored]
    pw = [g for g, _ in guard_switches(b, oks, [r'cs:.*(is_power_of_two|count_ones)#(%s)$' % '|'.join(str(i) for i in pws)])] if pws else []
    ok2, _ = must_pass(b, oks, pw)
    ctx.check(P + ':S17-3:%s:chunk-power-of-two' % nm, 'R-dom', '%s: the chunk size that is kept is tested for being a power of two (rejecting) on every path to Ok' % nm,
              ok2 and bool(pw), function=b.path, guards=[site(b, g) for g in pw])


def s17_3(ctx, P):
    from rules.common import single_defs, resolve_value
    for path, nm in (('packet::literal_data::LiteralDataPartialGenerator::<R>::new', 'literal'),
                     ('packet::compressed_data::CompressedDataPartialGenerator::<R>::new', 'compressed')):
        b = ctx.body(path)
        if not b:
            continue
        defs = single_defs(b)
        stored = set()
        for i, k, s_ in b.constructs(r'PartialGenerator$'):
            for o in s_['r']['o']:
                kind, v = resolve_value(b, o, defs)
                if kind == 'place' and not v['pr'] and 1 <= v['l'] <= b.r['nargs'] and b.r['locals'][v['l']]['ty'] == 'u32':
                    stored.add(v['l'])
        ctx.check(P + ':S17-3:%s:chunk-stored' % nm, 'origin', '%s generator keeps a u32 parameter as its chunk size' % nm, len(stored) == 1, function=b.path)
        chunk_size_validation(ctx, P, b, nm, stored)
    cands = [p for p in ctx.f.bodies if p.endswith('::partial_chunk_size') and 'builder' in p]
    for p in cands:
        b = ctx.body(p)
        defs = single_defs(b)
        stored = set()
        for i, k, s_ in b.stmts(lambda s: s['d']['pr'] and s['d']['pr'][-1].endswith('.partial_chunk_size') and s['r']['k'] == 'use'):
            kind, v = resolve_value(b, s_['r']['o'][0], defs)
            if kind == 'place' and not v['pr'] and 1 <= v['l'] <= b.r['nargs']:
                stored.add(v['l'])
        ctx.check(P + ':S17-3:builder:chunk-stored', 'origin', 'MessageBuilder::partial_chunk_size stores its parameter', len(stored) == 1, function=b.path)
        chunk_size_validation(ctx, P, b, 'builder', stored)
    ctx.floor(P + ':S17-3:builder:floor', 'MessageBuilder::partial_chunk_size', len(cands), 1)
    # every PacketLength::Partial(x) constructed by the writers derives from the validated chunk size
    n = 0
    for p, r in ctx.f.bodies.items():
        if not ('packet::literal_data::' in p or 'packet::compressed_data::' in p or 'composed::message::builder::' in p):
            continue
        b = ctx.wrap(r)
        cons = b.constructs(r'types::packet::PacketLength$', 'Partial')
        if not cons:
            ctx.functions.discard(p)
            continue
        for i, k, s in cons:
            n += 1
            og = b.operand_origins(s['r']['o'][0])
            ctx.check(P + ':S17-3:partial-from-chunk-size:%s' % p, 'origin', 'announced Partial length in %s derives from the validated chunk_size' % p.split('::')[-1],
                      has_origin(og, r'field:.*chunk_size$|param:'), function=p, site=site(b, i))
    ctx.floor(P + ':S17-3:partial-sites:floor', 'PacketLength::Partial constructions in the writers', n, 4)


EMITTERS = [('packet::literal_data::', 'LiteralDataPartialGenerator', 'literal'), ('packet::compressed_data::', 'CompressedDataPartialGenerator', 'compressed')]


def partial_emitters(ctx, P):
    """The three partial-body emitters (literal, compressed, encrypted) follow one protocol: the first chunk carries the in-packet
    header, so its data part is chunk size minus the header size and a single-packet body is data plus the same header size;
    Partial(chunk size) is announced only when the fill returned a full chunk; the stream ends only after a Fixed chunk."""
    bodies = []
    for p, r in sorted(ctx.f.bodies.items()):
        if '::tests::' in p:
            continue
        for mod, ty, nm in EMITTERS:
            if p.startswith('<' + mod + ty) and p.endswith('as std::io::Read>::read'):
                bodies.append((nm, ctx.wrap(r)))
    eb = ctx.body('composed::message::builder::encrypt_write')
    if eb is not None:
        bodies.append(('encrypted', eb))
    ctx.floor(P + ':S17-5:floor', 'partial-body emitters', len(bodies), 3)
    CH = r'field:.*\.chunk_size$|param:2$'
    for nm, b in bodies:
        def hdr_kind(o):
            og = b.operand_origins(o)
            if 'k' in o and o['k'].get('v') == 1:
                return 'const1'
            if has_origin(og, r'call:.*write_len$'):
                return 'write_len'
            return None
        subs, adds = [], []
        for i, k, s_ in b.stmts(lambda s: s['r']['k'] == 'bin' and s['r']['op'].replace('WithOverflow', '') in ('Sub', 'Add')):
            o = s_['r']['o']
            op = s_['r']['op'].replace('WithOverflow', '')
            if op == 'Sub' and has_origin(b.operand_origins(o[0]), CH) and hdr_kind(o[1]):
                subs.append(hdr_kind(o[1]))
            if op == 'Add' and has_origin(b.operand_origins(o[0]), r'call:util::fill_buffer$') and hdr_kind(o[1]):
                adds.append(hdr_kind(o[1]))
        ctx.check('%s:S17-5:%s:first-chunk-minus-header' % (P, nm), 'R-sib', '%s emitter: first data chunk = chunk size - in-packet header size, single-packet length = data + the same header size' % nm,
                  len(subs) >= 1 and len(adds) >= 1 and set(subs) == set(adds) and len(set(subs)) == 1, function=b.path, table=dict(sub=subs, add=adds))
        parts = [i for i, k, s_ in b.constructs(r'types::packet::PacketLength$', 'Partial')]
        bad = [i for i in parts if not guard_switches(b, [i], [r'call:util::fill_buffer$', r'op:(Eq|Lt|Ne|Ge)$'])]
        ctx.check('%s:S17-5:%s:partial-only-after-full-chunk' % (P, nm), 'R-dom', '%s emitter: Partial(chunk size) is announced only on the branch where the fill returned a full chunk' % nm,
                  bool(parts) and not bad, function=b.path, site=site(b, bad[0]) if bad else None)
        fixed = [i for i, k, s_ in b.constructs(r'types::packet::PacketLength$', 'Fixed')]
        if nm == 'encrypted':
            # the loop is left only on a Fixed length
            exits = [g for g, t in b.switches() if has_origin(b.switch_origins(g), r'agg:types::packet::PacketLength::(Fixed|Partial)$') and has_origin(b.switch_origins(g), r'discr$')]
            ctx.check('%s:S17-5:%s:ends-after-fixed' % (P, nm), 'R-dom', 'encrypt_write leaves its chunk loop only after a Fixed chunk was written', bool(exits) and len(fixed) >= 2, function=b.path)
        else:
            zero = [i for i, k, s_ in b.stmts(lambda s: s['r']['k'] == 'agg' and s['r'].get('v') == 'Ok' and s['d']['l'] == 0 and not s['d']['pr']
                                             and 'k' in s['r']['o'][0] and s['r']['o'][0]['k'].get('v') == 0)]
            # every path to an Ok(0) uses the TRUE edge of a test of is_fixed_emitted (bool switch: the `else` target is the true edge)
            true_edges = set()
            for g, t in b.switches():
                og = b.switch_origins(g)
                if has_origin(og, r'field:.*\.is_fixed_emitted$') and not has_origin(og, r'call:'):
                    true_edges.add((g, t['else']))
            badz = [i for i in zero if b.find_path(0, {i}, removed_edges=frozenset(true_edges)) is not None] if true_edges else zero
            sets = [i for i, k, s_ in b.stmts(lambda s: s['d']['pr'] and s['d']['pr'][-1].endswith('.is_fixed_emitted') and s['r']['k'] == 'use' and 'k' in s['r']['o'][0] and s['r']['o'][0]['k'].get('v') in (1, True))]
            okf = all(must_pass(b, [f_], sets)[0] for f_ in fixed) if sets and fixed else False
            ctx.check('%s:S17-5:%s:ends-after-fixed' % (P, nm), 'R-dom', '%s emitter: end of stream (Ok(0)) is reported only once a Fixed chunk was emitted, and every Fixed length is built after is_fixed_emitted was set' % nm,
                      bool(zero) and not badz and okf, function=b.path)


def running_offset_emitters(ctx, P):
    """Generators that hand out a prepared header in pieces keep a running offset (`header_written`): the piece copied out starts
    at that offset and the offset advances by what was copied (sibling rule over the fixed-length literal and compressed generators)."""
    from rules.common import single_defs, resolve_value
    n = 0
    for p, r in sorted(ctx.f.bodies.items()):
        if '::tests::' in p or not p.endswith('as std::io::Read>::read'):
            continue
        b = ctx.wrap(r)
        adv = [(i, k, s_) for i, k, s_ in b.stmts(lambda s: s['d']['pr'] and s['d']['pr'][-1].endswith('.header_written'))]
        if not adv:
            continue
        n += 1
        ctx.functions.add(p)
        defs = single_defs(b)
        ok_src = False
        for i, t in b.calls(r'copy_from_slice$'):
            # source operand: &self.header[a..b]  -> Index::index(header, Range{start, end}); start must derive from header_written
            o = t['args'][1]
            for _ in range(6):
                k, v = resolve_value(b, o, defs)
                if k == 'call' and v['f'].get('fn', '').endswith('ops::Index::index'):
                    kk, rv = resolve_value(b, v['args'][1], defs)
                    if kk == 'rv' and rv['k'] == 'agg' and rv['o']:
                        ok_src = has_origin(b.operand_origins(rv['o'][0]), r'field:.*\.header_written$') and 'RangeTo' not in str(rv.get('adt', '')) + str(rv.get('v', ''))
                    break
                if k == 'rv' and v['k'] == 'ref':
                    o = dict(l=v['p']['l'], pr=[x for x in v['p']['pr'] if x != '*'], mv=0)
                    continue
                break
        ok_adv = any(has_origin(b.operand_origins(o), r'call:.*::min$|field:.*\.header_written$') for i, k, s_ in adv for o in s_['r'].get('o', []))
        ty = p[1:].split(' as ')[0].split('::')[-1]
        ctx.check('%s:S17-6:running-offset:%s' % (P, ty), 'R-sib', '%s::read copies the header piece starting at header_written and advances header_written by the copied amount' % ty,
                  ok_src and ok_adv, function=p)
    ctx.floor(P + ':S17-6:floor', 'generators with a running header offset', n, 2)


def legacy_header_self_consistent(ctx, P):
    """A legacy-format header octet carries a two-bit length type that tells the reader how many length octets follow.  The
    serialiser picks the number of octets from the VALUE; the type bits it writes must be derived from the same value (old_fixed_type),
    not taken as parsed — a header read from a non-minimal encoding (type 1, value 5) would otherwise be written as type 1 followed
    by ONE octet."""
    b = ctx.body('<packet::header::PacketHeader as ser::Serialize>::to_writer')
    if b is None:
        return
    dom = b.dominators()
    first = []
    for i, t in b.calls(r'WriteBytesExt::write_u8$'):
        ac = arm_context_(b, i, dom)
        if ('PacketHeader', ['Old']) in ac and ('PacketLength', ['Fixed']) in ac and has_origin(b.operand_origins(t['args'][1]), r'call:.*OldPacketHeader::into_bits$'):
            first.append((i, t))
    good = bool(first) and all(has_origin(b.operand_origins(t['args'][1]), r'call:packet::header::old_fixed_type$') for i, t in first)
    ctx.check(P + ':S17-7:legacy-header-type-from-value', 'R-sib', 'PacketHeader::to_writer (legacy, fixed length) writes length-type bits computed from the length value it then encodes',
              good, function=b.path, site=site(b, first[0][0]) if first else None,
              missing=None if good else 'the header octet is written as parsed while the number of length octets follows the value: [0x89, 0x00, 0x05] is re-serialised as [0x89, 0x05]')


def legacy_header_tag_range(ctx, P):
    """The legacy format has four tag bits: a writer that shifts the tag into a legacy header octet must first reject tags >= 16
    (PacketHeader::from_parts does; PacketHeaderVersion::write_header must as well), otherwise the tag spills into the format bit and
    e.g. tag 17 is written as a new-format header of tag 4."""
    b = ctx.body('types::packet::PacketHeaderVersion::write_header')
    if b is None:
        return
    dom = b.dominators()
    from rules.common import direct_cmp_switches
    sinks = []
    for i, t in b.calls(r'WriteBytesExt::write_u8$'):
        if has_origin(b.operand_origins(t['args'][1]), r'op:Shl$') and any(a == 'PacketHeaderVersion' and vs == ['Old'] for a, vs in arm_context_(b, i, dom)):
            sinks.append(i)
    gs = [g for g, op, side in direct_cmp_switches(b, lambda k, v: True, lambda c: c in (15, 16))]
    gs = [g for g in gs if any(not (set(sinks) & b.reach_from([j])) for j, _ in b.succ(g))]
    ok, wit = must_pass(b, sinks, gs) if sinks and gs else (False, None)
    ctx.check(P + ':S17-7:legacy-writer-rejects-tag-ge-16', 'R-dom', 'PacketHeaderVersion::write_header refuses tags >= 16 before it builds a legacy header octet', ok and len(sinks) >= 3,
              function=b.path, site=site(b, sinks[0]) if sinks else None,
              missing=None if ok else 'no rejecting comparison of the tag with 16: write_header(Old, UserAttribute, 5) emits 0xC4 0x05, a new-format header of tag 4')


def arm_context_(b, i, dom):
    from rules.common import arm_context
    return [(a, vs) for a, vs in arm_context(b, i, dom)]


def s17_4(ctx, P):
    b = ctx.body('packet::packet_sum::Packet::from_reader')
    if b:
        dr = b.calls(r'drain$')
        tl = b.constructs(r'errors::Error$', 'PacketTooLarge')
        ctx.check(P + ':S17-4:drain-and-too-large', 'R-dom', 'Packet::from_reader drains the body and classifies leftover octets as PacketTooLarge',
                  bool(dr) and bool(tl), function=b.path, count=len(dr))


def message_parser_consumes_bodies(ctx, P):
    """S17-4 (sibling of Packet::from_reader): the message parser reads Signature / One-Pass-Signature / ESK packets out of a
    `PacketBodyReader` and then continues the packet stream with `into_inner()`.  Handing the source back is only sound after the
    body was consumed in full (`drain()`, leftover => error) - otherwise the next header is read from inside the body of the
    packet just parsed (bodies above the reader's buffer) or trailing octets of a packet are ignored.  Every `into_inner()` of a
    packet body reader in the message parser must be dominated by a call that drains that reader."""
    n = 0
    for p, r in sorted(ctx.f.bodies.items()):
        if not re.match(r'(<)?composed::message::parser::', p) or '::tests::' in p:
            continue
        b = ctx.wrap(r)
        outs = b.calls(r'packet_body::PacketBodyReader::<.*>::into_inner$|PacketBodyReader::<R>::into_inner$')
        if not outs:
            ctx.functions.discard(p)
            continue
        # a drain, or a helper of this module that drains the reader it is given
        helpers = [hp for hp, hr in ctx.f.bodies.items() if hp.startswith('composed::message::parser::') and hp != p
                   and core.B(hr).calls(r'BufReadParsing::drain$|PacketBodyReader::<.*>::drain$')]
        hrx = '|'.join(re.escape(h) + '$' for h in helpers)
        drains = set(i for i, t in b.calls(r'BufReadParsing::drain$|PacketBodyReader::<.*>::drain$' + ('|' + hrx if hrx else '')))
        for k, (i, t) in enumerate(outs):
            n += 1
            # a reader that was never parsed from (created and handed on) does not exist here: every site follows a parse or a skip
            wit = b.find_path(0, {i}, removed=frozenset(drains))
            ctx.check('%s:S17-4:message-parser-drains:%s#%d' % (P, p, k), 'R-dom',
                      'the packet source is handed back (into_inner) only after the body reader was drained, in %s' % p.split('::')[-1],
                      wit is None, function=p, site=site(b, i), witness=fmt_path(b, wit),
                      missing=None if wit is None else 'a path reaches into_inner() without draining the body: octets left in the body are parsed as the next packet / ignored')
    ctx.floor(P + ':S17-4:message-parser-drains:floor', 'into_inner() sites of packet body readers in the message parser', n, 6)


def drain_error_propagates(ctx, P):
    """`drain()` of a packet body reader is where a body that is SHORTER than its declared length (fixed length cut off, final
    partial chunk missing) is reported when the packet's own parser stopped reading before the end (Marker, OPS, keys, ESKs ...).  A
    caller that looks at that result must not have any way from its error side to a successful return: every path from the error
    edge of a drain call ends in an error exit."""
    from rules.stream import _err_successors
    from rules.common import single_defs
    n = 0
    for p, r in sorted(ctx.f.bodies.items()):
        if '::tests::' in p:
            continue
        b = ctx.wrap(r)
        ds = b.calls(r'BufReadParsing::drain$|PacketBodyReader::<.*>::drain$')
        if not ds:
            continue
        defs = single_defs(b)
        oks = set(ok_exit_blocks(b)) - set(err_exit_blocks(b))
        for k, (i, t) in enumerate(ds):
            n += 1
            es = _err_successors(b, i, defs)
            if es is None:
                ctx.ok('%s:S17-4:drain-error-propagates:%s#%d' % (P, p, k), 'R-err', 'the result of drain() is handed on as it is in %s' % p.split('::')[-1], function=p, site=site(b, i))
                continue
            hit = sorted(b.reach_from(es) & oks) if es else []
            ctx.check('%s:S17-4:drain-error-propagates:%s#%d' % (P, p, k), 'R-err', 'no path leads from the error edge of drain() to a successful return in %s' % p.split('::')[-1],
                      bool(es) and not hit, function=p, site=site(b, i),
                      missing=None if (es and not hit) else ('an error of drain() (body shorter than declared) can end in the successful return at %s' % site(b, hit[0]) if hit else 'error edge of the drain result not found'))
    ctx.floor(P + ':S17-4:drain-error:floor', 'drain() calls on packet bodies', n, 9)


def packet_parser_always_drains(ctx, P):
    """`Packet::from_reader` is the one place that consumes the rest of a body the type-specific parser did not read (refused packet
    types included): the packet iterator continues with the next header right behind it, also after an `Err` item.  No return of
    `Packet::from_reader` - successful or not - is reachable without passing the `drain()` of the body."""
    b = ctx.body('packet::packet_sum::Packet::from_reader')
    if b is None:
        ctx.missing(P + ':S17-4:packet-parser-always-drains', 'Packet::from_reader not found')
        return
    ds = [i for i, t in b.calls(r'BufReadParsing::drain$|PacketBodyReader::<.*>::drain$')]
    wit = b.find_path(0, set(b.returns()), removed=frozenset(ds)) if ds else [0]
    ctx.check(P + ':S17-4:packet-parser-always-drains', 'R-dom', 'every return of Packet::from_reader has passed the drain of the packet body',
              bool(ds) and wit is None, function=b.path, witness=fmt_path(b, wit) if (wit and ds) else None,
              missing=None if (ds and wit is None) else 'a return is reachable without draining the body: after such an Err the packet iterator reads the next header from inside this body')


def packet_bodies_through_body_reader(ctx, P):
    """`PacketBodyReader` is the one reader that enforces the framing of a body (a fixed-length body that ends early is an error, partial
    chunks are followed, indeterminate lengths run to the end).  The generic packet parser `Packet::from_reader` must only ever be
    handed such a reader: behind a plain `Take` a stream cut inside a body ends cleanly and the packet is accepted short."""
    n = 0
    for p, r in sorted(ctx.f.bodies.items()):
        if '::tests::' in p or r.get('derived'):
            continue
        b = ctx.wrap(r)
        cs = b.calls(r'Packet::from_reader$')
        if not cs:
            ctx.functions.discard(p)
            continue
        for k, (i, t) in enumerate(cs):
            n += 1
            tys = [b.r['locals'][a['l']]['ty'] for a in t['args'][1:] if 'l' in a]
            ok = bool(tys) and all('packet_body::PacketBodyReader<' in (ty or '') for ty in tys)
            ctx.check('%s:S17-4:body-reader:%s#%d' % (P, p.split('::{closure')[0], k), 'R-who', 'Packet::from_reader is handed a PacketBodyReader (the reader that reports a body shorter than declared)',
                      ok, function=p, site=site(b, i), missing=None if ok else 'body reader type is %s: a truncated body is not detected' % tys)
    ctx.floor(P + ':S17-4:body-reader:floor', 'call sites of Packet::from_reader', n, 1)


def illegal_framing_stops_the_parser(ctx, P):
    """When `PacketBodyReader::new` refuses the framing of a packet (partial length on a non-data packet, first chunk below 512) the
    position of the next packet is unknown.  A packet iterator that is used again after that error (callers that skip `Err` items)
    must not go on reading "headers" from inside the refused body: on the error edge of the constructor the parser is marked done."""
    from rules.common import enum_switch_info, edge_variants
    n = 0
    for p, r in sorted(ctx.f.bodies.items()):
        if 'packet::many::PacketParser' not in p or r.get('derived') or '::tests::' in p or r['kind'] == 'Closure':
            continue
        if r['nargs'] < 1 or not (r['locals'][1]['ty'] or '').startswith('&mut'):
            continue
        b = ctx.wrap(r)
        cs = b.calls(r'packet_body::PacketBodyReader::<.*>::new$')
        if not cs:
            ctx.functions.discard(p)
            continue
        done_stores = set(i for i, k, st in b.stmts(lambda st: st['d']['pr'] and st['d']['pr'][-1].endswith('PacketParser.is_done')
                                                    and st['r']['k'] == 'use' and 'k' in st['r']['o'][0] and st['r']['o'][0]['k'].get('v') == 1))
        rets = set(b.returns())
        for i, t in cs:
            n += 1
            res = t['d']['l']
            starts = []
            for j, tt in b.switches():
                info = enum_switch_info(b, j)
                if info is None or info[2]['l'] != res:
                    continue
                for tgt, _ in b.succ(j):
                    vs = edge_variants(b, j, tgt) or []
                    if 'Err' in vs and 'Ok' not in vs:
                        starts.append(tgt)
            leak = None
            if starts:
                pth = b.find_path(starts[0], rets, removed=frozenset(done_stores))
                leak = pth
            ok = bool(starts) and leak is None
            ctx.check('%s:S17-2:illegal-framing-stops-parser:%s' % (P, p), 'R-dom', 'a framing refused by PacketBodyReader::new ends the packet iteration of %s' % p.split('::')[-1],
                      ok, function=p, site=site(b, i),
                      missing=None if ok else ('the error of PacketBodyReader::new is passed on without marking the parser done: the next call parses a header from inside the refused body'))
    ctx.floor(P + ':S17-2:illegal-framing:floor', 'body reader constructions in the packet iterator', n, 2)


FIXED_GEN_UNREACHABLE = {
    'CompressedDataFixedGenerator': 'never constructed: CompressedDataGenerator::new is only handed the length SignGenerator::len() reports, which is always None (the compressed size is not known in advance)',
}


def fixed_generator_held_to_length(ctx, P):
    """A generator that writes a FIXED length header up front (`PacketHeader::new_fixed(.., source_len + ..)`) and then forwards its
    source has announced how many octets follow.  The source may deliver another number (a file that grows or shrinks after its
    metadata was read, files under /proc): unless the forwarding read is bounded by what is left of the announced length, the stream
    that is written has a length that does not match the octets that follow.  In `Read::read` of every such generator the buffer
    handed to the source derives from a length field of the generator (not only from the caller's buffer)."""
    n = 0
    for p, r in sorted(ctx.f.bodies.items()):
        m = re.match(r'<packet::\w+::(\w+FixedGenerator)<R> as std::io::Read>::read$', p)
        if not m:
            continue
        if m.group(1) in FIXED_GEN_UNREACHABLE:
            ctx.ok('%s:S17-7:fixed-generator-held-to-length:%s' % (P, m.group(1)), 'R-dom', 'reviewed: ' + FIXED_GEN_UNREACHABLE[m.group(1)], function=p)
            continue
        b = ctx.wrap(r)
        fwd = [(i, t) for i, t in b.calls(r'io::Read::read$') if len(t['args']) == 2 and has_origin(b.operand_origins(t['args'][0]), r'field:%s\.source$' % m.group(1))
               and has_origin(b.operand_origins(t['args'][1]), r'^param:2$')]       # reads into the caller's buffer (a probe for the end of the source uses its own)
        n += 1
        bad = []
        for i, t in fwd:
            og = b.operand_origins(t['args'][1])
            flds = sorted(x for x in og if re.match(r'field:%s\.(?!source$|header$|header_written$)' % m.group(1), x))
            if not flds:
                bad.append(i)
        ctx.check('%s:S17-7:fixed-generator-held-to-length:%s' % (P, m.group(1)), 'R-dom', '%s bounds what it forwards from its source by a length it keeps (the header announced exactly that many octets)' % m.group(1),
                  bool(fwd) and not bad, function=p, site=site(b, bad[0]) if bad else None,
                  missing=None if (fwd and not bad) else 'the source is read straight into the caller\'s buffer at %s: more or fewer octets than announced are written without an error' % (site(b, bad[0]) if bad else '?'))
    ctx.floor(P + ':S17-7:floor', 'fixed-length generators that forward a source', n, 1)


def encrypted_chunks_as_long_as_announced(ctx, P):
    """`encrypt_write` announces every non-final chunk of the encrypted container as `Partial(partial_chunk_size)` and reads that chunk
    with `fill_buffer(.., Some(n))`: the octets that follow a partial length are exactly the announced number only if `n` IS the
    announced size (minus the header octets in the first chunk) - a read size that is clamped or capped (`min` with another bound)
    writes chunks that are shorter than they declare.  The chunk sizes read derive from the chunk-size parameter without a clamp."""
    cands = [p for p in ctx.f.bodies if p.endswith('composed::message::builder::encrypt_write')]
    b = ctx.body(cands[0]) if cands else None
    if b is None:
        ctx.missing(P + ':S17-8:encrypted-chunks-as-announced', 'encrypt_write not found')
        return
    parts = [(i, st) for i, k, st in b.stmts(lambda st: st['r']['k'] == 'agg' and st['r'].get('v') == 'Partial' and (st['r'].get('adt') or '').endswith('PacketLength'))]
    fills = b.calls(r'util::fill_buffer$')
    src = set()
    for i, st in parts:
        src |= set(x for x in b.operand_origins(st['r']['o'][0]) if x.startswith('param:'))
    bad = []
    for i, t in fills:
        if len(t['args']) < 3:
            continue
        og = b.operand_origins(t['args'][2])
        if not (src & set(x for x in og if x.startswith('param:'))) or has_origin(og, r'call:.*(cmp::Ord::min|cmp::min|clamp)$'):
            bad.append(i)
    ctx.check(P + ':S17-8:encrypted-chunks-as-announced', 'origin', 'the chunk sizes encrypt_write reads are the announced partial length (no clamp between the chunk-size parameter and the read)',
              bool(parts) and len(fills) >= 2 and not bad, function=b.path, site=site(b, bad[0]) if bad else None,
              missing=None if not bad else 'the read size at %s does not derive from the announced chunk size alone (clamped / other source): a chunk announced as Partial(n) carries fewer octets' % site(b, bad[0]))


def partial_chunk_size_bounded(ctx, P):
    """RFC 9580 4.2.1.4: a partial body length is 2^n with n <= 30 (first octet 224..254); 255 introduces a five-octet length.  A chunk
    size of 2^31 passes `>= 512 && is_power_of_two()` for a u32, and is then either written as first octet 255 (read back as a fixed
    length taken from the body) or refused by PacketHeader::from_parts inside an `expect`.  Every function that validates a chunk
    size with a power-of-two test also compares the same value with 2^30."""
    from rules.common import single_defs, direct_cmp_switches
    from rules import panics
    n = 0
    for p, r in sorted(ctx.f.bodies.items()):
        if '::tests::' in p or r['kind'] == 'Closure':
            continue
        b = ctx.wrap(r)
        pw = b.calls(r'u32::is_power_of_two$|u32::count_ones$|usize::is_power_of_two$')
        pw = [(i, t) for i, t in pw if t['args'] and 'l' in t['args'][0]]
        if not pw:
            continue
        defs = single_defs(b)
        rets = set(b.returns())
        for i, t in pw:
            # an assertion (the failing side of the test never returns) is not a validation
            sw = [g for g, tt in b.switches() if has_origin(b.switch_origins(g), r'cs:.*(is_power_of_two|count_ones)#%d$' % i)]
            if sw and all(any(not (b.reach_from([j]) & rets) for j, _ in b.succ(g)) for g in sw):
                continue
            n += 1
            vals = panics.copies_of(b, t['args'][0]['l'])
            k0, v0 = resolve_value(b, t['args'][0], defs)
            same = (lambda v: k0 == 'place' and 'l' in v0 and v.get('l') == v0['l'] and [e for e in v['pr'] if e != '*'] == [e for e in v0['pr'] if e != '*'])
            lim = [g for g, op, side in direct_cmp_switches(b, lambda k, v: k == 'place' and 'l' in v and ((v['l'] in vals and not [e for e in v['pr'] if e != '*']) or same(v)),
                                                            lambda c: c in (1 << 30, (1 << 30) + 1, (1 << 31) - 1, 1 << 31)) if op in ('Lt', 'Le', 'Gt', 'Ge')]
            ctx.check('%s:S17-6:partial-chunk-size-at-most-2^30:%s' % (P, p), 'R-sib', '%s, which tests a partial chunk size for being a power of two, also bounds it by 2^30' % '::'.join(p.split('::')[-2:]),
                      bool(lim), function=p, site=site(b, i),
                      missing=None if lim else 'the size tested at %s is not compared with 2^30: 2^31 passes, is written as length octet 255 (a five-octet fixed length to every reader) or hits an expect() after 2 GiB were buffered' % site(b, i))
    ctx.floor(P + ':S17-6:floor', 'power-of-two tests of a partial chunk size', n, 4)


def run(ctx):
    P = 'C17'
    partial_emitters(ctx, P)
    partial_chunk_size_bounded(ctx, P)
    fixed_generator_held_to_length(ctx, P)
    encrypted_chunks_as_long_as_announced(ctx, P)
    illegal_framing_stops_the_parser(ctx, P)
    message_parser_consumes_bodies(ctx, P)
    drain_error_propagates(ctx, P)
    packet_parser_always_drains(ctx, P)
    packet_bodies_through_body_reader(ctx, P)
    running_offset_emitters(ctx, P)
    legacy_header_self_consistent(ctx, P)
    legacy_header_tag_range(ctx, P)
    # re-serialised packets get a header derived from the bytes that follow (shared with C05)
    from rules import c05
    c05.header_derivation(ctx, P)
    c05.sum_type_header_once(ctx, P)
    s17_1(ctx, P)
    s17_2(ctx, P)
    s17_3(ctx, P)
    s17_4(ctx, P)
