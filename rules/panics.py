"""R-panic: inventory of panic-capable sites, local discharge tactics, reviewed baseline (DESIGN §4.11)."""
import os, re, collections
from rules.common import single_defs, resolve_value, site, direct_cmp_switches
from core import has_origin

HERE = os.path.dirname(os.path.abspath(__file__))
BASELINE = os.path.join(HERE, 'reviewed', 'panic_baseline.txt')

EXPL = re.compile(r'core::panicking::|std::rt::begin_panic|panic_fmt$|unreachable_display|Option::<.*>::(unwrap|expect)$|Result::<.*>::(unwrap|expect|unwrap_err|expect_err)$|'
                  r'slice::<impl \[T\]>::(copy_from_slice|split_at|split_at_mut|clone_from_slice)$|\[T\]::(copy_from_slice|split_at|split_at_mut|clone_from_slice)$|'
                  r'Bytes(Mut)?::(split_to|split_off|advance|slice|truncate)$|Buf::(advance|copy_to_slice|get_u8|get_u16|get_u32|split_to)$|BufMut::put_slice$|'
                  r'GenericArray::<.*>::from_slice$|GenericArray::<T, N>::from_slice$|Vec::<.*>::(remove|insert|swap_remove|drain|split_off)$|'
                  r'ops::Index(Mut)?::index(_mut)?$|u32::pow$|usize::pow$')
DEBUGMAC = {'debug_assert', 'debug_assert_eq', 'debug_assert_ne', 'debug', 'warn', 'trace', 'info', 'error', 'log', '$crate::log', '$crate::__log'}
NARROW = ('u8', 'u16', 'u32', 'i8', 'i16', 'i32', 'bool', 'char')
LENLIKE = re.compile(r'::len$|Buf::remaining$|write_len$|write_len_with_header$|count_ones$|trailing_zeros$|leading_zeros$|block_size$|key_size$|nonce_size$|tag_size$|iv_size$|'
                     r'digest_size$|fixed_encoding_len$|header_len$|::count$|as_byte_size$|cmp::Ord::min$|cmp::min$|::capacity$|unwrap_or$|checked_')


def skip_body(p, r):
    return bool(r.get('derived')) or '::tests::' in p or 'arbitrary' in p.lower() or p.startswith('util::test')


def sites_of(b):
    """[(block, kind, detail, terminator)]"""
    out = []
    for i, blk in enumerate(b.blocks):
        if blk['c']:
            continue
        t = blk['t']
        if t['k'] == 'assert':
            if t['ak'] in ('Resumed', 'Misaligned', 'NullDeref', 'InvalidEnum'):
                continue
            if t.get('mac') and any(m in DEBUGMAC for m in t['mac']):
                continue
            out.append((i, 'assert', t['ak'], t))
        elif t['k'] == 'call':
            fn = t['f'].get('fn', '')
            if not EXPL.search(fn):
                continue
            mac = t.get('mac') or []
            if any(m in DEBUGMAC for m in mac):
                continue
            last = fn.split('::')[-1]
            if 'ops::Index' in fn:
                full = t['f'].get('full', '')
                m = re.search(r'Index(?:Mut)?<([^<>]*(?:<[^<>]*>)?)>', full)
                last = 'index[' + (m.group(1).replace('std::ops::', '') if m else '?') + ']'
            if fn.startswith('core::panicking::') or fn.endswith('panic_fmt'):
                last = 'panic'
            out.append((i, 'call', last, t))
    return out


def keyed_sites(b):
    cnt = collections.Counter()
    out = []
    for i, kind, detail, t in sites_of(b):
        k = (kind, detail)
        out.append(('%s|%s|%s|%d' % (b.path, kind, detail, cnt[k]), i, kind, detail, t))
        cnt[k] += 1
    return out


# -- tactics ------------------------------------------------------------------------------------------------

def narrow_value(b, o, defs, depth=0):
    """Is the operand bounded well below the type maximum: constant, widening cast from a <=32-bit integer, a length-like
    call result, or a sum/product of two such values (one level)?"""
    if depth > 4:
        return False
    k, v = resolve_value(b, o, defs)
    if k == 'const':
        return abs(v) < 2 ** 40
    if k == 'call':
        fn = v['f'].get('fn', '')
        return bool(LENLIKE.search(fn)) or v.get('rty') in NARROW
    if k == 'rv':
        if v['k'] == 'cast' and v['ck'] == 'IntToInt':
            src = v['o'][0]
            ty = b.r['locals'][src['l']]['ty'] if 'l' in src and not src['pr'] else (src.get('k', {}).get('ty') if 'k' in src else None)
            if ty in NARROW:
                return True
            return narrow_value(b, src, defs, depth + 1)
        if v['k'] == 'bin' and v['op'] in ('Add', 'AddWithOverflow', 'Mul', 'MulWithOverflow', 'BitAnd', 'Shr', 'Rem', 'Div', 'Sub', 'SubWithOverflow') and depth < 2:
            if v['op'] in ('BitAnd', 'Shr', 'Rem', 'Div', 'Sub', 'SubWithOverflow'):
                return narrow_value(b, v['o'][0], defs, depth + 1)
            return all(narrow_value(b, x, defs, depth + 1) for x in v['o'])
        if v['k'] == 'use':
            return narrow_value(b, v['o'][0], defs, depth + 1)
    if k == 'place':
        # tuple field .0 of a checked-arithmetic pair
        if v.get('pr') == ['.0'] and 'l' in v:
            d = defs.get(v['l'])
            if d is not None and d[1].get('k') != 'call' and d[1]['r']['k'] == 'bin':
                return all(narrow_value(b, x, defs, depth + 1) for x in d[1]['r']['o'])
        ty = None
        if 'l' in v and not v['pr']:
            ty = b.r['locals'][v['l']]['ty']
        if ty in NARROW:
            return True
    return False


ADAPTERS = re.compile(r'(Deref::deref|DerefMut::deref_mut|AsRef::as_ref|AsMut::as_mut|as_slice|as_bytes|as_mut_slice|Borrow::borrow|as_ref)$')


def root_recv(b, o, defs):
    """Root place a (possibly derefed / borrowed / `.as_ref()`-ed) operand denotes, as a string."""
    cur = o
    for _ in range(8):
        k, v = resolve_value(b, cur, defs)
        if k == 'rv' and v['k'] == 'un' and v['op'] == 'PtrMetadata':
            cur = v['o'][0]
            continue
        if k == 'rv' and v['k'] in ('ref', 'copyderef', 'rawptr'):
            cur = dict(l=v['p']['l'], pr=[e for e in v['p']['pr'] if e != '*'])
            if cur['pr']:
                return place_str(b, cur, defs)
            continue
        if k == 'rv' and v['k'] == 'cast':
            cur = v['o'][0]
            continue
        if k == 'call' and ADAPTERS.search(v['f'].get('fn', '')) and v['args']:
            cur = v['args'][0]
            continue
        if k == 'place':
            return place_str(b, v, defs)
        break
    return place_str(b, cur, defs) if 'l' in cur else '?'


def src_key(b, o, defs):
    """Identity of the value an operand denotes, for matching a guard with a use: ('call', block-ish id) / ('place', str) / ('const', v)."""
    k, v = resolve_value(b, o, defs)
    if k == 'const':
        return ('const', v)
    if k == 'call':
        a0 = v['args'][0] if v['args'] else None
        return ('call', v['f'].get('fn', '').split('::')[-1], root_recv(b, a0, defs) if a0 else '')
    if k == 'rv' and v['k'] == 'un' and v['op'] == 'PtrMetadata':
        return ('call', 'len', root_recv(b, v['o'][0], defs))
    if k == 'place':
        return ('place', place_str(b, v, defs))
    return ('rv', id(v))


def place_str(b, o, defs, depth=0):
    if o is None or 'l' not in o:
        return '?'
    base = o['l']
    pr = list(o['pr'])
    for _ in range(5):
        d = defs.get(base)
        if d is None or d[1].get('k') == 'call':
            break
        r = d[1]['r']
        if r['k'] in ('ref', 'copyderef') :
            pr = list(r['p']['pr']) + [e for e in pr if e != '*'] if True else pr
            base = r['p']['l']
            continue
        if r['k'] == 'use' and 'l' in r['o'][0]:
            pr = list(r['o'][0]['pr']) + pr
            base = r['o'][0]['l']
            continue
        break
    return '_%d%s' % (base, ''.join(e for e in pr if e != '*'))


def guarded_by_cmp(b, i, a_key, need_const, defs, cmps, dom):
    """Is block i dominated by a direct comparison on the same value (a_key) against a constant >= need_const (or against the
    other operand's key), one of whose edges cannot reach i?"""
    can = None
    for g, op, side_idx, sides in cmps:
        if g not in dom.get(i, ()) or g == i:
            continue
        keys = [src_key(b, s, defs) for s in sides]
        if op == 'IsEmpty':
            # x.is_empty() rejected  =>  len(x) >= 1 ; matches a use of x.len() on the same receiver
            recv = root_recv(b, sides[0], defs)
            if not (a_key[0] == 'call' and a_key[1] in ('len', 'remaining') and a_key[2] == recv and (need_const or 0) <= 1):
                continue
            other = ('const', 1)
        else:
            if a_key not in keys:
                continue
            other = keys[1 - keys.index(a_key)]
        if need_const is not None and op != 'IsEmpty':
            if other[0] == 'const' and op in ('Eq', 'Ne') and other[1] == 0 and need_const <= 1:
                pass
            elif other[0] == 'const' and op not in ('Eq', 'Ne') and other[1] + (1 if op in ('Gt', 'Le') else 0) >= need_const:
                pass
            else:
                continue
        if can is None:
            can = b.can_reach({i})
        if any(j not in can for j, _ in b.succ(g)):
            return g
    return None


ZERO = {'k': {'ty': 'usize', 'v': 0}}


def all_cmps(b, defs):
    """All switches on a direct comparison: (block, op, _, [operand a, operand b]).  Also: `match x { 0 => .., _ => .. }`
    (a switch on the value itself with an explicit 0 arm) and `x.is_empty()` tests, both read as a comparison of x / len(x) with 0."""
    out = []
    for g, t in b.switches():
        k, v = resolve_value(b, t['o'], defs)
        if k == 'rv' and v['k'] == 'un' and v['op'] == 'Not':
            k, v = resolve_value(b, v['o'][0], defs)
        if k == 'rv' and v['k'] == 'bin' and v['op'] in ('Lt', 'Le', 'Gt', 'Ge', 'Eq', 'Ne'):
            out.append((g, v['op'], 0, v['o']))
        elif k == 'call' and v['f'].get('fn', '').endswith(('::is_empty',)) and v['args']:
            out.append((g, 'IsEmpty', 0, [v['args'][0], ZERO]))
        elif t.get('ty') in ('u8', 'u16', 'u32', 'u64', 'usize') and any(val == 0 for val, _ in t['targets']):
            out.append((g, 'Eq', 0, [t['o'], ZERO]))
    return out


def const_eval(b, o, defs, depth=0):
    """Value of an operand that is a compile-time constant expression over integer literals (checked-arithmetic pairs included)."""
    if depth > 8:
        return None
    if 'k' in o:
        return o['k'].get('v')
    if 'l' not in o:
        return None
    d = defs.get(o['l'])
    if d is None or d[1].get('k') == 'call':
        return None
    r = d[1]['r']
    pr = o['pr']
    if r['k'] == 'use' and not pr:
        return const_eval(b, r['o'][0], defs, depth + 1)
    if r['k'] == 'cast' and r['ck'] == 'IntToInt' and not pr:
        return const_eval(b, r['o'][0], defs, depth + 1)
    if r['k'] == 'bin' and (not pr or pr == ['.0']):
        a = const_eval(b, r['o'][0], defs, depth + 1)
        c = const_eval(b, r['o'][1], defs, depth + 1)
        if a is None or c is None:
            return None
        op = r['op'].replace('WithOverflow', '').replace('Unchecked', '')
        try:
            return {'Add': a + c, 'Sub': a - c, 'Mul': a * c, 'Shl': a << c if 0 <= c < 256 else None, 'Shr': a >> c if 0 <= c < 256 else None,
                    'BitAnd': a & c, 'BitOr': a | c, 'BitXor': a ^ c, 'Div': a // c if c else None, 'Rem': a % c if c else None}.get(op)
        except Exception:
            return None
    return None


def accumulator_local(b, l, defs_all, depth=0):
    """A usize/u64 local that only ever holds sums of bounded values: every assignment is a constant, a bounded value, or
    (itself | bounded) + (itself | bounded)."""
    ty = b.r['locals'][l]['ty']
    if ty not in ('usize', 'u64'):
        return False
    defs1 = single_defs(b)
    assigns = [s for blk in b.blocks if not blk['c'] for s in blk['s'] if s['d']['l'] == l and not s['d']['pr']]
    if not assigns:
        return False
    for s in assigns:
        r = s['r']
        if r['k'] == 'use':
            o = r['o'][0]
            if 'k' in o:
                continue
            if o.get('pr') == ['.0']:
                d = defs1.get(o['l'])
                if d is not None and d[1].get('k') != 'call' and d[1]['r']['k'] == 'bin' and d[1]['r']['op'] in ('AddWithOverflow', 'Add'):
                    if all((x.get('l') == l and not x.get('pr')) or narrow_value(b, x, defs1) for x in d[1]['r']['o']):
                        continue
            if narrow_value(b, o, defs1):
                continue
            return False
        elif r['k'] == 'bin' and r['op'] in ('Add', 'AddWithOverflow'):
            if all((x.get('l') == l and not x.get('pr')) or narrow_value(b, x, defs1) for x in r['o']):
                continue
            return False
        else:
            return False
    return True


def field_types(f):
    """`Struct.field` / `Enum::Variant.field` -> type string lookup for the zone analysis (cached on the fact base)."""
    ft = getattr(f, '_field_table', None)
    if ft is None:
        import zones
        ft = zones.field_table(f)
        f._field_table = ft
    return ft.get


def calibration(ctx, P):
    """The discharger is exercised on every run against the calibration crate selftest/zonecases (compiled with the same driver,
    never executed): every site of an `ok_*` function must be discharged, and every `bad_*` function (which can panic for some
    argument) must keep at least one undischarged site.  A discharger that became unsound or lost its power fails the check."""
    import run, facts as factsmod, core
    here = os.path.dirname(os.path.dirname(os.path.abspath(__file__)))
    try:
        f = factsmod.load(run.extract_aux(os.path.join(here, 'selftest', 'zonecases'), 'zonecases'))
    except Exception as e:
        ctx.violation(P + ':panic:calibration', 'R-panic', 'calibration crate could not be analysed (fail closed): %s' % (e,), fail_closed=True)
        return
    fty = field_types(f)
    nok = nbad = 0
    wrong = []
    for p, r in sorted(f.bodies.items()):
        name = p.split('::')[-1]
        if not name.startswith(('ok_', 'bad_')):
            continue
        b = core.B(r)
        defs = single_defs(b)
        cmps = all_cmps(b, defs)
        dom = b.dominators()
        ks = keyed_sites(b)
        res = [discharge(b, i, kind, detail, t, defs, cmps, dom, fty) for key, i, kind, detail, t in ks]
        allok = all(res)
        if name.startswith('ok_'):
            nok += 1
            if not allok or not ks:
                wrong.append(name)
        else:
            nbad += 1
            if allok:
                wrong.append(name)
    ctx.check(P + ':panic:calibration', 'R-panic',
              'discharger calibrated: all sites of %d safe functions discharged, %d functions that can panic keep an undischarged site' % (nok, nbad),
              not wrong, count=nok + nbad, missing=('wrong verdict on: ' + ', '.join(wrong)) if wrong else None)
    ctx.floor(P + ':panic:calibration:floor', 'calibration cases', nok + nbad, 90)


SOUND_T1 = ('T1-const-arith', 'T1-const-shift', 'T1-full-range', 'T1-const-range-on-array')


def zone_of(b, defs, field_ty=None):
    """Zone analysis of the body, computed once per body object."""
    a = getattr(b, '_zone', None)
    if a is None:
        import zones
        a = zones.analyse(b, defs, field_ty)
        b._zone = a
    return a


def discharge(b, i, kind, detail, t, defs, cmps, dom, field_ty=None):
    """Name of the argument that discharges the site, or None.

    Z-zone: the zone analysis (engine/zones.py) proves that the assert / precondition holds in every state reaching the site.
    T1-*:   constant arithmetic, constant shift amount, full range, constant range on a fixed-size array (syntactic, exact).
    T4-*:   an addition / multiplication of values that are each bounded far below the 64-bit result type (lengths of in-memory
            objects, widened <=32-bit integers, sums of those): cannot overflow on a machine whose address space is 64 bit.
    The former syntactic guard tactics (T2-len-guard, T3-min, T3-mod-index, T4-guarded-sub, T1-const-divisor, T1-masked-shift)
    were removed: the calibration crate selftest/zonecases shows each of them accepting a site that can panic."""
    old = _syntactic(b, i, kind, detail, t, defs, cmps, dom)
    if old in SOUND_T1:
        return old
    try:
        z = zone_of(b, defs, field_ty).prove_site(i, kind, detail, t)
    except Exception:
        z = None
    if z:
        return 'Z-zone'
    if old in ('T4-width', 'T4-length-accumulator') and kind == 'assert' and detail in ('Overflow(Add)', 'Overflow(Mul)'):
        # the result type must be 64 bit wide for the width argument
        for s in b.blocks[i]['s']:
            if s['r']['k'] == 'bin' and s['r']['op'].startswith(('Add', 'Mul')):
                ty = b.r['locals'][s['d']['l']]['ty']
                if re.match(r'\((usize|u64|u128), bool\)$', ty or ''):
                    return old
    return None


def _syntactic(b, i, kind, detail, t, defs, cmps, dom):
    """The pre-zone syntactic tactics; only the exact T1 ones and the 64-bit width arguments are still used by discharge()."""
    if kind == 'assert' and detail.startswith('Overflow(') and all(const_eval(b, o, defs) is not None for o in t['o']):
        return 'T1-const-arith'
    if kind == 'assert' and detail in ('Overflow(Shl)', 'Overflow(Shr)') and len(t['o']) > 1 and const_eval(b, t['o'][1], defs) is not None:
        return 'T1-const-shift'
    if kind == 'assert' and detail == 'Overflow(Add)':
        ops = t['o']
        def acc_or_narrow(o):
            return narrow_value(b, o, defs) or ('l' in o and not o['pr'] and accumulator_local(b, o['l'], defs))
        if all(acc_or_narrow(o) for o in ops):
            return 'T4-length-accumulator'
    if kind == 'assert':
        if detail in ('Overflow(Shl)', 'Overflow(Shr)'):
            # the asserted condition is `amount < bits`
            rhs = t['o'][1] if len(t['o']) > 1 else None
            if rhs is not None and resolve_value(b, rhs, defs)[0] == 'const':
                return 'T1-const-shift'
            if rhs is not None and narrow_value(b, rhs, defs):
                k, v = resolve_value(b, rhs, defs)
                # masked amounts (x & 0x1F) are below the width
                if k == 'rv' and v['k'] == 'bin' and v['op'] == 'BitAnd':
                    return 'T1-masked-shift'
        if detail in ('Overflow(Add)', 'Overflow(Mul)'):
            ty = None
            if all(narrow_value(b, o, defs) for o in t['o']):
                # result type must be at least 64 bit wide for the width argument
                for s in b.blocks[i]['s']:
                    if s['r']['k'] == 'bin' and s['r']['op'].startswith(('Add', 'Mul')):
                        ty = b.r['locals'][s['d']['l']]['ty']
                if ty and re.match(r'\((usize|u64|i64|u128), bool\)$', ty):
                    return 'T4-width'
        if detail == 'Overflow(Sub)':
            a, c = t['o']
            ka = src_key(b, a, defs)
            kc = src_key(b, c, defs)
            need = kc[1] if kc[0] == 'const' else None
            g = guarded_by_cmp(b, i, ka, need, defs, cmps, dom) if need is not None else None
            if g is not None:
                return 'T4-guarded-sub'
            if need is None:
                # a - b guarded by a comparison between a and b
                for g2, op, _, sides in cmps:
                    if g2 in dom.get(i, ()) and g2 != i:
                        ks = [src_key(b, s, defs) for s in sides]
                        if ka in ks and kc in ks:
                            return 'T4-guarded-sub'
                # len - min(len, x) shapes
                k2, v2 = resolve_value(b, c, defs)
                if k2 == 'call' and re.search(r'cmp::Ord::min$|cmp::min$', v2['f'].get('fn', '')):
                    return 'T3-min'
        if detail == 'BoundsCheck':
            ln, idx = t['o']
            kidx = src_key(b, idx, defs)
            if kidx[0] == 'const':
                klen = src_key(b, ln, defs)
                if guarded_by_cmp(b, i, klen, kidx[1] + 1, defs, cmps, dom) is not None:
                    return 'T2-len-guard'
                for g2, op, _, sides in cmps:
                    if g2 in dom.get(i, ()) and g2 != i:
                        ks = [src_key(b, s, defs) for s in sides]
                        if any(k[0] == 'const' and k[1] > kidx[1] - 1 for k in ks) and any(k[0] in ('call', 'place') for k in ks):
                            return 'T2-len-guard'
            k2, v2 = resolve_value(b, idx, defs)
            if k2 == 'rv' and v2['k'] == 'bin' and v2['op'] in ('Rem', 'BitAnd'):
                return 'T3-mod-index'
        if detail in ('DivisionByZero', 'RemainderByZero'):
            d = t['o'][0]
            if resolve_value(b, d, defs)[0] == 'const':
                return 'T1-const-divisor'
    if kind == 'call' and detail in ('index[usize]',) and len(t['args']) > 1:
        ci = const_eval(b, t['args'][1], defs)
        if ci is not None:
            klen = ('call', 'len', root_recv(b, t['args'][0], defs))
            if guarded_by_cmp(b, i, klen, ci + 1, defs, cmps, dom) is not None:
                return 'T2-len-guard'
    if kind == 'call' and detail.startswith('index[') and len(t['args']) > 1:
        # constant range / index into a fixed-size array `[T; N]` (receiver type or impl self type): bounds <= N
        tys = [t['f'].get('selfty') or '']
        a0 = t['args'][0]
        if 'l' in a0:
            tys.append(b.r['locals'][a0['l']]['ty'])
            k0, v0 = resolve_value(b, a0, defs)
            if k0 == 'rv' and v0['k'] == 'ref' and 'l' in v0['p'] and not [x for x in v0['p']['pr'] if x != '*']:
                tys.append(b.r['locals'][v0['p']['l']]['ty'])
        n_arr = None
        for ty in tys:
            m = re.match(r"^&?(?:'\w+ )?(?:mut )?\[[^;\]]+; (\d+)\]$", ty or '')
            if m:
                n_arr = int(m.group(1))
        if n_arr is not None:
            k2, v2 = resolve_value(b, t['args'][1], defs)
            bounds = None
            if k2 == 'const':
                bounds = [v2 + 1]
            elif k2 == 'rv' and v2['k'] == 'agg':
                cs = [resolve_value(b, o, defs) for o in v2['o']]
                if cs and all(c[0] == 'const' for c in cs):
                    bounds = [c[1] for c in cs]
                    if 'Inclusive' in str(v2.get('adt', '')):
                        bounds = [x + 1 for x in bounds]
            if bounds is not None and max(bounds) <= n_arr and bounds == sorted(bounds):
                return 'T1-const-range-on-array'
    if kind == 'call':
        if detail.startswith('index[') or detail in ('split_at', 'split_at_mut', 'split_to', 'split_off', 'advance', 'truncate', 'copy_to_slice'):
            # bound derived from min(.., len) or from a length of the same buffer
            for a in t['args'][1:]:
                og = b.operand_origins(a)
                if has_origin(og, r'call:.*(cmp::Ord::min|cmp::min)$'):
                    return 'T3-min'
            if detail == 'index[RangeFull]':
                return 'T1-full-range'
            # constant range end guarded by a dominating length comparison
            for a in t['args'][1:]:
                k2, v2 = resolve_value(b, a, defs)
                if k2 == 'rv' and v2['k'] == 'agg' and v2.get('adt', '').endswith(('ops::RangeTo', 'ops::Range', 'ops::RangeFrom', 'ops::RangeInclusive', 'ops::RangeToInclusive')):
                    consts = [resolve_value(b, o, defs) for o in v2['o']]
                    if all(c[0] == 'const' for c in consts) and consts:
                        need = max(c[1] for c in consts)
                        for g2, op, _, sides in cmps:
                            if g2 in dom.get(i, ()) and g2 != i:
                                ks = [src_key(b, s, defs) for s in sides]
                                if any(k[0] == 'const' and k[1] >= need for k in ks) and any(k[0] == 'call' and k[1] in ('len', 'remaining') for k in ks):
                                    return 'T2-len-guard'
    return None


GUARDISH = re.compile(r'^(call:.*(::len|is_empty|remaining|has_remaining|checked_\w+|key_size|block_size|nonce_size|tag_size|iv_size|digest_size|fixed_encoding_len|write_len|::get|::first|::last|split_first|split_last|try_into|try_from|position|::min)$'
                      r'|op:(Lt|Le|Gt|Ge|Eq|Ne)$|op:Len$|len$)')
ROOTISH = re.compile(r'^(field:|param:)')
RATCHET_KINDS = re.compile(r'^(index\[|copy_from_slice|split_at|split_to|split_off|advance|truncate|from_slice|remove|insert|get_u|put_slice|BoundsCheck|Overflow\(Sub\)|DivisionByZero|RemainderByZero)')


def related_guards(b, i, t, dom=None):
    """Number of switches on every path to site block i (entry-dominating) that have an edge which cannot reach i, whose
    condition is length-like / an ordering comparison and shares a root (parameter or field) with the operands of the site.
    Used as a ratchet for baseline sites: a reviewed site must not lose a related dominating guard."""
    ops = list(t.get('args') or []) + list(t.get('o') or [])
    so = set()
    for o in ops:
        so |= set(x for x in b.operand_origins(o) if ROOTISH.match(x))
    if b.r.get('impl_self') and any(x.startswith('field:') for x in so):
        so.discard('param:1')      # `self`: relate through the field, not through the receiver as a whole
    if not so:
        return 0
    can = b.can_reach({i})
    n = 0
    for g, tt in b.switches():
        if g == i or g not in can:
            continue
        if all(j in can for j, _ in b.succ(g)):
            continue
        # every path from entry to i passes g  <=>  i unreachable once g is removed
        if b.find_path(0, {i}, removed=frozenset([g])) is not None:
            continue
        og = b.switch_origins(g)
        if not any(GUARDISH.match(x) for x in og):
            continue
        if so & set(x for x in og if ROOTISH.match(x)):
            n += 1
    return n


def load_baseline_guards():
    out = {}
    try:
        for line in open(BASELINE):
            line = line.rstrip('\n')
            if not line or line.startswith('#'):
                continue
            parts = line.split(' || ')
            for x in parts[2:]:
                if x.startswith('guards>='):
                    out[parts[0]] = int(x[8:])
    except FileNotFoundError:
        pass
    return out


def load_baseline():
    base = {}
    try:
        for line in open(BASELINE):
            line = line.rstrip('\n')
            if not line or line.startswith('#'):
                continue
            parts = line.split(' || ')
            base[parts[0]] = parts[1] if len(parts) > 1 else ''
    except FileNotFoundError:
        pass
    return base


def classify(b, i, kind, detail, t):
    """Coarse reason class used when (re)generating the baseline."""
    if kind == 'call' and detail == 'panic':
        mac = t.get('mac') or []
        if any(m.startswith('unreachable') for m in mac):
            return 'explicit unreachable!() — state/representation invariant'
        if any('unimplemented' in m or 'todo' in m for m in mac):
            return 'explicit unimplemented!()'
        if any(m in ('assert', 'assert_eq', 'assert_ne') for m in mac):
            return 'explicit assert!()'
        return 'explicit panic!()'
    if kind == 'call' and detail in ('expect', 'unwrap', 'expect_err', 'unwrap_err'):
        return 'expect() on a value the surrounding code constructs'
    if kind == 'call' and detail.startswith('index['):
        return 'slice index/range: bound established by surrounding length logic (not locally provable)'
    if kind == 'call':
        return 'buffer primitive with a length precondition (%s)' % detail
    if detail.startswith('Overflow'):
        return 'integer arithmetic on lengths/counters (not locally provable)'
    if detail == 'BoundsCheck':
        return 'array/slice index (not locally provable)'
    return detail


# -- loops that pull from a source must be able to leave at end of input --------------------------------------------------

PULL = re.compile(r'(BufRead::(read_line|read_until|fill_buf)|io::Read::read|util::fill_buffer(_bytes)?)$')


def _mentions(x, locs):
    """Does the operand / rvalue / place mention one of the locals?"""
    if isinstance(x, dict):
        if 'l' in x and x['l'] in locs and 'k' not in x:
            return True
        return any(_mentions(v, locs) for v in x.values())
    if isinstance(x, list):
        return any(_mentions(v, locs) for v in x)
    return False


def forward_from(b, start_local):
    """Locals data-dependent on `start_local` through assignments and call results (not through out-parameters)."""
    locs = {start_local}
    changed = True
    while changed:
        changed = False
        for blk in b.blocks:
            if blk['c']:
                continue
            for s in blk['s']:
                d = s['d']['l']
                if d not in locs and _mentions(s['r'], locs):
                    locs.add(d)
                    changed = True
            t = blk['t']
            if t['k'] == 'call' and t['d']['l'] not in locs and _mentions(t['args'], locs):
                locs.add(t['d']['l'])
                changed = True
    return locs


COPY_CALLS = re.compile(r'(ops::Try::branch|Result::<.*>::(unwrap|expect|unwrap_or_default)|Option::<.*>::(unwrap|expect)|ops::Deref::deref|\[T\]::(len|is_empty)|<impl \[T\]>::(len|is_empty)|Buf::(remaining|has_remaining)|str::(len|is_empty)|BytesMut::(len|is_empty)|cmp::Ord::min|cmp::min)$')


def copies_of(b, start_local):
    """Locals that hold the pull result itself, a projection of it (Ok.0 / Continue.0 / Some.0), or its length / emptiness —
    no arithmetic on it."""
    locs = {start_local}
    changed = True
    while changed:
        changed = False
        for blk in b.blocks:
            if blk['c']:
                continue
            for s in blk['s']:
                d, r = s['d'], s['r']
                if d['l'] in locs or d['pr']:
                    continue
                if r['k'] in ('use', 'cast', 'ref', 'len') or (r['k'] == 'un' and r.get('op') == 'Not'):
                    if _mentions(r, locs):
                        locs.add(d['l'])
                        changed = True
            t = blk['t']
            if t['k'] == 'call' and t['d']['l'] not in locs and COPY_CALLS.search(t['f'].get('fn', '') or '') and _mentions(t['args'][:1], locs):
                locs.add(t['d']['l'])
                changed = True
    return locs


def pull_loops(b):
    """[(loop blocks, [pull call blocks], ok)] for the natural loops (CFG SCCs) that call a source-pulling function.  ok: the loop
    has an exit that is taken on a direct test of the pull result (its count compared with something, or its emptiness) — either the
    test's own edge leaves the loop, or a value chosen under that test (one level of control dependence) decides a later exit."""
    import callgraph
    from rules.common import single_defs, resolve_value, enum_switch_info
    edges = {i: set(j for j, _ in b.succ(i)) for i in range(len(b.blocks)) if not b.blocks[i]['c']}
    defs = None
    out = []
    for comp in callgraph.sccs(edges):
        if len(comp) == 1 and comp[0] not in edges.get(comp[0], ()):
            continue
        cs = set(comp)
        pulls = [i for i in comp if b.blocks[i]['t']['k'] == 'call' and PULL.search(b.blocks[i]['t']['f'].get('fn', '') or '')]
        if not pulls:
            continue
        defs = defs or single_defs(b)
        cp = set()
        for i in pulls:
            cp |= copies_of(b, b.blocks[i]['t']['d']['l'])
        tests = []
        for i in comp:
            t = b.blocks[i]['t']
            if t['k'] != 'switch':
                continue
            info = enum_switch_info(b, i)
            if info and (info[0].endswith('Result') or info[0].endswith('ControlFlow')):
                continue          # Ok/Err: leaves on an error only
            k, v = resolve_value(b, t['o'], defs)
            if k == 'rv' and v['k'] == 'un':
                k, v = resolve_value(b, v['o'][0], defs)
            direct = ('l' in t['o'] and t['o']['l'] in cp) or (k == 'rv' and v['k'] == 'bin' and v['op'] in ('Eq', 'Ne', 'Lt', 'Le', 'Gt', 'Ge') and any(_mentions(o, cp) for o in v['o'])) \
                or (k == 'call' and COPY_CALLS.search(v['f'].get('fn', '') or '') and _mentions(v['args'][:1], cp)) or (k == 'place' and _mentions(v, cp))
            if direct:
                tests.append(i)
        ok = any(any(j not in cs for j, _ in b.succ(i)) for i in tests)
        if not ok:
            # one level of control dependence: a local assigned on one side only of a direct test decides an exit
            chosen = set()
            for i in tests:
                succs = [j for j, _ in b.succ(i)]
                regions = [b.reach_from([j], removed=frozenset([i])) & cs for j in succs]
                common = set.intersection(*regions) if regions else set()
                for reg in regions:
                    for bi in reg - common:
                        for st in b.blocks[bi]['s']:
                            chosen.add(st['d']['l'])
            dep = set()
            for l in chosen:
                dep |= forward_from(b, l)
            for i in comp:
                t = b.blocks[i]['t']
                if t['k'] == 'switch' and 'l' in t['o'] and t['o']['l'] in dep and any(j not in cs for j, _ in b.succ(i)):
                    ok = True
        if not ok:
            # state-machine loops (`loop { match mem::replace(self, Error) { A => { pull; *self = B } B => return .. } }`): every
            # way from the pull back to the loop head stores a new state into *self, so the same arm is not re-entered by this
            # loop; termination is by the finite state order, not by the pull result
            head_back = True
            for pb in pulls:
                stores = [i for i in comp for st in b.blocks[i]['s'] if st['d']['l'] == 1 and st['d']['pr'] == ['*'] and st['r']['k'] in ('agg', 'use')]
                stores += [i for i in comp if b.blocks[i]['t']['k'] == 'call' and re.search(r'mem::replace$', b.blocks[i]['t']['f'].get('fn', '') or '')
                           and False]
                nxt = b.blocks[pb]['t']['t']
                # can we come back to the pull block without passing a state store?
                if b.find_path(nxt, {pb}, removed=frozenset(x for x in stores if x != pb)) is not None:
                    head_back = False
            ok = head_back and bool(pulls)
        out.append((comp, pulls, ok))
    return out
