"""C04 Hostile input never panics (DESIGN §5 C04): R-panic inventory + tactics + reviewed baseline, R-rec recursion inventory."""
import os, re, collections
import callgraph
import core
from rules import panics
from rules.common import single_defs, site, call_blocks, direct_cmp_switches, resolve_value
from rules.common import ok_exit_blocks as ok_exits
from core import guard_switches, must_pass, fmt_path, has_origin

EXPLANATION = ("Decides structural clauses of C04, not panic freedom: every panic-capable site of the library (explicit panics, "
               "unwrap/expect, MIR bounds/overflow/division asserts, slice indexing and buffer primitives with length preconditions) is "
               "either discharged - by exact constant arguments (constant arithmetic / shift / range), by the zone analysis of the function body "
               "(difference-bound abstract interpretation over integers, lengths and pure size accessors; engine/zones.py, calibrated on every "
               "run against selftest/zonecases), or by the 64-bit width argument for sums of in-memory lengths - or listed by exact key in the "
               "reviewed baseline — a new undischarged site, or a site whose guard disappeared, is reported with function and line; "
               "recursion (resolved call graph SCCs) must equal the reviewed inventory, and the data-driven one (embedded signatures) must "
               "carry a rejecting depth guard with depth + 1 passed down. Not decided: loop termination, stack depth in octets, panics inside "
               "dependency crates.")
ASSUMPTIONS = ["baseline entries are reviewed by class, not proven (DESIGN §8)", "the zone analysis trusts the call axioms listed in engine/zones.py (std / bytes length semantics; pure size accessors of the crate)"]

REC_REVIEWED = {
    'embedded-signature parsing': (['packet::signature::de::embedded_sig', 'packet::signature::de::subpacket', 'packet::signature::de::subpackets',
                                    'packet::signature::de::v4_parser', 'packet::signature::de::v6_parser',
                                    'packet::signature::types::Signature::try_from_reader_nested', 'packet::signature::types::Signature::try_from_reader'],
                                   'data-driven: one level per nested Embedded Signature subpacket; must be bounded by an explicit depth guard (checked below)'),
    'signature serialisation': (['packet::signature::config::SignatureConfig::to_writer_v4_v6', 'packet::signature::ser::'],
                                'follows the nesting of an already parsed / constructed value (bounded by the parse-side guard)'),
    'message layer accessors': (["composed::message::types::Message::<'a>::", "composed::message::reader::signed_many::SignatureManyReader::<'a>::",
                                 "composed::message::types::MessageReader::<'_>::", 'composed::message::types::MessageParts::into_message'],
                                'one level per message layer; layers are created only by explicit decompress()/decrypt() calls of the caller (signature packets are collected in one layer)'),
}


PASSTHROUGH = re.compile(r'(ops::Try::branch|BytesMut::freeze|convert::Into::into|convert::From::from|Result::<.*>::map|Result::<.*>::map_err|Option::<.*>::map|ops::Deref::deref|Clone::clone|Bytes::from|ToOwned::to_owned)$')


def producer_call(b, o, defs, depth=0):
    """The call that produced the value of operand o, following single-definition copies, `?` (Try::branch + Continue.0) and
    value-preserving wrappers (freeze, into, map); None when the chain leaves single definitions."""
    for _ in range(12):
        if 'l' not in o:
            return None
        d = defs.get(o['l'])
        if d is None:
            return None
        x = d[1]
        if x.get('k') == 'call':
            fn = x['f'].get('fn', '') or ''
            if PASSTHROUGH.search(fn) and x['args']:
                o = x['args'][0]
                continue
            return x
        r = x['r']
        if r['k'] in ('use', 'cast') and 'l' in r['o'][0]:
            o = dict(l=r['o'][0]['l'], pr=[])
            continue
        if r['k'] in ('ref', 'copyderef'):
            o = dict(l=r['p']['l'], pr=[])
            continue
        return None
    return None


def focus(ctx, P):
    """Guards that live in a caller of the panic-capable site (R-panic's local tactics cannot see them)."""
    from rules.common import rdom
    b = ctx.body('crypto::aead::decryptor::StreamDecryptor::<R>::new_rfc9580')
    if b is not None:
        # aead_setup_rfc9580 computes nonce_size() - 8: unsupported AEAD ids (nonce_size 0) must be rejected first
        rdom(ctx, P + ':focus:aead-setup-after-support-check', b, call_blocks(b, r'aead::aead_setup_rfc9580$'), [r'call:.*AeadAlgorithm::tag_size$'],
             'new_rfc9580 rejects unsupported AEAD algorithms (tag_size() == None) before aead_setup_rfc9580 uses nonce_size() - 8')
    b = ctx.body('composed::message::reader::sym_encrypted_protected::SymEncryptedProtectedDataReader::<R>::decrypt')
    if b is not None:
        # AeadAlgorithm::decrypt_in_place slices key[..16|24|32]: the key length must have been compared with the cipher's key size
        from rules.c15 import container_of
        from rules.common import arm_context
        dom = b.dominators()
        sinks = call_blocks(b, r'replace_with_and_return')
        n = 0
        for cont in ('GnuPG-AEAD', 'SEIPDv2'):
            ss = [x for x in sinks if container_of(arm_context(b, x, dom)) == cont]
            n += len(ss)
            rdom(ctx, P + ':focus:aead-key-length-checked:%s' % cont, b, ss, [r'call:.*SymmetricKeyAlgorithm::key_size$', r'call:.*len$'],
                 'the %s stream decryptor (which slices key[..key_size]) is built only after session_key.len() == sym_alg.key_size() was checked on every path' % cont)
        ctx.floor(P + ':focus:aead-key-length:floor', 'AEAD decryptor construction sites', n, 2)

    # the same key is sliced when the decryptor is built directly (public constructor): the GnuPG variant uses the session key itself
    # as the AEAD key (no HKDF that fixes its size), so the constructor has to compare its length with the cipher's key size
    b = ctx.body('crypto::aead::decryptor::StreamDecryptor::<R>::new_gnupg')
    if b is not None:
        rdom(ctx, P + ':focus:gnupg-constructor-checks-key-length', b, call_blocks(b, r'aead_setup_gnupg$'), [r'call:.*SymmetricKeyAlgorithm::key_size$', r'call:.*len$|op:PtrMetadata'],
             'StreamDecryptor::new_gnupg compares key.len() with sym_alg.key_size() before the key is used as the AEAD key (which is sliced [..key_size])')
    # finalize_data splits the buffer at `len - MDC_LEN`: every protected arm of fill_data has refused a shorter buffer before (shared with C03)
    fb = ctx.body('crypto::sym::decryptor::StreamDecryptorInner::<M, R>::fill_data')
    if fb is not None:
        from rules import c03
        c03.holdback(ctx, P, fb)
    # `legacy_key_id` panics for a v2/v3 key that is not RSA ("invalid key constructed"): the constructor's refusal has to cover V2 as
    # it covers V3 - more generally no version test may separate the two (shared with C05)
    from rules import c05
    c05.v2_judged_as_v3(ctx, P)
    # the IV / nonce of a locked secret key is handed to CFB / AEAD primitives that assert its exact size
    # (`GenericArray::from_slice`): the parser must size it by the algorithm's own accessor, never by a length octet of the packet
    b = ctx.body('types::params::secret::parse_secret_fields')
    if b is not None:
        n = 0
        for var, acc in (('LegacyCfb', 'block_size'), ('Aead', 'nonce_size'), ('Cfb', 'block_size'), ('MalleableCfb', 'block_size')):
            for i, k, st in b.constructs(r'types::s2k::S2kParams$|S2kParams$', var):
                flds = st['r'].get('fields') or []
                ops = dict(zip(flds, st['r']['o']))
                o = ops.get('nonce') or ops.get('iv')
                if o is None:
                    continue
                n += 1
                # definition chain (not the flow-insensitive origins: the reader is an out-parameter of every read)
                defs = single_defs(b)
                prod = producer_call(b, o, defs)
                sized = loose = False
                if prod is not None:
                    fn = prod['f'].get('fn', '') or ''
                    if fn.endswith('BufReadParsing::take_bytes') and len(prod['args']) > 1:
                        sz = producer_call(b, prod['args'][1], defs)
                        sized = sz is not None and (sz['f'].get('fn', '') or '').endswith('::' + acc)
                    loose = not fn.endswith('BufReadParsing::take_bytes')
                ctx.check('%s:focus:secret-iv-sized-by-algorithm:%s' % (P, var), 'R-dom',
                          'the %s of S2kParams::%s is read with exactly %s() octets (the primitives assert that size)' % ('nonce' if 'nonce' in ops else 'iv', var, acc),
                          sized and not loose, function=b.path, site=site(b, i),
                          missing=None if (sized and not loose) else 'the field is not (only) sized by %s(): a length chosen by the packet reaches GenericArray::from_slice in the cipher and panics while unlocking' % acc)
        ctx.floor(P + ':focus:secret-iv:floor', 'IV / nonce fields of parsed secret-key protection parameters', n, 4)
    # SecretKey::to_mpi recomputes u = p^-1 mod q and `expect`s it: the constructor from parsed material has to establish that it exists
    b = ctx.body('crypto::rsa::SecretKey::try_from_mpi')
    if b is not None:
        rdom(ctx, P + ':focus:rsa-secret-primes-invertible', b, ok_exits(b), [r'call:.*ModInverse::mod_inverse$|call:.*mod_inverse$'],
             'crypto::rsa::SecretKey::try_from_mpi accepts parsed p, q only after p^-1 mod q was found to exist (serialisation unwraps it)')
    # `overflow the stack`: reading recurses through every compression / encryption layer (dynamic dispatch through the nested
    # readers, invisible to the call-graph SCCs of R-rec), so opening a layer must be bounded: the single function through which
    # from_compressed / from_edata build the next message compares the reader's nesting depth with a constant and rejects
    cands = [p for p in ctx.f.bodies if p.endswith('::internal_from_bytes')]
    b = ctx.body(cands[0]) if cands else ctx.body("composed::message::types::Message::<'a>::internal_from_bytes")
    if b is not None:
        sinks = call_blocks(b, r'PacketParser::<.*>::new$|PacketParser::new$')
        gs = [g for g, op, _ in direct_cmp_switches(b, lambda k, v: k == 'call' and re.search(r'MessageReader.*::\w*depth\w*$', v['f'].get('fn', '')) is not None, lambda c: isinstance(c, int) and 1 <= c <= 1024)]
        ok, wit = must_pass(b, sinks, gs) if (sinks and gs) else (False, None)
        users = sorted(p for p, r in ctx.f.bodies.items() if ctx.wrap(r).calls(re.escape(b.path) + '$'))
        ctx.check(P + ':focus:nesting-depth-bounded', 'R-dom', 'a compression / encryption layer is opened only after the nesting depth of the reader was compared with a constant bound (reading recurses through all layers)',
                  ok and any('from_compressed' in u for u in users) and any('from_edata' in u for u in users), function=b.path, guards=[site(b, g) for g in gs], users=users,
                  witness=fmt_path(b, wit) if wit else None)
        # ... and that depth is a count of LAYERS: the function that counts steps from a container to the reader directly inside it.
        # A step function that itself descends again (`r.get_mut().get_mut().get_mut()` ending in the stepper's own recursion) skips a
        # layer whenever the inner reader is a container too, so a chain of encrypted containers never reaches the bound.
        for dp, dr in sorted(ctx.f.bodies.items()):
            if not re.search(r'MessageReader.*::\w*depth\w*$', dp) or '::tests::' in dp:
                continue
            db = ctx.wrap(dr)
            steppers = sorted(set((t['f'].get('res') or t['f'].get('fn')) for i, t in db.calls() if re.search(r'MessageReader.*::get_mut$', (t['f'].get('res') or t['f'].get('fn') or ''))))
            multi = []
            for sp in steppers:
                sb = ctx.body(sp)
                if sb is not None and any((t['f'].get('res') or t['f'].get('fn')) == sp for i, t in sb.calls()):
                    multi.append(sp)
            ctx.check(P + ':focus:nesting-depth-counts-every-layer', 'R-table', 'the nesting depth counter advances one container layer per count (its step function does not descend again by itself)',
                      not multi, function=dp, table=steppers,
                      missing=None if not multi else '%s calls itself on the inner reader: for Edata(Edata(..)) one count covers two layers and a chain of encrypted containers is never refused' % multi[0])
    # a public Result-returning function does not `expect` / `unwrap` one of its own Option parameters: None is the caller's input
    n = 0
    for p, r in sorted(ctx.f.bodies.items()):
        if r.get('derived') or '::tests::' in p or r['kind'] == 'Closure' or r.get('vis') != 'pub' or not r.get('reachable'):
            continue
        if not re.match(r'(std::result::Result|std::io::Result)<', r['locals'][0]['ty']):
            continue
        opts = [k for k in range(1, r['nargs'] + 1) if r['locals'][k]['ty'].startswith('std::option::Option<')]
        if not opts:
            continue
        b = ctx.wrap(r)
        n += 1
        defs = single_defs(b)
        bad = []
        for i, t in b.calls(r'Option::<T>::(expect|unwrap)$'):
            o = t['args'][0]
            for _ in range(4):
                if 'l' not in o or o['pr'] or o['l'] <= r['nargs']:
                    break
                d = defs.get(o['l'])
                if d is None or d[1].get('k') == 'call' or d[1]['r']['k'] != 'use':
                    break
                o = d[1]['r']['o'][0]
            if 'l' in o and not o['pr'] and o['l'] in opts:
                bad.append(site(b, i))
        ctx.check('%s:focus:no-expect-on-option-parameter:%s' % (P, p), 'R-panic', '%s returns an error for a None argument instead of unwrapping it' % p.split('::')[-1],
                  not bad, function=p, missing=bad or None)
    ctx.floor(P + ':focus:option-parameter:floor', 'public Result-returning functions with an Option parameter', n, 5)


def run(ctx):
    P = 'C04'
    r_panic(ctx, P)
    panics.calibration(ctx, P)
    r_loop(ctx, P)
    r_rec(ctx, P)
    focus(ctx, P)
    poisoned_state_returns_error(ctx, P)
    from rules import c10
    c10.checksum_token_bounded(ctx, P)
    from rules import stream
    from rules import casts
    casts.narrow_sums(ctx, P)
    stream.eof_kind_protocol(ctx, P)
    stream.eof_helper_not_leaked(ctx, P)


def r_panic(ctx, P, only=None, floors=(1800, 1400, 70)):
    """only: regex on the function path (another property re-using the inventory for its own modules)."""
    base = panics.load_baseline()
    base_guards = panics.load_baseline_guards()
    field_ty = panics.field_types(ctx.f)
    ratchet = 0
    tot = 0
    by_tactic = collections.Counter()
    in_base = 0
    seen = set()
    nfun = 0
    for p, r in sorted(ctx.f.bodies.items()):
        if panics.skip_body(p, r) or (only and not re.search(only, p)):
            continue
        b = ctx.wrap(r)
        ks = panics.keyed_sites(b)
        if not ks:
            ctx.functions.discard(p)
            continue
        nfun += 1
        defs = single_defs(b)
        cmps = panics.all_cmps(b, defs)
        dom = b.dominators()
        for key, i, kind, detail, t in ks:
            tot += 1
            seen.add(key)
            d = panics.discharge(b, i, kind, detail, t, defs, cmps, dom, field_ty)
            if d:
                by_tactic[d] += 1
                continue
            if key in base:
                in_base += 1
                need = base_guards.get(key, 0)
                if need:
                    have = panics.related_guards(b, i, t)
                    ratchet += 1
                    if have < need:
                        ctx.violation('%s:panic-guard:%s' % (P, key), 'R-panic',
                                      'reviewed panic-capable site (%s %s) in %s is still dominated by the %d related length/ordering guard(s) it had when it was reviewed' % (kind, detail, p, need),
                                      function=p, site=site(b, i),
                                      missing='%d related dominating guard(s) found, %d when reviewed: a check protecting this site was removed or no longer covers every path' % (have, need))
                continue
            ctx.violation('%s:panic:%s' % (P, key), 'R-panic',
                          'panic-capable site (%s %s) in %s is neither discharged by a tactic nor in the reviewed baseline' % (kind, detail, p),
                          function=p, site=site(b, i),
                          missing='no dominating rejecting length/zero comparison on the same value was found; add the guard, or review and list the key in rules/reviewed/panic_baseline.txt')
    ctx.ok(P + ':panic:inventory', 'R-panic', 'all %d panic-capable sites are discharged (%d by tactic) or reviewed (%d in baseline)' % (tot, sum(by_tactic.values()), in_base), count=tot)
    ctx.floor(P + ':panic:floor:sites', 'panic-capable sites inventoried', tot, floors[0])
    ctx.floor(P + ':panic:floor:ratchet', 'reviewed sites whose related dominating guards are re-counted', ratchet, floors[2])
    ctx.floor(P + ':panic:floor:tactics', 'sites discharged by tactics', sum(by_tactic.values()), floors[1])
    ctx.extra = dict(getattr(ctx, 'extra', {}), panic_sites=tot, panic_by_tactic=dict(by_tactic), panic_in_baseline=in_base,
                     panic_baseline_stale=len(set(base) - seen), panic_functions=nfun)


LOOP_REVIEWED = {
    'composed::message::reader::sym_encrypted_protected::SymEncryptedProtectedDataReader::<R>::fill_inner':
        'both arms that pull (BodyRaw, BodyDecryptor) set should_return = true, a constant merged over the match arms (infeasible CFG path '
        'pull -> not should_return); the loop repeats only for Source::Init, which replace_with turns into BodyRaw',
}


def r_loop(ctx, P):
    """`... or loop forever`: every loop that pulls from an input source (read / read_line / fill_buf / fill_buffer) has an exit
    branch whose condition depends on the RESULT of that pull (0 octets / empty buffer / error), not merely on data the call wrote
    through an out-parameter: at end of input the loop can leave."""
    n = 0
    for p, r in sorted(ctx.f.bodies.items()):
        if panics.skip_body(p, r):
            continue
        b = ctx.wrap(r)
        loops = panics.pull_loops(b)
        if not loops:
            continue
        ctx.functions.add(p)
        for k, (comp, pulls, ok) in enumerate(loops):
            n += 1
            if not ok and p in LOOP_REVIEWED:
                ctx.ok('%s:loop:eof-exit:%s#%d' % (P, p, k), 'R-loop', 'reviewed: ' + LOOP_REVIEWED[p], function=p, site=site(b, pulls[0]), feature='reviewed')
                continue
            ctx.check('%s:loop:eof-exit:%s#%d' % (P, p, k), 'R-loop', 'the input-pulling loop in %s can leave on the result of its pull (end of input terminates it)' % p.split('::')[-1],
                      ok, function=p, site=site(b, pulls[0]),
                      missing=None if ok else 'no exit branch of the loop depends on the value returned by the pull call: at end of input the loop spins forever')
    ctx.floor(P + ':loop:floor', 'loops that pull from an input source', n, 10)


def r_rec(ctx, P):
    comps = [c for c in resolved_components(ctx.f) if not any('::tests::' in x or 'arbitrary' in x.lower() for x in c)]
    unknown = []
    for c in comps:
        ok = False
        for name, (members, why) in REC_REVIEWED.items():
            if all(any(m == x or (m.endswith('::') and x.startswith(m)) for m in members) for x in c):
                ok = True
        if not ok:
            unknown.append(c)
    ctx.check(P + ':rec:inventory', 'R-rec', 'every recursive component of the resolved call graph is in the reviewed inventory (%d components)' % len(comps),
              not unknown, missing=unknown[:3] or None, count=len(comps), table={k: v[1] for k, v in REC_REVIEWED.items()})
    ctx.floor(P + ':rec:floor', 'recursive components found', len(comps), 3)
    embedded_depth_guard(ctx, P)


def embedded_depth_guard(ctx, P):
    """Depth guard on the data-driven recursion through Embedded Signature subpackets (shared with C19: work and memory of the
    recursion are bounded by the input only if its depth is)."""
    b = ctx.body('packet::signature::de::embedded_sig')
    if b is not None:
        rec = b.calls(r'Signature::try_from_reader(_nested)?$')
        sinks = [i for i, t in rec]
        defs = single_defs(b)
        guards = []
        for g, op, _ in direct_cmp_switches(b, lambda k, v: k == 'place' and v.get('l', 0) in range(1, b.r['nargs'] + 1) and not v.get('pr'), None):
            can = b.can_reach(set(sinks))
            if any(j not in can for j, _ in b.succ(g)):
                guards.append(g)
        ok, wit = must_pass(b, sinks, guards) if sinks else (False, None)
        inc = False
        for i, t in rec:
            for a in t['args']:
                k, v = resolve_value(b, a, defs)
                if k == 'place' and v.get('pr') == ['.0']:
                    d = defs.get(v['l'])
                    if d is not None and d[1].get('k') != 'call' and d[1]['r']['k'] == 'bin' and d[1]['r']['op'].startswith('Add') \
                            and any('k' in o and o['k'].get('v') == 1 for o in d[1]['r']['o']):
                        inc = True
                if k == 'rv' and v['k'] == 'bin' and v['op'].startswith('Add') and any('k' in o and o['k'].get('v') == 1 for o in v['o']):
                    inc = True
        ctx.check(P + ':rec:embedded-signature-depth-guard', 'R-dom',
                  'the recursive parse of an embedded signature is dominated by a rejecting comparison of a depth parameter with a constant, and passes depth + 1 down',
                  ok and bool(guards) and inc, function=b.path, site=site(b, sinks[0]) if sinks else None, guards=[site(b, g) for g in guards],
                  missing=None if (ok and guards and inc) else 'unbounded recursion: a signature packet with ~1000 nested Embedded Signature subpackets overflows a 2 MiB stack')


def resolved_components(f):
    bodies = f.bodies
    edges = {p: set() for p in bodies}
    for p, r in bodies.items():
        if r.get('parent') in bodies:
            edges[r['parent']].add(p)
        for blk in r['blocks']:
            if blk['c']:
                continue
            t = blk['t']
            if t['k'] != 'call' or 'fn' not in t['f']:
                continue
            fn = t['f']
            if fn.get('res') in bodies:
                edges[p].add(fn['res'])
            elif fn['fn'] in bodies and not fn.get('trait'):
                edges[p].add(fn['fn'])
    out = []
    for comp in callgraph.sccs(edges):
        if len(comp) > 1 or comp[0] in edges.get(comp[0], ()):
            out.append(sorted(comp))
    return sorted(out)


def poison_variants(ctx):
    """(enum path, variant) pairs that are installed as a placeholder while the real state is moved out:
    `mem::replace(&mut state, Enum::Unit)` / `replace_with*(.., || Enum::Unit, ..)`."""
    out = {}
    for p, r in ctx.f.bodies.items():
        if r.get('derived'):
            continue
        b = core.B(r)
        for i, t in b.calls(r'mem::replace$|mem::take$'):
            if len(t['args']) < 2:
                continue
            for x in b.operand_origins(t['args'][1]):
                m = re.match(r'agg:([\w:<>\', ]+)::(\w+)$', x)
                if m:
                    out.setdefault((m.group(1), m.group(2)), []).append(p)
        if r['kind'] == 'Closure' and re.search(r'replace_with', ' '.join(t['f'].get('fn', '') for _, t in core.B(ctx.f.bodies.get(p.rsplit('::{closure', 1)[0], r)).calls())):
            for i, k, s in b.stmts(lambda s: s['d']['l'] == 0 and not s['d']['pr'] and s['r']['k'] == 'agg' and s['r'].get('ak') == 'adt' and not s['r']['o']):
                out.setdefault((s['r']['adt'], s['r']['v']), []).append(p)
    # keep unit variants of crate enums only
    keep = {}
    for (adt, v), ps in out.items():
        a = ctx.f.adts.get(adt)
        if a and any(x['n'] == v and not x['fields'] for x in a['vars']) and len(a['vars']) > 1:
            keep[(adt, v)] = sorted(set(ps))
    return keep


def poisoned_state_returns_error(ctx, P):
    """A reader that fails while its state is moved out stays in the placeholder ("poisoned") state.  A function that can report an
    error (it returns a Result) must do so when it finds the placeholder: an explicit panic there turns `the first read failed on
    hostile input, the caller read again` into a crash.  (Accessors that return references cannot report an error and are not
    covered; their panics are reviewed baseline entries.)"""
    from rules.common import arm_context
    poison_full = poison_variants(ctx)
    poison = {(a.split('::')[-1], v): ps for (a, v), ps in poison_full.items()}   # arm_context reports the enum's short name
    ctx.floor(P + ':poison:floor:variants', 'placeholder variants installed while a state is moved out', len(poison), 8)
    RES = r'(std::result::Result|std::io::Result|core::result::Result)<'
    PANIC = r'panicking::panic_fmt$|panicking::panic$|panicking::panic_explicit$|panicking::panic_display$'
    # Result-returning functions that report the placeholder as an error (and do not panic on it): a `self.g()?` that dominates a
    # later placeholder arm makes that arm unreachable
    reports = set()
    for p, r in ctx.f.bodies.items():
        if r.get('derived') or '::tests::' in p or not re.match(RES, r['locals'][0]['ty']):
            continue
        b = core.B(r)
        dom = b.dominators()
        errs_ = [i for i, k, s in b.constructs(r'std::result::Result$', 'Err')] + [i for i, t in b.calls(r'io::Error::other$|io::Error::new$')]
        if any(len(vs) == 1 and (a, vs[0]) in poison for i in errs_ for a, vs in arm_context(b, i, dom)) and \
           not any(len(vs) == 1 and (a, vs[0]) in poison for i, t in b.calls(PANIC) for a, vs in arm_context(b, i, dom)):
            reports.add(p)
    n = 0
    for p, r in sorted(ctx.f.bodies.items()):
        if r.get('derived') or '::tests::' in p:
            continue
        rty = r['locals'][0]['ty']
        b = None
        if not re.match(r'(std::result::Result|std::io::Result|core::result::Result)<', rty):
            continue
        b = core.B(r)
        ps = [i for i, t in b.calls(r'panicking::panic_fmt$|panicking::panic$|panicking::panic_explicit$|panicking::panic_display$')]
        if not ps:
            continue
        dom = b.dominators()
        bad = []
        checked = [j for j, t in b.calls() if (t['f'].get('res') in reports or t['f'].get('fn') in reports) and t['args'] and has_origin(b.operand_origins(t['args'][0]), r'param:1$')]
        for i in ps:
            if any(j in dom.get(i, ()) for j in checked):
                continue   # a dominating `self.<reports placeholder>()?` has already returned the error
            for a, vs in arm_context(b, i, dom):
                if len(vs) == 1 and (a, vs[0]) in poison:
                    bad.append((i, a.split('::')[-1], vs[0]))
        if not bad:
            continue
        ctx.functions.add(p)
        for k, (i, a, v) in enumerate(bad):
            n += 1
            ctx.violation('%s:poison:returns-error:%s:%s::%s#%d' % (P, p, a, v, k + 1), 'R-sib',
                          'a Result-returning function reports the placeholder state %s::%s as an error instead of panicking' % (a, v),
                          function=p, site=site(b, i), installed_by=poison[(a, v)][:3],
                          missing='explicit panic in the %s::%s arm of a function that returns %s' % (a, v, rty.split('<')[0]))
    # one level down: a Result-returning function that calls, outside any arm that excludes the placeholder, a helper which panics
    # on the placeholder (the helper cannot report an error, its caller can)
    panics_on = {}
    for p, r in ctx.f.bodies.items():
        if r.get('derived') or '::tests::' in p:
            continue
        b = core.B(r)
        ps = [i for i, t in b.calls(r'panicking::panic_fmt$|panicking::panic$|panicking::panic_explicit$|panicking::panic_display$')]
        if not ps:
            continue
        dom = b.dominators()
        for i in ps:
            for a, vs in arm_context(b, i, dom):
                if len(vs) == 1 and (a, vs[0]) in poison:
                    panics_on[p] = (a, vs[0])
    for p, r in sorted(ctx.f.bodies.items()):
        if r.get('derived') or '::tests::' in p or not re.match(r'(std::result::Result|std::io::Result)<', r['locals'][0]['ty']):
            continue
        b = core.B(r)
        dom = None
        k = 0
        for i, t in b.calls():
            g = t['f'].get('res') or t['f'].get('fn')
            g = g if g in panics_on else t['f'].get('fn')
            if g not in panics_on or g == p:
                continue
            if re.match(r'(std::result::Result|std::io::Result)<', ctx.f.bodies[g]['locals'][0]['ty']):
                continue   # reported at the callee itself
            a, v = panics_on[g]
            # same object: the receiver is this function's own self
            if not t['args'] or not has_origin(b.operand_origins(t['args'][0]), r'param:1$'):
                continue
            if not re.search(r'[<:]%s\b' % re.escape(a), r['locals'][1]['ty']) and a not in p:
                continue
            dom = dom or b.dominators()
            if any(aa == a and v not in vs for aa, vs in arm_context(b, i, dom)):
                continue
            k += 1
            n += 1
            ctx.functions.add(p)
            ctx.violation('%s:poison:returns-error:%s:via:%s#%d' % (P, p, g.split('::')[-1], k), 'R-sib',
                          'a Result-returning function does not call, on a possibly poisoned state, a helper that panics on the placeholder %s::%s' % (a, v),
                          function=p, site=site(b, i), callee=g, missing='%s panics on %s::%s and is called before the placeholder is checked' % (g.split('::')[-1], a, v))
    # public entry points: a `pub` Result-returning method can be called in any state, also after an earlier call failed.  It must
    # not reach (through helpers that cannot report an error) a panic on the placeholder of its own object.
    trans = dict((p, (a, v, [p])) for p, (a, v) in panics_on.items())
    changed = True
    while changed:
        changed = False
        for p, r in ctx.f.bodies.items():
            if p in trans or r.get('derived') or '::tests::' in p or r['kind'] == 'Closure' or re.match(RES, r['locals'][0]['ty']):
                continue
            b = core.B(r)
            for i, t in b.calls():
                g = t['f'].get('res') if t['f'].get('res') in trans else t['f'].get('fn')
                if g in trans and t['args'] and has_origin(b.operand_origins(t['args'][0]), r'param:1$'):
                    trans[p] = (trans[g][0], trans[g][1], trans[g][2] + [p])
                    changed = True
                    break
    npub = 0
    for p, r in sorted(ctx.f.bodies.items()):
        if r.get('derived') or '::tests::' in p or r['kind'] == 'Closure' or not re.match(RES, r['locals'][0]['ty']):
            continue
        if r.get('vis') != 'pub' or not r.get('reachable'):
            continue
        b = core.B(r)
        dom = None
        k = 0
        for i, t in b.calls():
            g = t['f'].get('res') if t['f'].get('res') in trans else t['f'].get('fn')
            if g not in trans or g == p or re.match(RES, ctx.f.bodies[g]['locals'][0]['ty']):
                continue
            if not t['args'] or not has_origin(b.operand_origins(t['args'][0]), r'param:1$'):
                continue
            a, v, chain = trans[g]
            dom = dom or b.dominators()
            if any(aa == a and v not in vs for aa, vs in arm_context(b, i, dom)):
                continue
            checked = [j for j, tt in b.calls() if (tt['f'].get('res') in reports or tt['f'].get('fn') in reports) and tt['args'] and has_origin(b.operand_origins(tt['args'][0]), r'param:1$')]
            if any(j in dom.get(i, ()) for j in checked):
                continue
            k += 1
            npub += 1
            ctx.functions.add(p)
            ctx.violation('%s:poison:pub-entry:%s:via:%s#%d' % (P, p, g.split('::')[-1], k), 'R-sib',
                          'a public Result-returning method does not reach a panic on the placeholder %s::%s of its own object through helpers that cannot report an error' % (a, v),
                          function=p, site=site(b, i), chain=[x.split('::')[-1] for x in reversed(chain)],
                          missing='%s -> %s panics when the object already failed; the caller gets a panic instead of Err' % (p.split('::')[-1], ' -> '.join(x.split('::')[-1] for x in reversed(chain))))
    ctx.extra = dict(getattr(ctx, 'extra', {}), poison_panicky_helpers=len(trans))
    # the functions that already handle the placeholder with an error are the sibling reference
    good = 0
    for p, r in sorted(ctx.f.bodies.items()):
        if r.get('derived') or '::tests::' in p or not re.match(r'(std::result::Result|std::io::Result)<', r['locals'][0]['ty']):
            continue
        b = core.B(r)
        dom = None
        for i, k, s in b.constructs(r'std::result::Result$', 'Err'):
            dom = dom or b.dominators()
            if any(len(vs) == 1 and (a, vs[0]) in poison for a, vs in arm_context(b, i, dom)):
                good += 1
                break
        else:
            for i, t in b.calls(r'io::Error::other$|io::Error::new$'):
                dom = dom or b.dominators()
                if any(len(vs) == 1 and (a, vs[0]) in poison for a, vs in arm_context(b, i, dom)):
                    good += 1
                    break
    for p in sorted(reports):
        ctx.functions.add(p)
        ctx.ok('%s:poison:reports:%s' % (P, p), 'R-sib', 'reports the placeholder state as an error', function=p)
    ctx.check(P + ':poison:reference', 'R-sib', 'functions that report a placeholder state as an error (sibling reference for the rule)', good >= 3, count=good, panicking_sites=n)
