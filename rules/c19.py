"""C19 Bounded work and memory (DESIGN §5 C19) — memory / ceilings only; time is not decided."""
import os, re, collections
from rules import panics, errs
from rules.common import (rdom, call_blocks, ok_exit_blocks, site, single_defs, resolve_value, direct_cmp_switches, is_call_to)
from rules.c04 import resolved_components, REC_REVIEWED
from core import guard_switches, must_pass, fmt_path, has_origin

HERE = os.path.dirname(os.path.abspath(__file__))

EXPLANATION = ("Decides structural clauses of C19, not allocator totals or run time: no allocation size (Vec/BytesMut/String with_capacity, "
               "vec![x; n], resize, reserve, zeroed) derives — through the function's own dataflow or through a tainted parameter propagated over "
               "the crate's call graph — from a declared 32-bit length (read_be_u32, PacketLength / SubpacketLength payloads) unless it passes "
               "min(_, ..) or a dominating rejecting comparison with a constant; the documented ceilings are rejecting guards (Argon2 t, p <= 32, "
               "m_enc <= 31, m <= 2 GiB before hash_password_into; the dearmor accumulation limit inside the accumulation loop; the check-first "
               "SEIPDv1 size limit); stream buffers are sized by constants or validated enums; recursion is inventoried (shared with C04). "
               "Not decided: linear time, behaviour on 10^5 repeated packets.")
ASSUMPTIONS = ["values that derive only from u8/u16 reads are bounded by type", "origin analysis is flow-insensitive (may over-taint: reviewed table for exceptions)"]

SINK = r'Vec::<.*>::with_capacity$|vec::from_elem$|BytesMut::(with_capacity|zeroed|reserve|resize)$|Vec::<.*>::(reserve|reserve_exact|resize)$|String::with_capacity$|VecDeque::<.*>::with_capacity$'
TAINT = r'call:.*(read_be_u32|read_le_u32|read_be_u64)$|field:PacketLength::(Fixed|Partial)\.0$|call:.*PacketLength::maybe_len$|field:SubpacketLength::Five\.0$|call:.*SubpacketLength::len$|call:.*PacketHeader::packet_length$' \
        r'|field:.*\.(max_message_size|max_buffer_limit)$'      # a configured CEILING is no better than a declared length: memory follows the input, not the limit
SANITISER = r'call:.*(cmp::Ord::min|cmp::min)$'


def size_arg(t):
    fn = t['f']['fn'].split('::')[-1]
    if fn in ('from_elem', 'reserve', 'resize', 'reserve_exact'):
        return t['args'][1] if len(t['args']) > 1 else None
    return t['args'][0] if t['args'] else None


def run(ctx):
    P = 'C19'
    r_alloc(ctx, P)
    no_allocation_by_a_ceiling(ctx, P)
    option_setters_keep_the_other_settings(ctx, P)
    r_quad(ctx, P)
    r_rescan(ctx, P)
    discarded_buffers(ctx, P)
    ceilings(ctx, P)
    rec(ctx, P)


SHIFTING = r'Vec::<.*>::(remove|insert|drain|splice)$|VecDeque::<.*>::(remove|insert)$|String::(remove|insert|insert_str|drain|replace_range)$|BytesMut::unsplit$|<\[T\]>::(rotate_left|rotate_right|copy_within)$|slice::<impl \[T\]>::(rotate_left|rotate_right|copy_within)$'
QUAD_REVIEWED = {
    'crypto::ecc_curve::asn1_der_object_id_val_enc|insert|0': 'base-128 digits of one OID arc (at most 10 for a u64), not input sized',
}


def r_quad(ctx, P):
    """`finishes in time linear in the input`: an operation that shifts the whole buffer (Vec::remove / insert / drain, String::insert,
    BytesMut::unsplit, rotate, copy_within) inside a loop is quadratic in the buffer size.  Every such site in a CFG cycle must be
    reviewed by exact key."""
    import callgraph
    n = 0
    seen = set()
    for p, r in sorted(ctx.f.bodies.items()):
        if panics.skip_body(p, r):
            continue
        b = ctx.wrap(r)
        sites = b.calls(SHIFTING)
        if not sites:
            continue
        edges = {i: set(j for j, _ in b.succ(i)) for i in range(len(b.blocks)) if not b.blocks[i]['c']}
        inloop = set()
        for comp in callgraph.sccs(edges):
            if len(comp) > 1 or comp[0] in edges.get(comp[0], ()):
                inloop |= set(comp)
        cnt = collections.Counter()
        for i, t in sites:
            fn = t['f']['fn'].split('::')[-1]
            key = '%s|%s|%d' % (p, fn, cnt[fn])
            cnt[fn] += 1
            n += 1
            if i not in inloop:
                continue
            ctx.functions.add(p)
            seen.add(key)
            if key in QUAD_REVIEWED:
                ctx.ok('%s:S19-4:shift-in-loop:%s' % (P, key), 'R-quad', 'reviewed: ' + QUAD_REVIEWED[key], function=p, site=site(b, i))
            else:
                ctx.violation('%s:S19-4:shift-in-loop:%s' % (P, key), 'R-quad', 'a buffer-shifting operation (%s) runs inside a loop in %s: quadratic in the buffer size' % (fn, p),
                              function=p, site=site(b, i), missing='use an index / split / VecDeque::pop_front instead, or review and list the key in QUAD_REVIEWED')
    ctx.floor(P + ':S19-4:floor', 'buffer-shifting call sites examined', n, 10)
    stale = sorted(set(QUAD_REVIEWED) - seen)
    ctx.check(P + ':S19-4:reviewed-fresh', 'R-quad', 'every reviewed shifting site still exists', not stale, missing=stale or None)


def _root_place(b, o, defs, depth=0):
    """The local (and field path) an operand borrows from, looking through refs, copies, deref / as_slice / iter calls."""
    while depth < 10 and 'l' in o:
        pr = tuple(x for x in o['pr'] if x != '*')
        if pr:
            return (o['l'], pr)
        d = defs.get(o['l'])
        if d is None:
            return (o['l'], ())
        if d[1].get('k') == 'call':
            if re.search(r'Deref::deref$|DerefMut::deref_mut$|AsRef::as_ref$|Vec::<.*>::as_slice$|::iter$|::iter_mut$', d[1]['f'].get('fn', '')) and d[1]['args']:
                o = d[1]['args'][0]
                depth += 1
                continue
            return (o['l'], ())
        r = d[1]['r']
        if r['k'] in ('ref', 'copyderef'):
            o = r['p']
            depth += 1
            continue
        if r['k'] == 'use' and 'l' in r['o'][0]:
            o = r['o'][0]
            depth += 1
            continue
        return (o['l'], ())
    return None


def r_rescan(ctx, P):
    """`finishes in time linear in the input`: a loop that appends one element per input item to a container and, inside the same
    cycle, walks that whole container (for / iter / any / all / find / contains) does work quadratic in the number of items.
    Expected count on the tree: zero."""
    import callgraph
    n = 0
    for p, r in sorted(ctx.f.bodies.items()):
        if panics.skip_body(p, r):
            continue
        b = ctx.wrap(r)
        pushes = b.calls(r'Vec::<T, A>::(push|extend_from_slice|insert)$|VecDeque::<T, A>::push_back$|BTreeMap::<.*>::insert$|HashMap::<.*>::insert$|string::String::(push_str|push)$')
        # a line / delimiter read appends to the buffer it is given (second / third argument)
        for i, t in b.calls(r'io::BufRead::(read_line|read_until)$|io::Read::read_to_string$'):
            k = 2 if t['f']['fn'].endswith('read_until') else 1
            if len(t['args']) > k:
                pushes.append((i, dict(t, args=[t['args'][k]])))
        if not pushes:
            ctx.functions.discard(p)
            continue
        # whole-container walks; searches of a string for a pattern walk all of it on a miss (`starts_with` / `ends_with` do not)
        its = b.calls(r'IntoIterator::into_iter$|\]>::(iter|contains|iter_mut|to_vec|concat)$|Vec::<T, A>::iter$|Clone::clone$'
                      r'|^str::(rfind|find|contains|matches|rmatches|match_indices|split|rsplit|lines|chars|char_indices|bytes|trim\w*|to_owned|to_string|replace\w*)$|memchr::\w+$')
        edges = {i: set(j for j, _ in b.succ(i)) for i in range(len(b.blocks)) if not b.blocks[i]['c']}
        comps = [set(c) for c in callgraph.sccs(edges) if len(c) > 1]
        if not comps:
            ctx.functions.discard(p)
            continue
        defs = single_defs(b)
        bad = []
        for i, t in pushes:
            n += 1
            bp = _root_place(b, t['args'][0], defs)
            if bp is None:
                continue
            for c in comps:
                if i not in c:
                    continue
                for j, tt in its:
                    if j in c and tt['args'] and _root_place(b, tt['args'][0], defs) == bp:
                        bad.append('%s is appended to at %s and walked at %s inside the same loop' % ('_%d%s' % (bp[0], ''.join(bp[1])), site(b, i), site(b, j)))
        # the walk may be hidden in a parser handed in by the caller: `loop { buf.extend_from_slice(chunk); parser(&buf) }` re-parses
        # everything accumulated so far on every chunk
        for i, t in pushes:
            bp = _root_place(b, t['args'][0], defs)
            if bp is None:
                continue
            for c in comps:
                if i not in c:
                    continue
                for j, tt in b.calls(r'ops::Fn(Mut|Once)?::call(_mut|_once)?$'):
                    if j not in c or len(tt['args']) < 2:
                        continue
                    k, v = resolve_value(b, tt['args'][1], defs)
                    ops = v['o'] if (k == 'rv' and v['k'] == 'agg') else []
                    if any('l' in o and _root_place(b, o, defs) == bp for o in ops):
                        bad.append('%s is appended to at %s and handed whole to a caller-supplied function at %s inside the same loop' % ('_%d%s' % (bp[0], ''.join(bp[1])), site(b, i), site(b, j)))
        ctx.check('%s:S19-4:no-rescan-of-accumulator:%s' % (P, p), 'R-quad', 'no loop of %s walks the container it is appending to (work stays linear in the number of items)' % p.split('::')[-1],
                  not bad, function=p, missing=sorted(set(bad)) or None)
    ctx.floor(P + ':S19-4:rescan-floor', 'append sites inside functions with loops', n, 40)


def _mentions(x, l):
    if isinstance(x, dict):
        if x.get('l') == l and 'pr' in x:
            return True
        return any(_mentions(v, l) for v in x.values())
    if isinstance(x, list):
        return any(_mentions(v, l) for v in x)
    return False


def discarded_buffers(ctx, P):
    """`streaming a message keeps a bounded buffer regardless of message size`: reading a whole packet into a fresh vector that is
    never looked at afterwards (only to skip the packet) buffers an attacker-sized body for nothing.  Every read_to_end /
    read_to_string whose destination is a local buffer must have that buffer used afterwards."""
    n = 0
    ordn = {}
    for p, r in sorted(ctx.f.bodies.items()):
        if panics.skip_body(p, r):
            continue
        b = ctx.wrap(r)
        calls = b.calls(r'io::Read::read_to_end$|io::Read::read_to_string$')
        if not calls:
            ctx.functions.discard(p)
            continue
        defs = single_defs(b)
        for i, t in calls:
            if len(t['args']) < 2:
                continue
            # follow the (re)borrow chain to the buffer itself
            o = t['args'][1]
            chain = set()
            root = None
            for _ in range(6):
                if 'l' not in o:
                    break
                d = defs.get(o['l'])
                if d is None or d[1].get('k') == 'call':
                    root = o['l'] if not [x for x in o['pr'] if x != '*'] else None
                    break
                rr = d[1]['r']
                if rr['k'] == 'ref':
                    chain.add(o['l'])
                    o = rr['p']
                    if [x for x in o['pr'] if x != '*']:
                        root = None
                        break
                    if not o['pr']:
                        root = o['l']
                        break
                    continue
                if rr['k'] == 'use' and 'l' in rr['o'][0]:
                    chain.add(o['l'])
                    o = rr['o'][0]
                    continue
                break
            if root is None or root == 0 or root <= r.get('nargs', 0):
                continue   # a caller's buffer, a field, or the return value: used by definition
            d = defs.get(root)
            if d is None or d[1].get('k') != 'call' or not re.search(r'(Vec::<.*>|String|BytesMut)::(new|with_capacity)$', d[1]['f'].get('fn', '')):
                continue
            n += 1
            ordn[p] = ordn.get(p, 0) + 1
            uses = 0
            for bi, blk in enumerate(b.blocks):
                if blk['c']:
                    continue
                for s_ in blk['s']:
                    if s_['d']['l'] in chain and not s_['d']['pr']:
                        continue
                    if _mentions(s_['r'], root):
                        uses += 1
                tt = blk['t']
                if tt['k'] == 'call' and tt is not t and _mentions(tt['args'], root):
                    uses += 1
                if tt['k'] == 'switch' and _mentions(tt['o'], root):
                    uses += 1
            ctx.check('%s:S19-5:buffer-read-is-used:%s#%d' % (P, p, ordn[p]), 'R-alloc', 'the buffer filled by read_to_end in %s is used afterwards (a body is not buffered whole just to be skipped)' % p.split('::')[-1],
                      uses > 0, function=p, site=site(b, i), missing=None if uses else 'the vector is filled with the whole body and dropped: drain the reader instead (io::copy to io::sink, or the reader\'s drain())')
    ctx.floor(P + ':S19-5:floor', 'read_to_end calls into a local buffer', n, 4)


def r_alloc(ctx, P):
    f = ctx.f
    bodies = {p: ctx.wrap(r) for p, r in f.bodies.items() if not panics.skip_body(p, r)}
    # tainted parameters: fixpoint over resolved call edges
    tainted = set()   # (fn path, param index 1-based)
    changed = True
    rounds = 0
    callsites = []
    for p, b in bodies.items():
        for i, t in b.calls():
            callee = t['f'].get('res') if t['f'].get('res') in bodies else (t['f'].get('fn') if t['f'].get('fn') in bodies else None)
            if callee:
                callsites.append((p, b, i, t, callee))
    while changed and rounds < 8:
        changed = False
        rounds += 1
        for p, b, i, t, callee in callsites:
            for k, a in enumerate(t['args']):
                if (callee, k + 1) in tainted:
                    continue
                og = b.operand_origins(a)
                if has_origin(og, SANITISER):
                    continue
                tn = has_origin(og, TAINT) or any((p, int(x[6:])) in tainted for x in og if x.startswith('param:'))
                if tn and not is_narrow_type(b, a):
                    # only integer parameters carry a declared length; references to parsed structures are not lengths
                    cty = bodies[callee].r['locals'][k + 1]['ty'] if k + 1 < len(bodies[callee].r['locals']) else ''
                    if re.match(r'^(std::option::Option<)?(usize|u32|u64|i64|isize|u128)>?$', cty):
                        tainted.add((callee, k + 1))
                        changed = True
    # tainted integer FIELDS: a struct field (of integer type) that some constructor / store fills from a declared length or from a
    # tainted parameter carries the declared length to every method of the type (`Take.limit` <- read_take(len))
    import zones
    ftab = zones.field_table(f)
    tainted_fields = {}
    for p, b in bodies.items():
        def note(fname, o, where):
            ty = ftab.get(fname)
            if ty not in ('usize', 'u32', 'u64'):
                return
            og = b.operand_origins(o)
            if has_origin(og, SANITISER):
                return
            if has_origin(og, TAINT) or any((p, int(x[6:])) in tainted for x in og if x.startswith('param:')):
                tainted_fields.setdefault(fname, where)
        for i, blk in enumerate(b.blocks):
            if blk['c']:
                continue
            for st in blk['s']:
                r_ = st['r']
                if r_['k'] == 'agg' and r_.get('ak') == 'adt' and r_.get('fields'):
                    short = r_['adt'].split('::')[-1]
                    q = short if r_['v'] == short else '%s::%s' % (short, r_['v'])
                    for fn_, o in zip(r_['fields'], r_['o']):
                        note('%s.%s' % (q, fn_), o, '%s:%d' % (b.r['file'], st['ln']))
                d = st['d']
                if d['pr'] and d['pr'][-1].startswith('.') and r_['k'] == 'use':
                    note(d['pr'][-1][1:], r_['o'][0], '%s:%d' % (b.r['file'], st['ln']))
    rev = errs.load_reviewed(os.path.join(HERE, 'reviewed', 'alloc_reviewed.txt'))
    n = 0
    seen = set()
    for p, b in sorted(bodies.items()):
        sinks = b.calls(SINK)
        if not sinks:
            ctx.functions.discard(p)
            continue
        defs = single_defs(b)
        adefs = all_defs(b)
        cnt = collections.Counter()
        for i, t in sinks:
            a = size_arg(t)
            if a is None:
                continue
            n += 1
            fn = t['f']['fn'].split('::')[-1]
            key = '%s|%s|%d' % (p, fn, cnt[fn])
            cnt[fn] += 1
            og = b.operand_origins(a)
            src = [x for x in og if re.search(TAINT, x)] + ['param:%d (tainted by a caller)' % int(x[6:]) for x in og if x.startswith('param:') and (p, int(x[6:])) in tainted]
            src += ['%s (filled from a declared length at %s)' % (x, tainted_fields[x[6:]]) for x in og if x.startswith('field:') and x[6:] in tainted_fields]
            kk = '%s:S19-1:alloc:%s' % (P, key)
            if not src or is_narrow_type(b, a):
                ctx.ok(kk, 'R-alloc', 'allocation size in %s does not derive from a declared 32-bit length' % p.split('::')[-1], function=p, site=site(b, i))
                continue
            if has_origin(og, SANITISER) and clamped_on_every_definition(b, a, adefs):
                ctx.ok(kk, 'R-alloc', 'allocation size in %s derives from a declared length but is clamped by min()' % p.split('::')[-1], function=p, site=site(b, i), feature='min')
                continue
            # dominating rejecting comparison of the tainted value with a constant
            dg = [g for g, op, _ in direct_cmp_switches(b, lambda k, v: True, lambda c: True)]
            can = b.can_reach({i})
            dg = [g for g in dg if any(j not in can for j, _ in b.succ(g)) and has_origin(b.switch_origins(g), TAINT + '|param:')]
            ok, wit = must_pass(b, [i], dg)
            if ok and dg:
                ctx.ok(kk, 'R-alloc', 'allocation size in %s derives from a declared length but is dominated by a rejecting comparison with a constant' % p.split('::')[-1],
                       function=p, site=site(b, i), guards=[site(b, g) for g in dg])
                continue
            seen.add(key)
            if key in rev:
                ctx.ok(kk, 'R-alloc', 'reviewed: ' + rev[key], function=p, site=site(b, i))
                continue
            ctx.violation(kk, 'R-alloc', 'allocation in %s is sized by a value that derives from a declared length (%s) without clamp or ceiling' % (p, ', '.join(s.split(':', 1)[-1].split('::')[-1] for s in src[:3])),
                          function=p, site=site(b, i), missing='def-use: size <- %s' % src[:4])
    ctx.floor(P + ':S19-1:floor', 'allocation sinks examined', n, 60)
    ctx.extra = dict(getattr(ctx, 'extra', {}), alloc_tainted_fields=dict(tainted_fields), alloc_sinks=n, tainted_params=sorted('%s#%d' % x for x in tainted)[:60], tainted_param_count=len(tainted))
    # confirmed sanitiser instances must stay
    for path, what in (('parsing_reader::BufReadParsing::take_bytes', 'take_bytes clamps its up-front capacity with min()'),
                       ('packet::signature::de::subpackets', 'subpacket vector capacity is min(len, 32)')):
        b = ctx.body(path)
        if b is None:
            continue
        good = False
        for i, t in b.calls(SINK):
            a = size_arg(t)
            if a is not None and has_origin(b.operand_origins(a), SANITISER):
                good = True
        ctx.check('%s:S19-1:sanitiser:%s' % (P, path.split('::')[-1]), 'R-alloc', what, good, function=path)


def all_defs(b):
    """local -> [(block, statement or call terminator)] for every definition of a projection-free local."""
    d = {}
    for i, blk in enumerate(b.blocks):
        if blk['c']:
            continue
        for s in blk['s']:
            if not s['d']['pr']:
                d.setdefault(s['d']['l'], []).append((i, s))
        t = blk['t']
        if t['k'] == 'call' and not t['d']['pr']:
            d.setdefault(t['d']['l'], []).append((i, t))
    return d


def clamped_on_every_definition(b, o, defs, depth=0, seen=None):
    """Is the value of operand `o` clamped by min() (or a constant / mask) on EVERY definition that reaches it?  The flow-insensitive
    origin set only says that *some* definition went through min(); a local assigned in several match arms needs all of them."""
    seen = seen if seen is not None else set()
    if 'k' in o:
        return True
    if 'l' not in o or o['pr'] or depth > 8:
        og = b.operand_origins(o)
        return has_origin(og, SANITISER) or not has_origin(og, TAINT + '|^param:')
    if o['l'] in seen:
        return True
    seen.add(o['l'])
    ds = defs.get(o['l'])
    if not ds:
        return False if o['l'] <= b.r.get('nargs', 0) else True
    for i, x in ds:
        if x.get('k') == 'call':
            fn = x['f'].get('fn', '')
            if re.search(r'cmp::Ord::min$|cmp::min$', fn):
                continue
            og = set()
            for a in x['args']:
                og |= b.operand_origins(a)
            if has_origin(og, TAINT + '|^param:') and not has_origin(og, SANITISER):
                return False
            if has_origin(og, TAINT + '|^param:') and has_origin(og, SANITISER):
                # clamp somewhere upstream of this call: look through simple conversions only
                if re.search(r'(TryFrom::try_from|TryInto::try_into|From::from|Into::into|Try::branch|Result::<.*>::(unwrap_or|unwrap|expect|map_err)|Option::<.*>::(unwrap_or|unwrap|expect))$', fn) and x['args']:
                    if not clamped_on_every_definition(b, x['args'][0], defs, depth + 1, seen):
                        return False
            continue
        r = x['r']
        if r['k'] in ('use', 'cast'):
            if not clamped_on_every_definition(b, r['o'][0], defs, depth + 1, seen):
                return False
        elif r['k'] == 'bin' and r['op'] in ('BitAnd', 'Rem') and any('k' in oo for oo in r['o']):
            continue
        elif r['k'] == 'bin':
            if not all(clamped_on_every_definition(b, oo, defs, depth + 1, seen) for oo in r['o']):
                return False
        elif 'o' in r:
            if not all(clamped_on_every_definition(b, oo, defs, depth + 1, seen) for oo in r['o']):
                return False
    return True


def is_narrow_type(b, a):
    if 'k' in a:
        return True
    if 'l' in a and not a['pr']:
        return b.r['locals'][a['l']]['ty'] in ('u8', 'u16', 'bool')
    return False


def ceilings(ctx, P):
    b = ctx.body('types::s2k::StringToKey::derive_key')
    if b is not None:
        sinks = call_blocks(b, r'hash_password_into$')
        ctx.floor(P + ':S19-2:argon2:floor', 'Argon2 hash_password_into call in derive_key', len(sinks), 1)
        for nm, spec, cst in (('t', r'field:StringToKey::Argon2\.t$', 32), ('p', r'field:StringToKey::Argon2\.p$', 32), ('m_enc', r'field:StringToKey::Argon2\.m_enc$', 31)):
            gs = [g for g, _ in guard_switches(b, sinks, [spec, r'const:%d:u8$' % cst])]
            ok, wit = must_pass(b, sinks, gs)
            ctx.check('%s:S19-2:argon2:%s' % (P, nm), 'R-dom', 'Argon2 parameter %s is compared with %d (rejecting) before the derivation runs' % (nm, cst), ok and bool(gs), function=b.path,
                      guards=[site(b, g) for g in gs], witness=fmt_path(b, wit) if wit else None)
        gs = [g for g, _ in guard_switches(b, sinks, [r'cdef:.*ARGON2_MEMORY_LIMIT_KIB$|const:2097152:u32$'])]
        # ... compared DIRECTLY: one side of the comparison is the constant itself (not the constant scaled or passed through a call)
        defs = single_defs(b)
        direct = []
        for g in gs:
            k, v = resolve_value(b, b.blocks[g]['t']['o'], defs)
            if k == 'rv' and v['k'] == 'un':
                k, v = resolve_value(b, v['o'][0], defs)
            if k == 'rv' and v['k'] == 'bin' and v['op'] in ('Le', 'Lt', 'Ge', 'Gt'):
                for o in v['o']:
                    kk, vv = resolve_value(b, o, defs)
                    if (kk == 'const' and vv == 2 * 1024 * 1024) or (kk == 'constx' and str(vv.get('cdef', '')).endswith('ARGON2_MEMORY_LIMIT_KIB')):
                        direct.append(g)
        gs = direct
        ok, wit = must_pass(b, sinks, gs)
        ctx.check(P + ':S19-2:argon2:memory', 'R-dom', 'the decoded Argon2 memory size is compared with ARGON2_MEMORY_LIMIT_KIB (rejecting) before the derivation runs', ok and bool(gs), function=b.path)
    c = ctx.f.consts.get('types::s2k::ARGON2_MEMORY_LIMIT_KIB')
    ctx.check(P + ':S19-2:argon2:limit-value', 'R-table', 'ARGON2_MEMORY_LIMIT_KIB == 2 GiB in KiB', c is not None and c['v'] == 2 * 1024 * 1024, table=c and c['v'])
    # dearmor accumulation limit inside the loop
    b = ctx.body('armor::reader::read_from_buf')
    if b is not None:
        ext = call_blocks(b, r'Vec::<.*>::extend_from_slice$')
        defs = single_defs(b)
        gd = []
        # the length compared with the limit is the length of the ACCUMULATOR (the buffer extend_from_slice appends to), taken anew in
        # every iteration - not the size of the first or of the last chunk
        acc = set(_root_place(b, t['args'][0], defs) for i, t in b.calls(r'Vec::<.*>::extend_from_slice$') if t['args'])
        import callgraph as _cg
        _edges = {i: set(j for j, _ in b.succ(i)) for i in range(len(b.blocks)) if not b.blocks[i]['c']}
        _loops = [set(c) for c in _cg.sccs(_edges) if len(c) > 1 and set(c) & set(ext)]
        def acc_len(kind, v):
            if kind != 'call' or not re.search(r'Vec::<.*>::len$|::len$', v['f'].get('fn', '') or '') or not v['args']:
                return False
            blk = next((i for i, t in b.calls() if t is v), None)
            return _root_place(b, v['args'][0], defs) in acc and any(blk in lp for lp in _loops)
        for g, op, side in direct_cmp_switches(b, acc_len, None):
            og = b.switch_origins(g)
            if has_origin(og, r'param:3$'):
                gd.append(g)
        oks = ok_exit_blocks(b)
        can_ok = b.can_reach(set(ext))
        gd = [g for g in gd if any(j not in can_ok for j, _ in b.succ(g))]
        bad = None
        for e in ext:
            nxt = b.blocks[e]['t']['t']
            p_ = b.find_path(nxt, {e}, removed=frozenset(gd))
            if p_ is not None:
                bad = p_
        ok0, _ = must_pass(b, ext, gd)
        ctx.check(P + ':S19-2:dearmor-limit-in-loop', 'R-dom', 'every iteration that grows the dearmor back buffer passes the rejecting `len >= limit` guard (the limit is re-checked inside the loop)',
                  bool(ext) and bool(gd) and bad is None and ok0, function=b.path, guards=[site(b, g) for g in gd], witness=fmt_path(b, bad) if bad else None)
    b = ctx.body('crypto::sym::decryptor::StreamDecryptorInner::<M, R>::fill_data')
    if b is not None:
        gs = guard_switches(b, ok_exit_blocks(b), [r'field:MaybeProtected::ProtectedCheckFirst\.max_message_size$'])
        ctx.check(P + ':S19-2:checkfirst-size-limit', 'R-dom', 'check-first SEIPDv1 decryption has a rejecting branch on max_message_size', bool(gs), function=b.path,
                  guards=[site(b, g) for g, _ in gs])
    for path in ('types::mpi::Mpi::try_from_reader',):
        b = ctx.body(path)
        if b is not None:
            oks = ok_exit_blocks(b)
            gs = guard_switches(b, oks, [r'cdef:.*MAX_EXTERN_MPI_BITS$|const:16384:'])
            ctx.check(P + ':S19-2:mpi-bits-ceiling', 'R-dom', 'externally supplied MPIs above MAX_EXTERN_MPI_BITS are rejected', bool(gs), function=path)
    # S19-3 constants of the stream buffers
    consts = {k: v['v'] for k, v in ctx.f.consts.items() if k.endswith('::BUFFER_SIZE')}
    ctx.check(P + ':S19-3:buffer-constants', 'R-table', 'stream readers use fixed BUFFER_SIZE constants (8 KiB class)', bool(consts) and all(1024 <= v <= 64 * 1024 for v in consts.values()), table=consts)


def rec(ctx, P):
    comps = [c for c in resolved_components(ctx.f) if not any('::tests::' in x or 'arbitrary' in x.lower() for x in c)]
    unknown = []
    for c in comps:
        if not any(all(any(m == x or (m.endswith('::') and x.startswith(m)) for m in members) for x in c) for members, why in REC_REVIEWED.values()):
            unknown.append(c)
    ctx.check(P + ':S19-4:rec-inventory', 'R-rec', 'every recursive component is in the reviewed inventory (shared with C04)', not unknown, missing=unknown[:3] or None, count=len(comps))
    from rules import c04
    c04.embedded_depth_guard(ctx, P)


CEILING = r'field:.*\.(max_message_size|max_buffer_limit)$'


def no_allocation_by_a_ceiling(ctx, P):
    """A configured ceiling (`max_message_size` of the SEIPDv1 check-first mode: 1 GiB by default; the dearmor limit) says how much
    the library is WILLING to buffer, not how much there is: memory has to follow the octets actually read.  A helper whose length
    parameter receives such a ceiling at some call site (`fill_buffer_bytes(source, buffer, max_message_size)`) must not size an
    allocation (`reserve`, `with_capacity`, `resize`, `vec![..; n]`) by that parameter."""
    f = ctx.f
    bodies = {p: ctx.wrap(r) for p, r in f.bodies.items() if not panics.skip_body(p, r)}
    ceiling_params = {}
    for p, b in bodies.items():
        for i, t in b.calls():
            callee = t['f'].get('res') if t['f'].get('res') in bodies else (t['f'].get('fn') if t['f'].get('fn') in bodies else None)
            if not callee:
                continue
            for k, a in enumerate(t['args']):
                if has_origin(b.operand_origins(a), CEILING):
                    cty = bodies[callee].r['locals'][k + 1]['ty'] if k + 1 < len(bodies[callee].r['locals']) else ''
                    if re.match(r'^(std::option::Option<)?(usize|u32|u64)>?$', cty or ''):
                        ceiling_params.setdefault((callee, k + 1), site(b, i))
    n = 0
    for (callee, k), where in sorted(ceiling_params.items()):
        b = bodies[callee]
        n += 1
        bad = []
        for i, t in b.calls(SINK):
            a = size_arg(t)
            if a is not None and has_origin(b.operand_origins(a), r'^param:%d$' % k):
                bad.append(i)
        ctx.check('%s:S19-1:no-allocation-by-ceiling:%s#%d' % (P, callee, k), 'R-alloc', '%s, which is handed a configured ceiling as parameter %d (at %s), sizes no allocation by it' % (callee.split('::')[-1], k, where),
                  not bad, function=callee, site=site(b, bad[0]) if bad else None,
                  missing=None if not bad else 'the allocation at %s is sized by the parameter that carries the ceiling: every call buffers the whole limit (1 GiB by default) whatever the input is' % site(b, bad[0]))
    ctx.floor(P + ':S19-1:ceiling-params:floor', 'helper parameters that receive a configured ceiling', n, 1)


def option_setters_keep_the_other_settings(ctx, P):
    """The SEIPDv1 buffering ceiling is part of `DecryptionOptions` (`seipdv1_read_mode`): "capped by its configured limit" holds only
    if a limit that was configured stays configured.  The by-value setters of the options types (`enable_legacy`, `enable_gnupg_aead`,
    `set_seipdv1_read_mode`, ..) return the options they were given with one field changed: the value they return never takes
    fields from a fresh `new()` / `default()` (which would silently reset the read mode and its ceiling to 1 GiB)."""
    n = 0
    for p, r in sorted(ctx.f.bodies.items()):
        if '::tests::' in p or r['kind'] != 'AssocFn' or r['nargs'] < 1 or r.get('derived'):
            continue
        t0, t1 = r['locals'][0]['ty'] or '', r['locals'][1]['ty'] or ''
        if t0 != t1 or not re.search(r'Options$', t0):
            continue
        b = ctx.wrap(r)
        n += 1
        og = b.operand_origins({'l': 0, 'pr': []})
        fresh = sorted(x for x in og if re.search(r'^call:.*::(new|default)$', x) and t0.split('::')[-1] in x or x.endswith('Default::default'))
        ctx.check('%s:S19-3:option-setter-keeps-settings:%s' % (P, p), 'origin', '%s returns the options it was given (one field changed), not a fresh default' % '::'.join(p.split('::')[-2:]),
                  has_origin(og, r'^param:1$') and not fresh, function=p,
                  missing=None if not fresh else 'the returned options take fields from %s: settings made before this call (the SEIPDv1 read mode and its ceiling) are reset' % fresh[:2])
    ctx.floor(P + ':S19-3:option-setters:floor', 'by-value setters of options types', n, 3)
