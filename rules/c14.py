"""C14 Text canonicalisation is one function — NARROW structural clauses only (DESIGN §11.8)."""
import re
from rules import sig
from rules.common import call_blocks, ok_exit_blocks, site, single_defs, resolve_value
from core import guard_switches, must_pass, fmt_path, has_origin

EXPLANATION = ("Decides narrow structural clauses of C14, not the equality of the three canonicalisers on all inputs (that is a statement about "
               "byte transducers with carry state and needs execution): (1) the streaming hasher's finaliser done() feeds nothing to the digest — "
               "the canonical form consists of input octets and inserted CRs only, so an octet emitted at end of input is an insertion the other "
               "two canonicalisers do not make; (2) the only literals the streaming hasher itself feeds are CR LF, CR and LF; (3) once the carry "
               "`last_was_cr` was consumed at the start of a chunk it is cleared on every path before the scan loop; it is set only on the arm "
               "that handles a CR in the last position of a chunk; (4) every site that canonicalises signed document data selects it by the "
               "signature type being Text and targets CRLF (sign and verify side alike); (5) the in-memory and reader canonicalisers share one "
               "replace_newlines; (6) the streaming hasher copies chunk data only whole or up to the position its scan reported; (7) the window reader "
               "examines the octet carried over from the previous window on every path, holds back only a CR that ends a full window, settles it "
               "with CR, takes it before the window is refilled, and every successful fill goes through cleanup_buffer. Not decided: equality of "
               "the three canonicalisers on all inputs and chunkings.")
ASSUMPTIONS = ["DynDigest::update is the only way octets reach the digest", "memchr-based replace_newlines is the single batch routine"]

NH = 'util::NormalizingHasher::'


def const_bytes(b, o, defs):
    for _ in range(5):
        k, v = resolve_value(b, o, defs)
        if k == 'constx' and 's' in v and v['s'].startswith('b"'):
            return v['s'][2:-1]
        if k == 'rv' and v['k'] == 'ref' and v['p']['pr'] in (['*'], []):
            o = dict(l=v['p']['l'], pr=[], mv=0)
            continue
        if k == 'rv' and v['k'] == 'cast':
            o = v['o'][0]
            continue
        return None
    return None


def hasher_rules(ctx, P):
    b = ctx.body(NH + 'done')
    if b is not None:
        ups = b.calls(r'DynDigest::update$|Digest::update$|Update::update$')
        ctx.check(P + ':hasher:done-emits-nothing', 'R-who', 'NormalizingHasher::done hands the digest back without feeding it any further octet (a lone CR at the end of the data is not turned into CR LF; '
                  'NormalizedReader and normalize_lines leave it alone too)', not ups, function=b.path, site=site(b, ups[0][0]) if ups else None,
                  missing='done() calls update(): for text ending in a lone CR the streaming hasher (signing, inline verification) hashes one octet more than the reader-based canonicaliser (Signature::verify)' if ups else None)
    b = ctx.body(NH + 'hash_buf')
    if b is None:
        return
    defs = single_defs(b)
    lits = {}
    ups = b.calls(r'DynDigest::update$')
    for i, t in ups:
        c = const_bytes(b, t['args'][1], defs)
        if c is not None:
            lits.setdefault(c, []).append(i)
    ctx.check(P + ':hasher:literals', 'R-table', 'the literals fed by hash_buf are exactly CR LF, CR and LF', set(lits) == {'\\r\\n', '\\r', '\\n'}, function=b.path,
              table={k: len(v) for k, v in lits.items()})
    # octets that are not literals are copied from the chunk only up to the position the scan reported (never a fixed-size piece
    # that could contain a line-break octet)
    def slice_of(o):
        # ('whole', None) | ('slice', [range bound operands]) | ('other', None): follow references to the defining Index::index call
        for _ in range(6):
            k, v = resolve_value(b, o, defs)
            if k == 'call' and v['f'].get('fn', '').endswith('ops::Index::index'):
                kk, rv = resolve_value(b, v['args'][1], defs)
                if kk == 'rv' and rv['k'] == 'agg':
                    return ('slice', rv['o'])
                return ('other', None)
            if k == 'rv' and v['k'] == 'ref':
                o = dict(l=v['p']['l'], pr=[x for x in v['p']['pr'] if x != '*'], mv=0)
                continue
            if k == 'rv' and v['k'] == 'cast':
                o = v['o'][0]
                continue
            if k == 'place':
                return ('whole', None)
            return ('other', None)
        return ('other', None)
    sliced, whole, bad = [], [], []
    for i, t in ups:
        if const_bytes(b, t['args'][1], defs) is not None:
            continue
        kind, bounds = slice_of(t['args'][1])
        if kind == 'whole':
            whole.append(i)
        elif kind == 'slice':
            sliced.append((i, t))
            # a bound that is a constant cuts a fixed-size piece out of the chunk; it must be the position reported by the scan
            if any(resolve_value(b, o, defs)[0] == 'const' for o in bounds) or not any(has_origin(b.operand_origins(o), r'call:.*::position$') for o in bounds):
                bad.append(i)
        else:
            bad.append(i)
    ctx.check(P + ':hasher:data-up-to-scan-position', 'R-dom', 'hash_buf copies chunk data either whole (binary mode / no line-break octet found) or up to the reported position of the next CR or LF',
              bool(sliced) and not bad and len(whole) <= 2, function=b.path, site=site(b, bad[0]) if bad else None, table=dict(sliced=len(sliced), whole=len(whole)))
    # carry discipline
    sw = [i for i, t in b.switches() if has_origin(b.switch_origins(i), r'field:NormalizingHasher\.last_was_cr$') and not has_origin(b.switch_origins(i), r'call:')]
    clears = [i for i, k, s in b.stmts(lambda s: s['d']['pr'] and s['d']['pr'][-1].endswith('.last_was_cr') and s['r']['k'] == 'use'
                                       and 'k' in s['r']['o'][0] and s['r']['o'][0]['k'].get('v') in (0, False))]
    sets = [i for i, k, s in b.stmts(lambda s: s['d']['pr'] and s['d']['pr'][-1].endswith('.last_was_cr') and s['r']['k'] == 'use'
                                     and 'k' in s['r']['o'][0] and s['r']['o'][0]['k'].get('v') in (1, True))]
    scan = call_blocks(b, r'::position$|memchr')
    ok = bool(sw) and bool(clears) and bool(scan)
    wit = None
    if ok:
        for g in sw[:1]:
            # the edge taken when the flag is set: the one from which a clear is reachable
            for j, _ in b.succ(g):
                if any(c in b.reach_from([j], removed=frozenset(scan)) for c in clears):
                    w = b.find_path(j, set(scan), removed=frozenset(clears))
                    if w is not None:
                        ok, wit = False, w
    ctx.check(P + ':hasher:carry-cleared-before-scan', 'R-dom', 'when a chunk starts with the carry set, last_was_cr is cleared on every path before the chunk is scanned (also when the chunk does not start with LF)',
              ok, function=b.path, witness=fmt_path(b, wit) if wit else None)
    # an empty chunk carries no information about what follows the pending CR: the carry survives it.  Every clear of the flag is
    # behind a test that the chunk holds at least one octet (is_empty / first / len / get / split_first with a rejecting edge)
    ne = [g for g, _ in guard_switches(b, clears, [r'call:.*::(is_empty|first|split_first|len|get)$|op:PtrMetadata'])] if clears else []
    ok_ne, wit_ne = must_pass(b, clears, ne) if (clears and ne) else (False, None)
    ctx.check(P + ':hasher:empty-chunk-keeps-carry', 'R-dom', 'last_was_cr is cleared only after the chunk was found non-empty (a zero-length write between CR and LF does not change the digest)',
              ok_ne, function=b.path, guards=[site(b, g) for g in ne], witness=fmt_path(b, wit_ne) if wit_ne else None)
    # the flag is set only where a CR is the last octet of the chunk: that arm feeds the literal CR
    okset = bool(sets)
    for s_ in sets:
        okset &= any(s_ in b.reach_from([b.blocks[u]['t']['t']]) and b.find_path(b.blocks[u]['t']['t'], {s_}, removed=frozenset(x for x, _ in ups if x != u)) is not None
                     for u in lits.get('\\r', []))
    ctx.check(P + ':hasher:carry-set-only-after-cr', 'R-seq', 'last_was_cr is set only directly after a lone CR literal was fed (CR in the last position of the chunk)', okset and len(sets) == 1, function=b.path)


NR = 'normalize_lines::NormalizedReader::<R>::'


def reader_rules(ctx, P):
    """The window reader defers a CR that is the last octet of a full window and settles it at the start of the next call."""
    b = ctx.body(NR + 'cleanup_buffer')
    if b is not None:
        rets = b.returns()
        sw = [i for i, t in b.switches() if has_origin(b.switch_origins(i), r'param:3$')]
        ok, wit = must_pass(b, rets, sw) if sw else (False, None)
        ctx.check(P + ':reader:carried-octet-examined', 'R-dom', 'cleanup_buffer examines the carried last octet of the previous window on every path (a deferred CR is settled even when the next read is empty)',
                  ok and bool(sw), function=b.path, witness=fmt_path(b, wit) if wit else None)
        # the straddling pair is `carried CR + FIRST OCTET OF THIS READ`: the window is only looked at when this read delivered something
        # (after an empty read `in_buffer[0]` is a stale octet of the previous window) - the step that consumes the leading LF
        # (`start = 1`) is selected by a comparison of the read count with 0
        skips = sorted(set(i for i, k, st in b.stmts(lambda st: not st['d']['pr'] and st['r']['k'] == 'use' and 'k' in st['r']['o'][0]
                                                      and st['r']['o'][0]['k'].get('v') == 1 and st['r']['o'][0]['k'].get('ty') == 'usize')))
        dom = b.dominators()
        rg = [g for g, t in b.switches() if has_origin(b.switch_origins(g), r'param:2$') and has_origin(b.switch_origins(g), r'const:0:usize$')
              and has_origin(b.switch_origins(g), r'op:(Gt|Ne|Eq|Lt|Ge|Le)$')]
        sel = [x for x in skips if any(g in dom.get(x, ()) and len([j for j in set(j for j, _ in b.succ(g)) if x in b.reach_from([j], removed=frozenset([g]))]) == 1 for g in rg)]
        ctx.check(P + ':reader:pair-needs-a-nonempty-read', 'R-dom', 'cleanup_buffer treats `carried CR, first octet` as a CR LF pair only when the read delivered at least one octet',
                  bool(skips) and len(sel) == len(skips), function=b.path, site=site(b, skips[0]) if skips else None,
                  missing=None if (skips and len(sel) == len(skips)) else 'the leading-LF skip is not selected by a test of the read count: after an empty read a stale LF in the window turns the carried CR into CR LF')
        # deferral: `end = read - 1` only under (window full && last octet == CR)
        subs = [i for i, k, s_ in b.stmts(lambda s: s['r']['k'] == 'bin' and s['r']['op'].startswith('Sub') and any('k' in o and o['k'].get('v') == 1 for o in s['r']['o'][1:]))
                if has_origin(b.operand_origins(b.blocks[i]['s'][k]['r']['o'][0]), r'param:2$')]
        g1 = [g for g, _ in guard_switches(b, subs, [r'const:13:u8$', r'field:NormalizedReader\.in_buffer$'])] if subs else []
        g2 = [g for g, _ in guard_switches(b, subs, [r'param:2$', r'op:Eq$'])] if subs else []
        ok1, _ = must_pass(b, subs, g1) if g1 else (False, None)
        ok2, _ = must_pass(b, subs, g2) if g2 else (False, None)
        ctx.check(P + ':reader:defer-only-final-cr-of-full-window', 'R-dom', 'the last octet of a window is held back only when the window is full and that octet is CR', ok1 and ok2 and len(subs) == 1, function=b.path)
        puts = [i for i, t in b.calls(r'BufMut::put_u8$') if any('k' in a and a['k'].get('v') == 13 for a in t['args'][1:]) or has_origin(b.operand_origins(t['args'][1]), r'const:13:u8$')]
        ctx.check(P + ':reader:settles-with-cr', 'R-table', 'a held-back CR that is not followed by LF is emitted as CR', len(puts) == 1, function=b.path)
        # ... also when the refill delivered nothing (the held-back CR was the last octet of the text): the settling put is reachable
        # along the `read == 0` edges of every test of the read count
        from rules.common import direct_cmp_switches
        removed = set()
        for g, op, side in direct_cmp_switches(b, lambda k, v: k == 'place' and v.get('l') == 2 and not v.get('pr'), lambda c: c == 0):
            tt = b.blocks[g]['t']
            a, c = (0, 0)
            truth0 = {'Lt': (0 < 0), 'Le': True, 'Gt': False, 'Ge': True, 'Eq': True, 'Ne': False}[op] if side == 0 else \
                     {'Lt': False, 'Le': True, 'Gt': False, 'Ge': True, 'Eq': True, 'Ne': False}[op]
            neg = False
            for s_ in reversed(b.blocks[g]['s']):
                if s_['d']['l'] == tt['o'].get('l') and s_['r']['k'] == 'un' and s_['r']['op'] == 'Not':
                    neg = True
                break
            val = int(truth0 != neg)
            zero_tgt = None
            for v, bb in tt['targets']:
                if v == val:
                    zero_tgt = bb
            if zero_tgt is None:
                zero_tgt = tt['else']
            for j, _ in b.succ(g):
                if j != zero_tgt:
                    removed.add((g, j))
        reach0 = b.reach_from([0], removed_edges=frozenset(removed))
        ctx.check(P + ':reader:settles-cr-on-empty-refill', 'R-dom', 'the held-back CR is emitted also when the next refill is empty (the put is reachable with read == 0)',
                  bool(puts) and all(i in reach0 for i in puts), function=b.path,
                  missing=None if (puts and all(i in reach0 for i in puts)) else 'the settling put_u8(CR) is only reachable when the refill delivered data: a text that ends in CR exactly at a window edge loses that CR')
    b = ctx.body(NR + 'fill_buffer')
    if b is not None:
        oks = ok_exit_blocks(b)
        clb = call_blocks(b, r'NormalizedReader::<R>::cleanup_buffer$')
        okc, witc = must_pass(b, oks, clb) if clb else (False, None)
        ctx.check(P + ':reader:every-fill-is-cleaned-up', 'R-dom', 'fill_buffer returns Ok only through cleanup_buffer (also for an empty read: a held-back CR is settled there)', okc, function=b.path,
                  witness=fmt_path(b, witc) if witc else None)
        fills = call_blocks(b, r'util::fill_buffer$')
        cl = b.calls(r'NormalizedReader::<R>::cleanup_buffer$')
        good = False
        dom = b.dominators()
        defs = single_defs(b)
        for i, t in cl:
            a = t['args'][2]
            if not has_origin(b.operand_origins(a), r'field:NormalizedReader\.in_buffer$'):
                continue
            # the carried octet is loaded before the window is refilled: its defining statement lies in a block from which the refill is still ahead
            k, v = resolve_value(b, a, defs)
            d = defs.get(a['l']) if 'l' in a else None
            while d is not None and d[1].get('k') != 'call' and d[1]['r']['k'] == 'use' and 'l' in d[1]['r']['o'][0] and not d[1]['r']['o'][0]['pr'] and d[1]['r']['o'][0]['l'] in defs:
                d = defs[d[1]['r']['o'][0]['l']]
            if d is not None and fills:
                good = all(f_ in b.reach_from([d[0]]) and d[0] not in b.reach_from([b.blocks[f_]['t']['t']]) for f_ in fills)
        ctx.check(P + ':reader:carried-octet-read-before-refill', 'R-seq', 'fill_buffer takes the last octet of the previous window before it overwrites the window', good and len(fills) == 1, function=b.path)


def one_batch_routine(ctx, P):
    users = sorted(p for p, r in ctx.f.bodies.items() if '::tests::' not in p and ctx.wrap(r).calls(r'normalize_lines::replace_newlines$'))
    for u in users:
        ctx.functions.add(u)
    ctx.check(P + ':batch:single-replace-newlines', 'R-who', 'the reader-based and the in-memory canonicaliser both go through normalize_lines::replace_newlines',
              any('NormalizedReader' in u for u in users) and any(u.endswith('normalize_lines::normalize_lines') or u.endswith('::normalize_lines') for u in users), table=users)


def check_reader_rules(ctx, P):
    """CrLfCheckReader (the Utf8-mode guard of the builder) carries `last_was_cr` across reads.  Necessary for schedule independence:
    every successful read that delivered data refreshes the carry (no Ok exit with data is reachable around the store), and the only
    exit that leaves it alone is the zero-length one."""
    b = ctx.body('<packet::literal_data::CrLfCheckReader<R> as std::io::Read>::read')
    if b is None:
        return
    stores = [i for i, k, s in b.stmts(lambda s: s['d']['pr'] and s['d']['pr'][-1].endswith('.last_was_cr'))]
    oks = ok_exit_blocks(b)
    zero = [i for i in oks if any(s['d']['l'] == 0 and s['r']['k'] == 'agg' and s['r'].get('v') == 'Ok' and s['r']['o'] and 'k' in s['r']['o'][0] and s['r']['o'][0]['k'].get('v') == 0
                                  for s in b.blocks[i]['s'])]
    data_oks = [i for i in oks if i not in zero]
    ok, wit = must_pass(b, data_oks, stores) if (stores and data_oks) else (False, None)
    ctx.check(P + ':check-reader:carry-refreshed-on-every-read', 'R-dom', 'every CrLfCheckReader::read that delivers data stores last_was_cr before returning (the carry never survives a read unchanged by accident)',
              ok, function=b.path, stores=[site(b, i) for i in stores], witness=fmt_path(b, wit) if wit else None)
    # the stored value is a test of the LAST octet delivered (index len - 1), not of a scan position
    good = False
    for i, k, s in b.stmts(lambda s: s['d']['pr'] and s['d']['pr'][-1].endswith('.last_was_cr')):
        r = s['r']
        if r['k'] == 'bin' and r['op'] == 'Eq' and any('k' in o and o['k'].get('v') == 13 for o in r['o']):
            other = [o for o in r['o'] if 'k' not in o]
            og = b.operand_origins(other[0]) if other else set()
            if has_origin(og, r'op:SubWithOverflow$|op:Sub$') and has_origin(og, r'const:1:usize$') and has_origin(og, r'call:std::io::Read::read$') and not has_origin(og, r'op:AddWithOverflow$|op:Add$'):
                good = True
    ctx.check(P + ':check-reader:carry-is-last-octet-cr', 'R-table', 'the carry is the comparison of the last delivered octet (index read - 1, not a scan position) with CR (13)', good, function=b.path)


def in_memory_canonical(ctx, P):
    """`LiteralData::from_str` is the in-memory text constructor: on every path the body it stores went through normalize_lines
    (no fast path that decides canonicity by itself — a second canonicaliser is a second opinion)."""
    b = ctx.body('packet::literal_data::LiteralData::from_str')
    if b is None:
        return
    cons = sorted(set(i for i, k, s in b.constructs(r'packet::literal_data::LiteralData$')))
    norm = [i for i, t in b.calls(r'normalize_lines::normalize_lines$')]
    ok, wit = must_pass(b, cons, norm) if (cons and norm) else (False, None)
    ctx.check(P + ':batch:from_str-always-normalises', 'R-dom', 'LiteralData::from_str builds its body through normalize_lines on every path',
              ok, function=b.path, witness=fmt_path(b, wit) if wit else None)


def run(ctx):
    P = 'C14'
    check_reader_rules(ctx, P)
    in_memory_canonical(ctx, P)
    hasher_rules(ctx, P)
    reader_rules(ctx, P)
    one_batch_routine(ctx, P)
    sig.text_mode_selection(ctx, P)
    # the v6 salt is fed to the raw digest, never through the canonicalising wrapper (a salt octet 0x0A is not a line ending)
    sig.salt_fed_at_every_hasher(ctx, P)
    from rules import c01 as _c01
    _c01.builder_conversions_keep_settings(ctx, P)        # a text-mode request survives the builder's type-state conversions
