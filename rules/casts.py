"""R-cast: no silent truncation.  Every narrowing integer cast (`x as u16` with x wider) in the library is either bounded — the
operand's upper bound, derived from constants, masks, shifts and the dominating comparisons on the way to the cast, fits the target
type — or is a reviewed, deliberately wrapping cast (checksums).  A length or bit count that is narrowed without a bound is announced
wrongly for large objects: the octets that follow do not match it (C05: `lengths are truthful`)."""
import re
from rules.common import single_defs, site

BITS = {'u8': 8, 'u16': 16, 'u32': 32, 'u64': 64, 'usize': 64, 'u128': 128, 'i8': 7, 'i16': 15, 'i32': 31, 'i64': 63, 'isize': 63, 'i128': 127, 'bool': 1}
WIDTH = {'u8': 8, 'u16': 16, 'u32': 32, 'u64': 64, 'usize': 64, 'u128': 128, 'i8': 8, 'i16': 16, 'i32': 32, 'i64': 64, 'isize': 64, 'i128': 128}

# deliberately wrapping casts, by (function, target type): reason
REVIEWED = {
    ('<crypto::checksum::SimpleChecksum as std::hash::Hasher>::write', 'u16'): 'RFC 9580 5.5.3: the checksum is the sum of all octets mod 65536',
    ('crypto::checksum::calculate_simple', 'u16'): 'RFC 9580 5.5.3: the checksum is the sum of all octets mod 65536',
    ('types::params::plain_secret::PlainSecretParams::compare_checksum_simple', 'u16'): 'RFC 9580 5.5.3: the checksum is the sum of all octets mod 65536',
    ('<packet::signature::subpacket::SubpacketLength as ser::Serialize>::to_writer', 'u8'): 'Two(l): l <= 16319 by construction (SubpacketLength::encode and the parser produce nothing larger; debug_assert states it), so ((l - 192) / 256) + 192 <= 254',
    ('types::packet::PacketLength::to_writer_new', 'u8:partial'): 'Partial(n): n is a power of two <= 2^30 by construction (PacketHeader::from_parts / the parser refuse anything else), so 224 + log2(n) <= 254',
}


# functions that produce wire octets (C05 scope)
SERIALISERS = r'ser::Serialize>::|::(to_writer\w*|write_header|write_packet_length|encode|write_len\w*|writer_len\w*)$'


def tymax(ty):
    return (1 << BITS[ty]) - 1 if ty in BITS else None


def _root(b, o, defs, depth=0):
    """Identity of a value for matching guards: follow plain copies to the first non-copy definition."""
    while depth < 8 and 'l' in o and not o['pr']:
        d = defs.get(o['l'])
        if d is None or d[1].get('k') == 'call':
            break
        r = d[1]['r']
        if r['k'] == 'use' and 'l' in r['o'][0]:
            o = r['o'][0]
            depth += 1
            continue
        if r['k'] == 'cast' and r.get('ck') == 'IntToInt' and 'l' in r['o'][0]:
            # a widening cast keeps the value
            src = b.r['locals'][r['o'][0]['l']]['ty'] if not r['o'][0]['pr'] else None
            if src in WIDTH and r['ty'] in WIDTH and WIDTH[r['ty']] >= WIDTH[src] and not src.startswith('i'):
                o = r['o'][0]
                depth += 1
                continue
        break
    if 'l' not in o:
        return None
    return (o['l'], tuple(o['pr']))


def comparisons(b, defs):
    """[(switch block, op, [operand a, operand b], negated)] for switches on a direct (possibly negated) integer comparison."""
    out = []
    for g, t in b.switches():
        o = t['o']
        neg = False
        for _ in range(6):
            if 'l' not in o or o['pr']:
                break
            d = defs.get(o['l'])
            if d is None or d[1].get('k') == 'call':
                break
            r = d[1]['r']
            if r['k'] == 'use':
                o = r['o'][0]
                continue
            if r['k'] == 'un' and r['op'] == 'Not':
                neg = not neg
                o = r['o'][0]
                continue
            if r['k'] == 'bin' and r['op'] in ('Lt', 'Le', 'Gt', 'Ge'):
                out.append((g, r['op'], r['o'], neg))
            break
    return out


def const_of(o):
    return o['k'].get('v') if 'k' in o and isinstance(o['k'].get('v'), int) else None


def guard_ub(b, key, at, cmps, dom, defs):
    """Upper bound on the value `key` implied by the comparisons that dominate block `at`."""
    best = None
    for g, op, sides, neg in cmps:
        if g not in dom.get(at, ()) or g == at:
            continue
        keys = [_root(b, s, defs) for s in sides]
        if key not in keys:
            continue
        idx = keys.index(key)
        c = const_of(sides[1 - idx])
        if c is None:
            continue
        # which edge leads to `at`
        lead = [(j, e) for j, e in b.succ(g) if j == at or j in dom.get(at, ())]
        if len(lead) != 1:
            continue
        e = lead[0][1]
        truth = not (e[0] == 'v' and e[1] == 0)
        if neg:
            truth = not truth
        if idx == 1:
            op = {'Lt': 'Gt', 'Le': 'Ge', 'Gt': 'Lt', 'Ge': 'Le'}[op]   # c OP v  ==  v OP' c
        ub = None
        if truth and op == 'Lt':
            ub = c - 1
        elif truth and op == 'Le':
            ub = c
        elif not truth and op == 'Gt':
            ub = c
        elif not truth and op == 'Ge':
            ub = c - 1
        if ub is not None and (best is None or ub < best):
            best = ub
    return best


def upper(b, o, at, defs, cmps, dom, depth=0):
    """Upper bound of operand `o` at block `at` (None = unknown)."""
    c = const_of(o)
    if c is not None:
        return c
    if 'l' not in o or depth > 12:
        return None
    ty = b.r['locals'][o['l']]['ty'] if not o['pr'] else None
    bound = tymax(ty) if ty else None
    key = _root(b, o, defs)
    if key is not None:
        g = guard_ub(b, key, at, cmps, dom, defs)
        if g is not None and (bound is None or g < bound):
            bound = g
    def meet(x):
        return x if bound is None else (bound if x is None else min(x, bound))
    d = defs.get(o['l'])
    if d is None:
        return bound
    x = d[1]
    if x.get('k') == 'call':
        fn = x['f'].get('fn', '')
        if o['pr']:
            return bound
        if re.search(r'::(trailing_zeros|leading_zeros|count_ones|count_zeros)$', fn):
            return meet(128)
        if re.search(r'cmp::Ord::min$|::min$', fn) and len(x['args']) == 2:
            us = [upper(b, a, at, defs, cmps, dom, depth + 1) for a in x['args']]
            us = [u for u in us if u is not None]
            return meet(min(us)) if us else bound
        return bound
    r = x['r']
    if o['pr']:
        if o['pr'] == ['.0'] and r['k'] == 'bin' and r['op'].endswith('WithOverflow'):
            pass
        else:
            return bound
    if r['k'] == 'use':
        return meet(upper(b, r['o'][0], at, defs, cmps, dom, depth + 1))
    if r['k'] == 'cast' and r.get('ck') == 'IntToInt':
        u = upper(b, r['o'][0], at, defs, cmps, dom, depth + 1)
        m = tymax(r['ty'])
        if u is None:
            return meet(m)
        src = b.r['locals'][r['o'][0]['l']]['ty'] if 'l' in r['o'][0] and not r['o'][0]['pr'] else None
        if src and src.startswith('i'):
            return meet(m)
        return meet(u if m is None else min(u, m) if u <= m else m)
    if r['k'] == 'bin':
        op = r['op'].replace('WithOverflow', '')
        a = upper(b, r['o'][0], at, defs, cmps, dom, depth + 1)
        c1 = const_of(r['o'][1])
        bb = c1 if c1 is not None else upper(b, r['o'][1], at, defs, cmps, dom, depth + 1)
        if op == 'Add':
            return meet(a + bb) if a is not None and bb is not None else bound
        if op == 'Sub':
            return meet(max(0, a - c1) if (a is not None and c1 is not None) else a)
        if op == 'Mul':
            return meet(a * bb) if a is not None and bb is not None else bound
        if op == 'Shr':
            return meet(a >> c1) if a is not None and c1 is not None else meet(a)
        if op == 'Shl':
            return meet(a << c1) if a is not None and c1 is not None else bound
        if op == 'BitAnd':
            xs = [v for v in (a, bb) if v is not None]
            return meet(min(xs)) if xs else bound
        if op in ('BitOr', 'BitXor'):
            if a is None or bb is None:
                return bound
            return meet((1 << max(a, bb).bit_length()) - 1)
        if op == 'Rem':
            return meet(bb - 1) if bb else meet(a)
        if op == 'Div':
            return meet(a // c1) if a is not None and c1 else meet(a)
    return bound


def narrowing_casts(b):
    out = []
    for i, k, s in b.stmts(lambda s: s['r']['k'] == 'cast' and s['r'].get('ck') == 'IntToInt'):
        o = s['r']['o'][0]
        if 'l' not in o or o['pr']:
            continue
        src = b.r['locals'][o['l']]['ty']
        dst = s['r']['ty']
        if src in WIDTH and dst in WIDTH and (WIDTH[dst] < WIDTH[src] or (WIDTH[dst] == WIDTH[src] and dst.startswith('i') and not src.startswith('i'))):
            out.append((i, s, src, dst))
    return out


def r_cast(ctx, P, only=None, floor=25):
    n = 0
    for p, r in sorted(ctx.f.bodies.items()):
        if r.get('derived') or '::tests::' in p or (only and not re.search(only, p)):
            continue
        b = ctx.wrap(r)
        cs = narrowing_casts(b)
        if not cs:
            ctx.functions.discard(p)
            continue
        defs = single_defs(b)
        cmps = comparisons(b, defs)
        dom = b.dominators()
        ordinal = {}
        for i, s, src, dst in cs:
            n += 1
            ordinal[dst] = ordinal.get(dst, 0) + 1
            u = upper(b, s['r']['o'][0], i, defs, cmps, dom)
            m = tymax(dst)
            ok = u is not None and u <= m
            why = None
            if not ok:
                if (p, dst) in REVIEWED:
                    why = REVIEWED[(p, dst)]
                elif (p, dst + ':partial') in REVIEWED and any(re.search(r'trailing_zeros$', t['f'].get('fn', '')) for _, t in b.calls()):
                    why = REVIEWED[(p, dst + ':partial')]
            ctx.check('%s:cast:%s:%s#%d' % (P, p, dst, ordinal[dst]), 'R-cast',
                      'narrowing cast %s -> %s in %s is bounded by the comparisons, masks and shifts on the way to it (or is a reviewed wrapping cast)' % (src, dst, p.split('::')[-1]),
                      ok or why is not None, function=p, site=site(b, i), bound=u if ok else None, reviewed=why,
                      missing=None if (ok or why) else '%s -> %s, operand bound %s: a larger value is cut to its low %d bits silently' % (src, dst, 'unknown' if u is None else u, WIDTH[dst]))
    ctx.floor(P + ':cast:floor', 'narrowing integer casts analysed', n, floor)


def narrow_sums(ctx, P):
    """`iter.sum::<u32>()` adds with overflow checks in builds that have them: summing input-sized data into a type narrower than
    usize panics for a large enough input (16 MiB of 0xff octets overflow a u32).  Sums into narrow integer types must be wrapping /
    checked explicitly; sums of in-memory lengths into usize are bounded by the address space."""
    n = 0
    for p, r in sorted(ctx.f.bodies.items()):
        if r.get('derived') or '::tests::' in p:
            continue
        b = ctx.wrap(r)
        cs = b.calls(r'Iterator::(sum|product)$')
        if not cs:
            ctx.functions.discard(p)
            continue
        for k, (i, t) in enumerate(cs):
            n += 1
            ty = t.get('rty') or ''
            ok = ty in ('usize', 'u64', 'u128', 'f32', 'f64') or ty not in WIDTH
            ctx.check('%s:narrow-sum:%s#%d' % (P, p, k + 1), 'R-panic', 'no overflow-checked Iterator::sum / product into an integer type narrower than usize in %s' % p.split('::')[-1],
                      ok, function=p, site=site(b, i), missing=None if ok else 'sum::<%s>() over input-sized data: overflows (panics with overflow checks) for large inputs; fold with wrapping_add or reduce per step' % ty)
    ctx.floor(P + ':narrow-sum:floor', 'Iterator::sum / product calls examined', n, 2)
