"""C02 Signature soundness (DESIGN §5 C02)."""
from rules import sig

EXPLANATION = ("Decides structural clauses of C02, not the behaviour: on every CFG path of every verification entry point that reaches "
               "the public-key primitive, the left-16-bit check against the recomputed digest, the signature-type binding (accepted "
               "set = RFC set), the issuer identity match, the key/signature version alignment, and (for subkey bindings) the "
               "back-signature requirement have been evaluated with a rejecting edge; every Ok exit passes through the primitive; "
               "forwarding impls of VerifyingKey are pure. Not decided: that flipping any bit changes the digest (cryptography), "
               "text-mode equivalence."
               ' Also (shared with C11/C16): sign/verify twins feed the same frame sequence, every hashed subpacket is fed, v6 salt sizes come from one table and every consumer checks them (a hash without salt size is refused), the cleartext framework signs and verifies one derived form with trim set {SP, TAB}; the version-alignment guard is applied to the key that verifies.')
ASSUMPTIONS = ["VerifyingKey::verify of PubKeyInner and the digest crates are correct",
               "origin analysis is flow-insensitive (cannot reject a correct guard)"]


def run(ctx):
    P = 'C02'
    sig.s02_1_sink_discipline(ctx, P)
    sig.s02_2_what_is_hashed(ctx, P)
    sig.s02_3_type_binding(ctx, P)
    sig.s02_4_identity(ctx, P)
    sig.s02_5_onepass(ctx, P)
    sig.s02_6_backsig(ctx, P)
    sig.s02_7_delegation(ctx, P)
    sig.s15_4_version_alignment_verify(ctx, P)
    sig.s15_4_alignment_predicate(ctx, P)
    sig.salt_fed_at_every_hasher(ctx, P)
    sig.s02_8_every_binding_verified(ctx, P)
    sig.s02_9_parallel_slots(ctx, P)
    sig.s02_10_result_slot_same_iteration(ctx, P)
    sig.s02_11_every_key_tries_every_signature(ctx, P)
    from rules.tables import lossless_bool_subpackets
    lossless_bool_subpackets(ctx, P)
    # the digest covers what it must (shared with C11 / C16): sign/verify twins feed the same frames, every hashed subpacket is fed,
    # and the cleartext framework signs and verifies one derived form whose trim set is {SP, TAB}
    from rules import c11, c16
    c11.twins(ctx, P)
    c11.salt_tables(ctx, P)
    c11.hash_tables(ctx, P)
    c11.hashed_subpackets_all_fed(ctx, P)
    c16.same_form(ctx, P)
    c16.trim_set(ctx, P)
    # the canonicalisers emit input octets and inserted CRs only (shared with C14): one that drops or adds an octet makes a text
    # signature verify for a document that differs from the signed one by that octet
    from rules import c14
    c14.hasher_rules(ctx, P)
    c14.reader_rules(ctx, P)
    # every bit of a hashed key-flags subpacket is kept (shared with C05): dropped bits are hashed as 0 whatever the packet says
    from rules.tables import bitfield_parse_total
    bitfield_parse_total(ctx, P)
    from rules.tables import revocation_class_decoded_exactly
    revocation_class_decoded_exactly(ctx, P)
