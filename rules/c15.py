"""C15 Version-alignment and criticality rules are enforced on every path (DESIGN §5 C15)."""
from rules import sig

EXPLANATION = ("Decides structural clauses of C15, not the behaviour: every listed acceptance rule (ESK/container version "
               "filter, session-key kind x container table, legacy/GnuPG opt-ins, key/signature version alignment on verify "
               "and sign, criticality and issuer-fingerprint version while hashing, certificate shape, back-signature on both "
               "import paths) is a guard lying on every CFG path to the accepting sink in every parallel implementation. "
               "Not decided: run-time behaviour for all pairings.")
ASSUMPTIONS = ["guard callees do what their names say (trusted base listed in coverage.trusted_base)",
               "origin analysis is flow-insensitive: may accept a comparison on the right fields with wrong values; cannot reject a correct guard"]


def run(ctx):
    P = 'C15'
    sig.s15_4_version_alignment_verify(ctx, P)
    sig.s15_4_alignment_predicate(ctx, P)
    sig.s15_8_hash_strength_verify(ctx, P)
    sig.s15_5_version_alignment_sign(ctx, P)
    sig.s02_6_backsig(ctx, P)
    sig.s02_5_onepass(ctx, P)


# ---------------------------------------------------------------------------------------------------
import re
from rules.common import (rdom, call_blocks, ok_exit_blocks, site, arm_context, enum_switch_info, edge_variants,
                          single_defs, resolve_value)
from rules.sig import conditional_guard
from core import guard_switches, must_pass, fmt_path, has_origin

RFC_ESK_TABLE = {  # container -> (PKESK version, SKESK versions)   RFC 9580 §10.3.2.1 + documented GnuPG container
    'SED': ('V3', ('V4',)),
    'SEIPDv1': ('V3', ('V4',)),
    'SEIPDv2': ('V6', ('V6',)),
    'GnuPG-AEAD': ('V3', ('V4', 'V5')),
}
RFC_SK_TABLE = {('SEIPDv1', 'V3_4'), ('GnuPG-AEAD', 'V3_4'), ('GnuPG-AEAD', 'V5'), ('SEIPDv2', 'V6')}


def container_of(ctx_list):
    d = {}
    for adt, vs in ctx_list:
        d.setdefault(adt, []).extend(vs or [])
    if 'SymEncryptedData' in d.get('Edata', []):
        return 'SED'
    if 'GnupgAead' in d.get('ProtectedDataConfig', []):
        return 'GnuPG-AEAD'
    if 'Seipd' in d.get('ProtectedDataConfig', []):
        if d.get('Config') == ['V1']:
            return 'SEIPDv1'
        if d.get('Config') == ['V2']:
            return 'SEIPDv2'
    return None


def s15_1(ctx, P):
    b = ctx.body("composed::message::parser::MessageParser::<'a>::visit_esk")
    if b is None:
        return
    dom = b.dominators()
    table = {}
    cs = b.calls(r'parser::esk_filter$')
    ctx.floor(P + ':S15-1:floor', 'esk_filter call sites in visit_esk', len(cs), 4)
    for i, t in cs:
        cont = container_of(arm_context(b, i, dom))
        pk = sorted(m.group(1) for tok in b.operand_origins(t['args'][1]) for m in [re.match(r'agg:.*PkeskVersion::(\w+)$', tok)] if m)
        sk = sorted(m.group(1) for tok in b.operand_origins(t['args'][2]) for m in [re.match(r'agg:.*SkeskVersion::(\w+)$', tok)] if m)
        table[cont] = (pk[0] if len(pk) == 1 else tuple(pk), tuple(sk))
    ctx.check(P + ':S15-1:esk-table', 'R-table', 'ESK versions kept per container equal the RFC 9580 alignment table', table == RFC_ESK_TABLE,
              function=b.path, table={str(k): v for k, v in table.items()})
    # Message::Encrypted is built from the filtered list only
    enc = b.constructs(r'composed::message::types::Message$', 'Encrypted')
    good = bool(enc)
    pushes = call_blocks(b, r'Vec::<.*>::push$|Vec::<T, A>::push$')
    after_push = b.reach_from([b.blocks[p]['t']['t'] for p in pushes if b.blocks[p]['t']['t'] is not None])
    for i, k, s in enc:
        idx = s['r']['fields'].index('esk')
        # either the list comes out of esk_filter, or no ESK can have been pushed on any path to this literal (bare container)
        good &= has_origin(b.operand_origins(s['r']['o'][idx]), r'call:.*parser::esk_filter$') or (i not in after_push and bool(pushes))
    ctx.check(P + ':S15-1:encrypted-from-filter', 'origin', 'Message::Encrypted.esk derives from esk_filter output', good, function=b.path)
    # esk_filter closure compares versions of both kinds
    clos = [ctx.wrap(r) for r in ctx.f.bodies.values() if r.get('parent') == 'composed::message::parser::esk_filter']
    names = set()
    for c in clos:
        for i, t in c.calls():
            names.add(t['f'].get('fn', ''))
    need = ['PublicKeyEncryptedSessionKey::version', 'SymKeyEncryptedSessionKey::version']
    ctx.check(P + ':S15-1:filter-compares-both', 'R-who', 'esk_filter inspects version() of both PKESK and SKESK',
              all(any(n.endswith(x) for n in names) for x in need) and bool(clos), missing=[x for x in need if not any(n.endswith(x) for n in names)])
    b2 = ctx.body('composed::message::parser::esk_filter')
    if b2 is not None:
        ctx.check(P + ':S15-1:filter-uses-filter', 'R-who', 'esk_filter returns the filtered iterator', bool(b2.calls(r'Iterator::filter$')) and bool(b2.calls(r'Iterator::collect$')), function=b2.path)


def s15_2(ctx, P):
    b = ctx.body('composed::message::reader::sym_encrypted_protected::SymEncryptedProtectedDataReader::<R>::decrypt')
    if b is not None:
        dom = b.dominators()
        sinks = call_blocks(b, r'replace_with_and_return')
        ctx.floor(P + ':S15-2:floor', 'decryptor construction sites in SymEncryptedProtectedDataReader::decrypt', len(sinks), 3)
        can = b.can_reach(set(sinks))
        table = set()
        nsw = 0
        for i, t in b.switches():
            info = enum_switch_info(b, i)
            if not info or not info[0].endswith('PlainSessionKey'):
                continue
            nsw += 1
            cont = container_of(arm_context(b, i, dom))
            for j, _ in b.succ(i):
                if j in can:
                    for v in edge_variants(b, i, j) or []:
                        table.add((cont, v))
        ctx.check(P + ':S15-2:sk-container-table', 'R-table', 'accepted (container, session-key kind) cells equal {V1xV3_4, GnuPGx{V3_4,V5}, V2xV6}',
                  table == RFC_SK_TABLE and nsw >= 3, function=b.path, table=sorted(map(list, table)))
        # key length guard precedes the AEAD decryptors
        for cont in ('GnuPG-AEAD', 'SEIPDv2'):
            ss = [s for s in sinks if container_of(arm_context(b, s, dom)) == cont]
            rdom(ctx, P + ':S15-2:keylen:%s' % cont, b, ss, [r'call:.*SymmetricKeyAlgorithm::key_size$', r'call:.*len$'],
                 'session key length == cipher key size is checked before the %s decryptor is built' % cont)
    b = ctx.body('composed::message::reader::sym_encrypted::SymEncryptedDataReader::<R>::decrypt')
    if b is not None:
        sinks = call_blocks(b, r'replace_with_and_return|StreamDecryptor')
        can = b.can_reach(set(sinks))
        acc = set()
        for i, t in b.switches():
            info = enum_switch_info(b, i)
            if info and info[0].endswith('PlainSessionKey'):
                for j, _ in b.succ(i):
                    if j in can:
                        acc.update(edge_variants(b, i, j) or [])
        ctx.check(P + ':S15-2:sed-table', 'R-table', 'SED container accepts only V3_4 session keys', acc == {'V3_4'} and bool(sinks), function=b.path, table=sorted(acc))


def only_via_true_edge(b, sinks, flag_switches):
    """Every path from entry to a sink uses the TRUE edge of one of the boolean flag switches (switchInt [0: false, otherwise:
    true]): with those edges removed no sink is reachable.  `flag || other` fails this (the sink is reachable with the flag false)."""
    if not sinks or not flag_switches:
        return False, None
    true_edges = frozenset((g, b.blocks[g]['t']['else']) for g in flag_switches)
    w = b.find_path(0, set(sinks), removed_edges=true_edges)
    return (w is None), w


def s15_3(ctx, P):
    b = ctx.body("composed::message::types::Edata::<'a>::decrypt_with_options")
    if b is not None:
        dom = b.dominators()
        defs = single_defs(b)
        def field_switches(fld):
            out = []
            for i, t in b.switches():
                k, v = resolve_value(b, t['o'], defs)
                if k == 'place' and v['pr'] and v['pr'][-1].endswith('DecryptionOptions.' + fld):
                    out.append(i)
            return out
        sed = call_blocks(b, r'SymEncryptedDataReader.*::decrypt$')
        g = field_switches('legacy')
        ok, wit = only_via_true_edge(b, sed, g)
        ctx.check(P + ':S15-3:sed-needs-legacy', 'R-dom', 'SED decryption is reached only through the DecryptionOptions.legacy branch', ok and bool(g) and bool(sed),
                  function=b.path, guards=[site(b, x) for x in g], sinks=[site(b, x) for x in sed], witness=fmt_path(b, wit) if wit else None)
        gn = [i for i in call_blocks(b, r'SymEncryptedProtectedDataReader.*::decrypt$') if ('Edata', ['GnupgAeadData']) in arm_context(b, i, dom)]
        g = field_switches('gnupg_aead')
        ok, wit = only_via_true_edge(b, gn, g)
        ctx.check(P + ':S15-3:gnupg-needs-optin', 'R-dom', 'GnuPG AEAD decryption is reached only through the DecryptionOptions.gnupg_aead branch', ok and bool(g) and bool(gn),
                  function=b.path, guards=[site(b, x) for x in g], sinks=[site(b, x) for x in gn], witness=fmt_path(b, wit) if wit else None)
    b = ctx.body("composed::message::types::TheRing::<'_>::find_session_key")
    if b is None:
        cands = [p for p in ctx.f.bodies if p.endswith('::find_session_key') and 'TheRing' in p]
        b = ctx.body(cands[0]) if cands else None
    if b is not None:
        sinks = call_blocks(b, r'decrypt_session_key_with_password$')
        conditional_guard(ctx, P + ':S15-3:skesk-v5-needs-optin', b, sinks, r'field:DecryptionOptions\.gnupg_aead$',
                          [r'call:.*SymKeyEncryptedSessionKey::version$'],
                          'a v5 SKESK is tried only when gnupg_aead is enabled (skip branch on !gnupg_aead && version == V5)')
    # writers of the opt-in flags
    writers = {'legacy': set(), 'gnupg_aead': set()}
    nonconst = []
    for p, r in ctx.f.bodies.items():
        if not p.startswith('composed::message::'):
            continue
        bb = ctx.wrap(r)
        used = False
        for i, blk in enumerate(bb.blocks):
            for s in blk['s']:
                for fld in writers:
                    if s['d']['pr'] and s['d']['pr'][-1].endswith('DecryptionOptions.' + fld):
                        writers[fld].add(p); used = True
                rr = s['r']
                if rr['k'] == 'agg' and rr.get('adt', '').endswith('types::DecryptionOptions'):
                    used = True
                    for fld in writers:
                        o = rr['o'][rr['fields'].index(fld)]
                        if 'k' in o and o['k'].get('v') == 0:
                            continue                      # initialised to false
                        if 'k' in o and o['k'].get('v') in (1, True):
                            writers[fld].add(p)           # `Self { <fld>: true, ..self }` is the by-value form of `self.<fld> = true`
                            continue
                        if 'l' in o and has_origin(bb.operand_origins(o), r'field:DecryptionOptions\.%s$' % fld) and has_origin(bb.operand_origins(o), r'^param:1$') \
                                and not has_origin(bb.operand_origins(o), r'^const:|^agg:'):
                            continue                      # carried over from the options the function was given
                        nonconst.append((p, fld))
        if not used:
            ctx.functions.discard(p)
    ctx.check(P + ':S15-3:who-sets-legacy', 'R-who', 'DecryptionOptions.legacy is set only by enable_legacy; literals initialise it to false',
              writers['legacy'] == {'composed::message::types::DecryptionOptions::enable_legacy'} and not [x for x in nonconst if x[1] == 'legacy'],
              table=sorted(writers['legacy']), missing=nonconst)
    ctx.check(P + ':S15-3:who-sets-gnupg', 'R-who', 'DecryptionOptions.gnupg_aead is set only by enable_gnupg_aead; literals initialise it to false',
              writers['gnupg_aead'] == {'composed::message::types::DecryptionOptions::enable_gnupg_aead'} and not [x for x in nonconst if x[1] == 'gnupg_aead'],
              table=sorted(writers['gnupg_aead']), missing=nonconst)
    callers = sorted(p for p, r in ctx.f.bodies.items() if ctx.wrap(r).calls(r'DecryptionOptions::enable_legacy$'))
    ctx.check(P + ':S15-3:callers-of-enable_legacy', 'R-who', 'the only crate-internal caller of enable_legacy is decrypt_legacy',
              callers == ["composed::message::types::Message::<'a>::decrypt_legacy"], table=callers)
    callers = sorted(p for p, r in ctx.f.bodies.items() if ctx.wrap(r).calls(r'DecryptionOptions::enable_gnupg_aead$'))
    ctx.check(P + ':S15-3:callers-of-enable_gnupg', 'R-who', 'no crate-internal code enables GnuPG AEAD on the caller\'s behalf', callers == [], table=callers)


def s15_6(ctx, P):
    b = ctx.body('packet::signature::config::SignatureConfig::hash_signature_data')
    if b is None:
        return
    sinks = [i for i, t in b.calls(r'Serialize::to_writer$') if 'Subpacket' in t['f'].get('selfty', '') or 'Subpacket' in (t['f'].get('res') or '')]
    ctx.floor(P + ':S15-6:floor', 'hashed subpacket serialisation site in hash_signature_data', len(sinks), 1)
    conditional_guard(ctx, P + ':S15-6:critical-unknown', b, sinks, r'field:Subpacket\.is_critical$', [r'call:.*Subpacket::typ$'],
                      'a critical subpacket of unknown type is rejected before it is hashed')
    # the unknown-type test is the bare `SubpacketType::Other(_)` variant test: no condition on the numeric type id narrows it
    narrowed = [i for i, t in b.switches() if has_origin(b.switch_origins(i), r'field:.*SubpacketType::Other\.0$')]
    ctx.check(P + ':S15-6:critical-unknown-any-id', 'R-table', 'every unknown subpacket type id is covered by the critical-bit rule (no range test on the id)', not narrowed, function=b.path,
              site=site(b, narrowed[0]) if narrowed else None)
    # ... and it covers every subpacket type whose content the library does not interpret: the variants of SubpacketType that
    # only carry the raw type id (Other = unassigned, Experimental = private use 100..110)
    adt = ctx.f.adts.get('packet::signature::subpacket::SubpacketType')
    opaque = sorted(v['n'] for v in adt['vars'] if v['fields']) if adt else []
    tested = set()
    for i, t in b.switches():
        info = enum_switch_info(b, i)
        if info and info[0].endswith('SubpacketType'):
            for v, tg in t['targets']:
                tested |= set(edge_variants(b, i, tg) or [])
    ctx.check(P + ':S15-6:critical-unknown-covers-opaque-types', 'R-table', 'the critical-bit rule tests every uninterpreted subpacket type (%s)' % opaque,
              bool(opaque) and set(opaque) <= tested, function=b.path, table=sorted(tested),
              missing=None if set(opaque) <= tested else 'critical subpackets of type %s are hashed and accepted although the library does not understand them' % sorted(set(opaque) - tested))
    # issuer fingerprint version
    dom = b.dominators()
    bad = None
    n = 0
    for i, t in b.switches():
        info = enum_switch_info(b, i)
        if not info or not info[0].endswith('SubpacketData'):
            continue
        for j, _ in b.succ(i):
            vs = edge_variants(b, i, j) or []
            if 'IssuerFingerprint' in vs:
                n += 1
                gs = [g for g, _ in guard_switches(b, sinks, [r'call:.*Fingerprint::version$'])]
                gs2 = [g for g, _ in guard_switches(b, sinks, [r'call:.*SignatureConfig::version$'])]
                p_ = b.find_path(j, set(sinks), removed=frozenset(gs))
                if p_ is not None:
                    bad = p_
                p_ = b.find_path(j, set(sinks), removed=frozenset(gs2))
                if p_ is not None:
                    bad = p_
    ctx.check(P + ':S15-6:issuer-fp-version', 'R-dom', 'an IssuerFingerprint subpacket is hashed only after its version was matched against the signature version',
              n >= 1 and bad is None, function=b.path, witness=fmt_path(b, bad) if bad else None)
    # ... in every subpacket area the issuer lookup consults: `issuer_fingerprint()` (used by match_identity and by callers that pick
    # the verifying key) reads the hashed AND the unhashed area, so a fingerprint of the wrong version in either one is "a
    # mismatching issuer-fingerprint version" (RFC 9580 5.2.3.35 does not distinguish the areas)
    AREA = r'(?:field:SignatureConfig\.|call:.*SignatureConfig::)(hashed|unhashed)_subpackets$'
    ib = ctx.body('packet::signature::config::SignatureConfig::issuer_fingerprint')
    consulted = set()
    if ib is not None:
        for i, t in ib.calls():
            for a in t['args']:
                for o in ib.operand_origins(a):
                    m = re.search(AREA, o)
                    if m:
                        consulted.add(m.group(1))
            m = re.search(r'SignatureConfig::(hashed|unhashed)_subpackets$', t['f'].get('fn', '') or '')
            if m:
                consulted.add(m.group(1))
    checked = set()
    vsw = [g for g, t in b.switches() if has_origin(b.switch_origins(g), r'call:.*Fingerprint::version$')]
    for i, t in b.switches():
        info = enum_switch_info(b, i)
        if not info or not info[0].endswith('SubpacketData'):
            continue
        for j, _ in b.succ(i):
            if 'IssuerFingerprint' in (edge_variants(b, i, j) or []) and any(g in b.reach_from([j], removed=frozenset([i])) for g in vsw):
                for o in b.switch_origins(i):
                    m = re.search(AREA, o)
                    if m:
                        checked.add(m.group(1))
    ctx.check(P + ':S15-6:issuer-fp-version-every-area', 'R-sib', 'the issuer-fingerprint version is matched against the signature version in every subpacket area that issuer_fingerprint() reads',
              bool(consulted) and consulted <= checked, function=b.path, table=dict(consulted=sorted(consulted), checked=sorted(checked)),
              missing=None if (consulted and consulted <= checked) else 'issuer_fingerprint() reads the %s area(s) but the version rule only looks at %s: a fingerprint of another key version in the %s area is accepted'
              % (sorted(consulted), sorted(checked), sorted(consulted - checked)))
    # accepted (sig version, fp version) cells
    cells = set()
    can = b.can_reach(set(sinks))
    for i, t in b.switches():
        info = enum_switch_info(b, i)
        if info and info[0].endswith('KeyVersion'):
            ac = arm_context(b, i, dom)
            svs = [vs for adt, vs in ac if adt == 'SignatureVersion']
            sv = list(min(svs, key=len)) if svs else []   # the innermost (most specific) signature-version arm
            if not any(adt == 'SubpacketData' and 'IssuerFingerprint' in (vs or []) for adt, vs in ac):
                continue
            for j, _ in b.succ(i):
                if j in can and j != i:
                    # is the sink reachable without coming back through the loop head?  (rejecting arms bail out)
                    rej = b.can_reach(set(sinks), removed=frozenset([i]))
                    if j in rej:
                        for kv in edge_variants(b, i, j) or []:
                            cells.add((tuple(sv), kv))
    ctx.check(P + ':S15-6:issuer-fp-cells', 'R-table', 'accepted (signature version, fingerprint version) cells are exactly (V4,V4) and (V6,V6)',
              cells == {(('V4',), 'V4'), (('V6',), 'V6')}, function=b.path, table=sorted([list(c[0]), c[1]] for c in cells))


def s15_7(ctx, P):
    b = ctx.body('composed::signed_key::key_parser::next')
    if b is None:
        return
    sinks = [i for i, k, s in b.stmts(lambda s: s['d']['l'] == 0 and s['r']['k'] == 'agg' and s['r'].get('v') == 'Some')
             if has_origin(b.operand_origins(b.blocks[i]['s'][k]['r']['o'][0]), r'agg:.*Result::Ok$')]
    if not sinks:
        oks = [i for i, k, s in b.stmts(lambda s: s['r']['k'] == 'agg' and s['r'].get('v') == 'Ok' and s['r'].get('adt', '').endswith('Result'))]
        sinks = oks
    ctx.floor(P + ':S15-7:floor', 'accepting return of key_parser::next', len(sinks), 1)
    # primary-version == V6 switches and their non-v6 edges
    p6 = [i for i, t in b.switches() if has_origin(b.switch_origins(i), r'callty:.*KeyDetails::version@IKT$') and has_origin(b.switch_origins(i), r'agg:.*KeyVersion::V6$')
          and has_origin(b.switch_origins(i), r'callty:.*PartialEq::eq@')]
    nonv6_edges = set()
    for i in p6:
        t = b.blocks[i]['t']
        for v, bb in t['targets']:
            if v == 0:
                nonv6_edges.add((i, bb))
    for fam, rx, pushrx in (('public', r'(callres|callty):.*KeyDetails.*::version.*Public[Ss]ub[Kk]ey', r'Vec::<.*SignedPublicSubKey>::push$'),
                            ('secret', r'(callres|callty):.*KeyDetails.*::version.*Secret[Ss]ub[Kk]ey', r'Vec::<.*SignedSecretSubKey>::push$')):
        pushes = call_blocks(b, pushrx)
        gs = [g for g, _ in guard_switches(b, sinks, [rx, r'agg:.*KeyVersion::V6$'])]
        # a check performed in a `for sub in &container` loop: the loop entry is the check point (a loop body can be
        # skipped on the CFG only because the container may be empty), provided a rejecting guard sits inside the loop
        famty = 'Signed%sSubKey' % fam.capitalize()
        dom = b.dominators()
        heads = [i for i, t in b.calls(r'IntoIterator::into_iter$') if famty in t['f'].get('selfty', '')]
        heads = [h for h in heads if any(h in dom.get(g, ()) for g in gs)]
        gs = gs + heads
        bad = None
        for p in pushes:
            before = b.find_path(0, {p}, removed=frozenset(gs), removed_edges=frozenset(nonv6_edges))
            after = b.find_path(b.blocks[p]['t']['t'], set(sinks), removed=frozenset(gs), removed_edges=frozenset(nonv6_edges))
            if before is not None and after is not None:
                bad = after
        ctx.check(P + ':S15-7:v6-primary-v6-%s-subkeys' % fam, 'R-sib',
                  'every %s subkey collected under a v6 primary had its version compared with V6 (rejecting) before the certificate is returned' % fam,
                  bool(pushes) and bool(p6) and bad is None, function=b.path, guards=[site(b, g) for g in gs], sinks=[site(b, s) for s in sinks],
                  witness=fmt_path(b, bad) if bad else None)
    # no subkeys on v2/v3 primaries
    pushes = call_blocks(b, r'Vec::<.*Signed(Public|Secret)SubKey>::push$')
    rdom(ctx, P + ':S15-7:no-subkeys-below-v4', b, pushes, [r'callty:.*KeyDetails::version@IKT$', r'callty:.*PartialOrd::lt@', r'agg:.*KeyVersion::V4$'],
         'subkeys are collected only after rejecting primaries older than v4')
    # PubKeyInner::new: legacy 25519 algorithms only in v4
    b2 = ctx.body('packet::key::public::PubKeyInner::new')
    if b2 is not None:
        oks = ok_exit_blocks(b2)
        vs = [i for i, t in b2.switches() if has_origin(b2.switch_origins(i), r'param:1$')]
        ok, wit = must_pass(b2, oks, vs)
        gs = guard_switches(b2, oks, [r'param:2$|param:5$'])
        ctx.check(P + ':S15-7:pubkeyinner-new-guards', 'R-dom',
                  'PubKeyInner::new: every Ok path branches on the key version, and rejecting branches on algorithm / public params exist (legacy algorithms outside v4)',
                  ok and len(gs) >= 2, function=b2.path, guards=[site(b2, g) for g, _ in gs], count=len(gs))


_old_run = run


def run(ctx):
    _old_run(ctx)
    P = 'C15'
    s15_1(ctx, P)
    s15_2(ctx, P)
    s15_3(ctx, P)
    s15_6(ctx, P)
    s15_7(ctx, P)
    # the "issuer fingerprint version = signature version" rule reads the version off the Fingerprint value: its constructor keeps it
    from rules import c13
    c13.fingerprint_variant_per_version(ctx, P)
