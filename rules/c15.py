"""C15 Version-alignment and criticality rules are enforced on every path (DESIGN §5 C15)."""
from rules import sig

EXPLANATION = ("Decides structural clauses of C15, not the behaviour: every listed acceptance rule (ESK/container version "
               "filter, session-key kind x container table, legacy/GnuPG opt-ins, key/signature version alignment on verify "
               "and sign, criticality and issuer-fingerprint version while hashing, certificate shape, back-signature on both "
               "import paths) is a guard lying on every CFG path to the accepting sink in every parallel implementation. "
               "Not decided: run-time behaviour for all pairings.")
ASSUMPTIONS = ["guard callees do what their names say (trusted base listed in coverage.trusted_base)",
               "origin analysis is flow-insensitive: may accept a comparison on the right fields with wrong values; cannot reject a correct guard"]


def run(ctx):
    P = 'C15'
    sig.s15_4_version_alignment_verify(ctx, P)
    sig.s15_5_version_alignment_sign(ctx, P)
    sig.s02_6_backsig(ctx, P)
    sig.s02_5_onepass(ctx, P)
